"""
(T) translator for C14: a small symbolic executor over the Python AST of
    $VERIF_REPO/src/pygom/loss/loss_type.py   and   $VERIF_REPO/src/pygom/utilR/distn.py
that emits  lean/Pygom/Gen/Kernels.lean : one per-observation real function per loss class and method
(`loss`, `diff_loss`, `diff2Loss` of Square, Normal, Poisson, Gamma, NegBinom; `apply_weighting` True and,
as `_raw`, False) and per closed-form helper of distn.py (`gamma_mu_shape`, `nb2pmf`, plain and log).

What the executor understands (anything else => `Refuse`, reported as a BROKEN TIE, never skipped):
  statements   docstring, pass, `name = expr`, `return expr`, `raise`, `if test:` whose test folds to a constant
               under the arguments of the call being executed
  expressions  numbers, None/True/False, names, + - * / ** (constant integer exponent), unary -, not, and/or,
               `a if test else b`, comparisons `is, is not, ==, !=, <, <=, >, >=, in` between constants,
               attribute access, calls, `x[0]`
  values       symbolic real expressions (IR below), Python constants, handles (`np.log`, `st.poisson.logpmf`,
               distn functions, bound methods of `self`), array shapes (1-D specialisation: `len(shape) == 1`),
               abstract seeds / generators (used by translate_wrappers)
  primitives   np.log np.exp np.pi np.ones(shape) gammaln  x.sum() x.ravel() x.flatten()  (per observation
               the last three are the identity and np.ones is 1);  scipy log-densities that a kernel calls
               through its distn wrapper are replaced by their documented closed form (SCIPY_FORMULAS)
  inlining     `self.residual`, distn helpers (`dpois`, `dnbinom`, `nb2pmf`, `gamma_mu_shape`, ...) are executed

IR (JSON-able nested lists, the harness/exprs.py form plus lgamma and integer powers of either sign):
  ["num","p/q"] ["pi"] ["var",s] ["add",a,b] ["sub",a,b] ["mul",a,b] ["div",a,b] ["neg",a] ["pow",a,n]
  ["exp",a] ["log",a] ["lgamma",a]
The same IR is printed as a Lean term (`to_lean`) and as a numpy lambda (`to_py`) / evaluated in mpmath (`ev`);
the property module checks the lambda against the real methods on random inputs (translation validation).
"""
import ast
import os
from fractions import Fraction

import mpmath

VERIF = os.path.dirname(os.path.dirname(os.path.abspath(__file__)))
GEN_DIR = os.path.join(VERIF, "lean", "Pygom", "Gen")
CLASSES = ["Square", "Normal", "Poisson", "Gamma", "NegBinom"]
METHODS = ["loss", "diff_loss", "diff2Loss"]
FORMULA_HELPERS = ["gamma_mu_shape", "nb2pmf"]          # closed-form functions of distn.py emitted on their own


class Refuse(Exception):
    """source outside the translated subset"""


# ----------------------------------------------------------------------------------------------- values
class R:            # symbolic real
    def __init__(self, ir): self.ir = ir
    def __repr__(self): return "R(%r)" % (self.ir,)


class C:            # python constant (None / bool / str / exception object)
    def __init__(self, v): self.v = v
    def __repr__(self): return "C(%r)" % (self.v,)


class Handle:       # dotted name rooted at an import: ("np","log"), ("st","poisson","logpmf"), ("gammaln",)
    def __init__(self, path): self.path = tuple(path)
    def __repr__(self): return "Handle(%s)" % ".".join(self.path)


class Func:         # a def of one of the parsed modules
    def __init__(self, node, module): self.node, self.module = node, module


class Shape:        # x.shape of a per-observation (1-D) array
    pass


class SelfObj:      # instance of a loss class
    def __init__(self, cls, attrs): self.cls, self.attrs = cls, attrs


class Bound:        # bound method: self.residual / x.sum / generator.exponential ...
    def __init__(self, obj, name): self.obj, self.name = obj, name


class Count:        # the `n` of an r-function: "one" (n == 1) or "many" (n > 1)
    def __init__(self, kind): self.kind = kind


class Seed:         # abstract seed argument: none | true | false | int0 | int | rstate
    def __init__(self, kind): self.kind = kind


class Rng:          # abstract generator object: fresh (RandomState()), seeded (RandomState(seed)), given, copy_of_global
    def __init__(self, source): self.source = source


class Token:        # opaque value (np.random.get_state())
    def __init__(self, what): self.what = what


class CallRec:      # a recorded external call (wrapper mode): st.<family>.<method>(args, kw) / generator draw
    def __init__(self, target, args, kwargs, scalar=False):
        self.target, self.args, self.kwargs, self.scalar = target, args, kwargs, scalar


class Raised:       # the call raised
    def __init__(self, what): self.what = what


def num(p, q=1):
    f = Fraction(p, q)
    return ["num", str(f.numerator) if f.denominator == 1 else "%d/%d" % (f.numerator, f.denominator)]


def const_of(ir):
    """Fraction value of a constant IR, else None"""
    t = ir[0]
    if t == "num":
        return Fraction(ir[1])
    if t == "neg":
        a = const_of(ir[1]); return None if a is None else -a
    if t in ("add", "sub", "mul", "div"):
        a, b = const_of(ir[1]), const_of(ir[2])
        if a is None or b is None or (t == "div" and b == 0):
            return None
        return {"add": a + b, "sub": a - b, "mul": a * b, "div": a / b if b != 0 else None}[t]
    return None


# closed forms of the scipy log-densities a kernel may reach through its distn wrapper (documented formulas;
# scipy.stats itself is in the trusted base as the executable reference the correspondence compares with)
def _poisson_logpmf(a, kw):
    x, mu = a[0], kw.get("mu", a[1] if len(a) > 1 else None)
    return ["sub", ["sub", ["mul", x, ["log", mu]], mu], ["lgamma", ["add", x, num(1)]]]


def _norm_logpdf(a, kw):
    x = a[0]; loc = kw.get("loc", a[1] if len(a) > 1 else num(0)); sc = kw.get("scale", a[2] if len(a) > 2 else num(1))
    z = ["div", ["sub", x, loc], sc]
    return ["sub", ["sub", ["neg", ["div", ["pow", z, 2], num(2)]], ["log", sc]], ["div", ["log", ["mul", num(2), ["pi"]]], num(2)]]


def _gamma_logpdf(a, kw):
    x = a[0]; sh = kw.get("a", a[1] if len(a) > 1 else None); sc = kw.get("scale", num(1))
    return ["sub", ["sub", ["sub", ["mul", ["sub", sh, num(1)], ["log", x]], ["div", x, sc]], ["mul", sh, ["log", sc]]], ["lgamma", sh]]


def _nbinom_logpmf(a, kw):
    x = a[0]; n = kw.get("n", a[1] if len(a) > 1 else None); p = kw.get("p", a[2] if len(a) > 2 else None)
    return ["add", ["sub", ["sub", ["lgamma", ["add", x, n]], ["lgamma", ["add", x, num(1)]]], ["lgamma", n]],
            ["add", ["mul", n, ["log", p]], ["mul", x, ["log", ["sub", num(1), p]]]]]


SCIPY_FORMULAS = {("poisson", "logpmf"): _poisson_logpmf, ("norm", "logpdf"): _norm_logpdf,
                  ("gamma", "logpdf"): _gamma_logpdf, ("nbinom", "logpmf"): _nbinom_logpmf}
for _k, _f in list(SCIPY_FORMULAS.items()):
    SCIPY_FORMULAS[(_k[0], _k[1][3:])] = (lambda f: (lambda a, kw: ["exp", f(a, kw)]))(_f)      # pmf / pdf


# ------------------------------------------------------------------------------------------ interpreter
class Interp:
    """mode 'kernel': scipy calls are replaced by closed forms, local functions are inlined.
       mode 'wrapper': `st.<family>.<method>(...)`, draws from generators and calls to the closed-form helpers
       (`record_local`) are recorded as CallRec values."""

    def __init__(self, modules, mode="kernel", record_local=()):
        self.mods = modules           # name -> ast.Module
        self.mode = mode
        self.record_local = set(record_local)
        self.depth = 0
        self.effects = []             # side effects seen (e.g. np.random.seed) - wrapper mode
        self.funcs = {}
        for mname, tree in modules.items():
            d = {}
            for node in tree.body:
                if isinstance(node, ast.FunctionDef):
                    d[node.name] = node           # a later def replaces an earlier one, as in Python
            self.funcs[mname] = d

    # -- helpers
    def where(self, node):
        return "line %s" % getattr(node, "lineno", "?")

    def truth(self, v, node):
        if isinstance(v, C) and (v.v is None or isinstance(v.v, bool)):
            return bool(v.v)
        if isinstance(v, R):
            c = const_of(v.ir)
            if c is not None:
                return c != 0
        if isinstance(v, Seed):
            return {"none": False, "true": True, "false": False, "int0": False, "int": True, "rstate": True}[v.kind]
        if isinstance(v, Rng):
            return True
        raise Refuse("%s: test does not fold to a constant under the call's arguments (%r)" % (self.where(node), v))

    # -- statements
    def block(self, stmts, env, module):
        """returns None (fell through) or a value / Raised"""
        for s in stmts:
            if isinstance(s, ast.Expr) and isinstance(s.value, ast.Constant) and isinstance(s.value.value, str):
                continue
            if isinstance(s, ast.Pass):
                continue
            if isinstance(s, ast.Assign):
                if len(s.targets) != 1 or not isinstance(s.targets[0], ast.Name):
                    raise Refuse("%s: assignment target outside the subset" % self.where(s))
                v = self.eval(s.value, env, module)
                if isinstance(v, Raised):
                    return v
                env[s.targets[0].id] = v
                continue
            if isinstance(s, ast.Return):
                return C(None) if s.value is None else self.eval(s.value, env, module)
            if isinstance(s, ast.Raise):
                return Raised(ast.unparse(s.exc) if s.exc is not None else "raise")
            if isinstance(s, ast.If):
                t = self.eval(s.test, env, module)
                if isinstance(t, Raised):
                    return t
                r = self.block(s.body if self.truth(t, s.test) else s.orelse, env, module)
                if r is not None:
                    return r
                continue
            if isinstance(s, ast.Expr) and isinstance(s.value, ast.Call):
                v = self.eval(s.value, env, module)       # evaluated for its (modelled) effect only
                if isinstance(v, Raised):
                    return v
                continue
            raise Refuse("%s: statement `%s` outside the subset" % (self.where(s), type(s).__name__))
        return None

    def call_def(self, fn, args, kwargs, module, self_obj=None):
        a = fn.args
        if a.vararg or a.kwarg or a.kwonlyargs or a.posonlyargs:
            raise Refuse("%s: signature of %s outside the subset" % (self.where(fn), fn.name))
        names = [x.arg for x in a.args]
        env = {}
        if self_obj is not None:
            env[names[0]] = self_obj
            names = names[1:]
        if len(args) > len(names):
            raise Refuse("too many positional arguments for %s" % fn.name)
        for n, v in zip(names, args):
            env[n] = v
        for k, v in kwargs.items():
            if k not in names or k in env:
                raise Refuse("bad keyword %s for %s" % (k, fn.name))
            env[k] = v
        defaults = dict(zip([x.arg for x in a.args][len(a.args) - len(a.defaults):], a.defaults))
        for n in names:
            if n not in env:
                if n not in defaults:
                    return Raised("TypeError: %s() missing argument %s" % (fn.name, n))
                env[n] = self.eval(defaults[n], {}, module)
        self.depth += 1
        if self.depth > 12:
            raise Refuse("call depth")
        try:
            r = self.block(fn.body, env, module)
        finally:
            self.depth -= 1
        return C(None) if r is None else r

    # -- expressions
    def eval(self, node, env, module):
        ev = lambda n: self.eval(n, env, module)
        if isinstance(node, ast.Constant):
            v = node.value
            if v is None or isinstance(v, (bool, str)):
                return C(v)
            if isinstance(v, int):
                return R(num(v))
            if isinstance(v, float):
                return R(num(Fraction(repr(v))))
            raise Refuse("%s: constant %r" % (self.where(node), v))
        if isinstance(node, ast.Name):
            if node.id in env:
                return env[node.id]
            if node.id in self.funcs.get(module, {}):
                return Func(self.funcs[module][node.id], module)
            glob = self.globals_of(module)
            if node.id in glob:
                return glob[node.id]
            if node.id in ("len", "isinstance", "int", "float", "bool", "Exception", "RuntimeError", "TypeError", "ValueError", "AssertionError"):
                return Handle(("builtin", node.id))
            raise Refuse("%s: unknown name %s" % (self.where(node), node.id))
        if isinstance(node, ast.Attribute):
            base = ev(node.value)
            return self.attr(base, node.attr, node)
        if isinstance(node, ast.UnaryOp):
            v = ev(node.operand)
            if isinstance(v, Raised): return v
            if isinstance(node.op, ast.USub) and isinstance(v, R):
                return R(["neg", v.ir])
            if isinstance(node.op, ast.UAdd) and isinstance(v, R):
                return v
            if isinstance(node.op, ast.Not):
                return C(not self.truth(v, node))
            raise Refuse("%s: unary operator on %r" % (self.where(node), v))
        if isinstance(node, ast.BinOp):
            a, b = ev(node.left), ev(node.right)
            for x in (a, b):
                if isinstance(x, Raised): return x
            if not (isinstance(a, R) and isinstance(b, R)):
                raise Refuse("%s: arithmetic on non-real values (%r, %r)" % (self.where(node), a, b))
            op = type(node.op)
            if op in (ast.Add, ast.Sub, ast.Mult, ast.Div):
                return R([{ast.Add: "add", ast.Sub: "sub", ast.Mult: "mul", ast.Div: "div"}[op], a.ir, b.ir])
            if op is ast.Pow:
                c = const_of(b.ir)
                if c is None or c.denominator != 1:
                    raise Refuse("%s: power with a non-integer-constant exponent" % self.where(node))
                return R(["pow", a.ir, int(c)])
            raise Refuse("%s: operator %s" % (self.where(node), op.__name__))
        if isinstance(node, ast.BoolOp):
            last = None
            for sub in node.values:
                last = ev(sub)
                if isinstance(last, Raised): return last
                t = self.truth(last, sub)
                if isinstance(node.op, ast.And) and not t: return last
                if isinstance(node.op, ast.Or) and t: return last
            return last
        if isinstance(node, ast.IfExp):
            t = ev(node.test)
            if isinstance(t, Raised): return t
            return ev(node.body) if self.truth(t, node.test) else ev(node.orelse)
        if isinstance(node, ast.Compare):
            if len(node.ops) != 1:
                raise Refuse("%s: chained comparison" % self.where(node))
            a, b = ev(node.left), ev(node.comparators[0])
            return self.compare(type(node.ops[0]), a, b, node)
        if isinstance(node, ast.Call):
            f = ev(node.func)
            if isinstance(f, Raised): return f
            args = []
            for x in node.args:
                if isinstance(x, ast.Starred):
                    raise Refuse("%s: *args" % self.where(node))
                v = ev(x)
                if isinstance(v, Raised): return v
                args.append(v)
            kwargs = {}
            for k in node.keywords:
                if k.arg is None:
                    raise Refuse("%s: **kwargs" % self.where(node))
                v = ev(k.value)
                if isinstance(v, Raised): return v
                kwargs[k.arg] = v
            return self.call(f, args, kwargs, node, module)
        if isinstance(node, ast.Subscript):
            v = ev(node.value)
            if isinstance(v, Raised): return v
            idx = node.slice
            if isinstance(v, CallRec) and isinstance(idx, ast.Constant) and idx.value == 0:
                return CallRec(v.target, v.args, v.kwargs, scalar=True)
            raise Refuse("%s: subscript outside the subset" % self.where(node))
        raise Refuse("%s: expression `%s` outside the subset" % (self.where(node), type(node).__name__))

    def globals_of(self, module):
        """names bound by the imports of the module: only the ones the subset knows"""
        out = {}
        for node in self.mods[module].body:
            if isinstance(node, ast.Import):
                for a in node.names:
                    if a.name == "numpy": out[a.asname or "numpy"] = Handle(("np",))
                    if a.name == "scipy.stats": out[a.asname or "scipy"] = Handle(("st",))
            elif isinstance(node, ast.ImportFrom):
                for a in node.names:
                    nm = a.asname or a.name
                    if node.module == "scipy.special" and a.name == "gammaln":
                        out[nm] = Handle(("gammaln",))
                    elif node.module == "pygom.utilR.distn" and "distn" in self.funcs and a.name in self.funcs["distn"]:
                        out[nm] = Func(self.funcs["distn"][a.name], "distn")
                    elif node.module == "pygom.model.ode_utils" and a.name == "check_array_type":
                        out[nm] = Handle(("check_array_type",))
        return out

    def attr(self, base, name, node):
        if isinstance(base, Raised):
            return base
        if isinstance(base, Handle):
            if base.path == ("np",) and name == "pi":
                return R(["pi"])
            return Handle(base.path + (name,))
        if isinstance(base, SelfObj):
            if name in base.attrs:
                return base.attrs[name]
            m = base.cls.find_method(name)
            if m is not None:
                return Bound(base, name)
            raise Refuse("%s: unknown attribute self.%s" % (self.where(node), name))
        if isinstance(base, R):
            if name == "shape":
                return Shape()
            if name in ("sum", "ravel", "flatten"):
                return Bound(base, name)
        if isinstance(base, Rng):
            return Bound(base, name)
        if isinstance(base, Seed) and base.kind == "rstate":       # a RandomState object handed in by the caller
            return Bound(Rng("given"), name)
        raise Refuse("%s: attribute .%s of %r" % (self.where(node), name, base))

    def compare(self, op, a, b, node):
        for x in (a, b):
            if isinstance(x, Raised): return x
        if op in (ast.Is, ast.IsNot):
            def ident(v):
                if isinstance(v, C) and (v.v is None or isinstance(v.v, bool)):
                    return ("const", v.v)
                if isinstance(v, Seed):
                    return {"none": ("const", None), "true": ("const", True), "false": ("const", False)}.get(v.kind, ("obj", id(v)))
                return ("obj", id(v))
            same = ident(a) == ident(b) and type(ident(a)[1]) is type(ident(b)[1])
            return C(same if op is ast.Is else not same)
        ca = const_of(a.ir) if isinstance(a, R) else None
        cb = const_of(b.ir) if isinstance(b, R) else None
        if isinstance(a, Count) and cb is not None:
            if a.kind == "one":
                ca = Fraction(1)
            else:                            # n >= 2, otherwise unknown
                table = {ast.Gt: (cb <= 1, True), ast.GtE: (cb <= 2, True), ast.NotEq: (cb <= 1, True),
                         ast.Lt: (cb <= 2, False), ast.LtE: (cb <= 1, False), ast.Eq: (cb <= 1, False)}
                if op in table and table[op][0]:
                    return C(table[op][1])
                raise Refuse("%s: comparison of n (> 1) with %s does not fold" % (self.where(node), cb))
        if ca is not None and cb is not None:
            ops = {ast.Eq: ca == cb, ast.NotEq: ca != cb, ast.Lt: ca < cb, ast.LtE: ca <= cb, ast.Gt: ca > cb, ast.GtE: ca >= cb}
            if op not in ops:
                raise Refuse("%s: comparison operator outside the subset" % self.where(node))
            return C(ops[op])
        if op in (ast.Eq, ast.NotEq) and isinstance(a, C) and isinstance(b, C):
            return C((a.v == b.v) if op is ast.Eq else (a.v != b.v))
        raise Refuse("%s: comparison does not fold to a constant (%r, %r)" % (self.where(node), a, b))

    def call(self, f, args, kwargs, node, module):
        if isinstance(f, Func):
            if self.mode == "wrapper" and f.node.name in self.record_local:
                return CallRec(("distn", f.node.name), args, kwargs)
            return self.call_def(f.node, args, kwargs, f.module)
        if isinstance(f, Bound):
            if isinstance(f.obj, SelfObj):
                fn, mod = f.obj.cls.find_method(f.name)
                return self.call_def(fn, args, kwargs, mod, self_obj=f.obj)
            if isinstance(f.obj, R) and f.name in ("sum", "ravel", "flatten") and not args and not kwargs:
                return f.obj
            if isinstance(f.obj, Rng):
                if f.name == "set_state" and len(args) == 1 and isinstance(args[0], Token) and args[0].what == "global_state":
                    f.obj.source = "copy_of_global"
                    return C(None)
                return CallRec(("rng", f.obj.source, f.name), args, kwargs)
            raise Refuse("%s: call of %r.%s" % (self.where(node), f.obj, f.name))
        if isinstance(f, Handle):
            p = f.path
            if p in (("np", "log"), ("np", "exp")) and len(args) == 1 and isinstance(args[0], R) and not kwargs:
                return R([p[1], args[0].ir])
            if p == ("gammaln",) and len(args) == 1 and isinstance(args[0], R) and not kwargs:
                return R(["lgamma", args[0].ir])
            if p == ("np", "ones") and len(args) == 1 and isinstance(args[0], Shape) and not kwargs:
                return R(num(1))
            if p == ("builtin", "len") and len(args) == 1 and isinstance(args[0], Shape):
                return R(num(1))                 # 1-D specialisation
            if p == ("builtin", "isinstance") and len(args) == 2:
                return C(self.isinstance_(args[0], args[1], node))
            if p[0] == "builtin" and p[1] in ("Exception", "RuntimeError", "TypeError", "ValueError", "AssertionError"):
                return C("%s(...)" % p[1])
            if len(p) == 3 and p[0] == "st":
                if self.mode == "wrapper":
                    return CallRec(p, args, kwargs)
                fam = (p[1], p[2])
                if fam in SCIPY_FORMULAS and all(isinstance(x, R) for x in list(args) + list(kwargs.values())):
                    try:
                        return R(SCIPY_FORMULAS[fam]([x.ir for x in args], {k: v.ir for k, v in kwargs.items()}))
                    except Exception:
                        raise Refuse("%s: arguments of st.%s.%s outside the known signature" % (self.where(node), p[1], p[2]))
                raise Refuse("%s: no closed form recorded for st.%s.%s" % (self.where(node), p[1], p[2]))
            if p == ("np", "random", "RandomState"):
                if not args and not kwargs:
                    return Rng("fresh")
                if len(args) == 1 and isinstance(args[0], Seed) and args[0].kind in ("int", "int0", "false", "true"):
                    return Rng("seeded")
                raise Refuse("%s: RandomState(%r)" % (self.where(node), args))
            if p == ("np", "random", "get_state") and not args:
                return Token("global_state")
            if p == ("np", "random", "seed") and self.mode == "wrapper":
                self.effects.append("np.random.seed")
                return C(None)
            if len(p) == 3 and p[:2] == ("np", "random") and self.mode == "wrapper":
                return CallRec(("rng", "global", p[2]), args, kwargs)
            raise Refuse("%s: call of %s outside the subset" % (self.where(node), ".".join(p)))
        raise Refuse("%s: call of %r" % (self.where(node), f))

    def isinstance_(self, v, t, node):
        ts = [t]
        names = []
        for x in ts:
            if isinstance(x, Handle):
                names.append(x.path)
            else:
                raise Refuse("%s: isinstance type %r" % (self.where(node), x))
        out = False
        for p in names:
            if p == ("builtin", "bool"):
                out |= (isinstance(v, C) and isinstance(v.v, bool)) or (isinstance(v, Seed) and v.kind in ("true", "false"))
            elif p == ("builtin", "int"):      # Python: bool is a subclass of int
                out |= (isinstance(v, C) and isinstance(v.v, bool)) or (isinstance(v, Seed) and v.kind in ("true", "false", "int", "int0"))
            elif p == ("np", "random", "RandomState"):
                out |= (isinstance(v, Seed) and v.kind == "rstate") or isinstance(v, Rng)
            else:
                raise Refuse("%s: isinstance against %s" % (self.where(node), ".".join(p)))
        return out


# ------------------------------------------------------------------------------------- loss classes
class LossClass:
    def __init__(self, node, module, classes):
        self.node, self.module, self.classes = node, module, classes

    def bases(self):
        out = []
        for b in self.node.bases:
            if isinstance(b, ast.Name) and b.id in self.classes:
                out.append(self.classes[b.id])
            elif isinstance(b, ast.Name) and b.id == "object":
                pass
            else:
                raise Refuse("base class of %s outside the subset" % self.node.name)
        return out

    def find_method(self, name):
        for n in self.node.body:
            if isinstance(n, ast.FunctionDef) and n.name == name:
                return n, self.module
        for b in self.bases():
            r = b.find_method(name)
            if r is not None:
                return r
        return None


def _u(node):
    return ast.unparse(node).replace(" ", "")


def _assignments(stmts, guard=None):
    """(target unparsed, value node, innermost enclosing if-test unparsed) of every assignment in a body"""
    for s in stmts:
        if isinstance(s, ast.Assign):
            for t in s.targets:
                yield _u(t), s.value, guard
        elif isinstance(s, ast.If):
            yield from _assignments(s.body, _u(s.test))
            yield from _assignments(s.orelse, "else")
        elif isinstance(s, (ast.For, ast.While, ast.With, ast.Try)):
            raise Refuse("line %d: statement %s in __init__" % (s.lineno, type(s).__name__))


def self_attributes(cls, interp):
    """what `self._x` denotes per observation.  `_y` -> y, `_w` -> w, the spread attribute -> the constructor's spread
    argument; the broadcasting glue of `__init__` is checked against the forms it is known to have (the glue itself
    is validated on the real code by the correspondence); attributes assigned unconditionally from other attributes
    (`self._sigma2 = self._sigma**2`) are executed."""
    attrs = {}
    spread = None
    chain = [cls] + cls.bases()
    for c in reversed(chain):            # base first
        init = None
        for n in c.node.body:
            if isinstance(n, ast.FunctionDef) and n.name == "__init__":
                init = n
        if init is None:
            continue
        params = [a.arg for a in init.args.args][1:]
        if c.node.name == "Baseloss_Type" or not c.bases():
            if params[:2] != ["y", "weights"]:
                raise Refuse("base __init__ signature %s" % params)
            for tgt, val, guard in _assignments(init.body):
                v = _u(val)
                if tgt == "self._y":
                    if v != "check_array_type(y)":
                        raise Refuse("line %d: self._y = %s is not the observation array" % (val.lineno, v))
                    attrs["_y"] = R(["var", "y"])
                elif tgt == "self._w":
                    if v not in ("np.ones(self._y.shape)", "check_array_type(weights,accept_booleans=True)", "check_array_type(weights)", "self._w.flatten()", "self._w.ravel()"):
                        raise Refuse("line %d: self._w = %s is not the weight array" % (val.lineno, v))
                    attrs["_w"] = R(["var", "w"])
                elif tgt.startswith("self.") and tgt != "self._numVar":
                    raise Refuse("line %d: unknown base attribute %s" % (val.lineno, tgt))
            continue
        extra = [p for p in params if p not in ("y", "weights")]
        if len(extra) > 1:
            raise Refuse("%s.__init__ has more than one spread argument %s" % (c.node.name, extra))
        derived = []
        for tgt, val, guard in _assignments(init.body):
            v = _u(val)
            if extra and tgt == "self._" + extra[0]:
                p = extra[0]
                ok = v in (p, p + "*np.ones(self._y.shape)")
                if not ok and guard is not None:
                    # default value: `elif p is None or p == c:  self._p = c*np.ones(...)` (c = 1 written without factor)
                    for cst in ("1.0", "2.0", "1", "2", "0.5", "3.0"):
                        if guard == "%sisNoneor%s==%s" % (p, p, cst):
                            fc = float(cst)
                            forms = ["%s*np.ones(self._y.shape)" % x for x in (cst, str(int(fc)) if fc == int(fc) else cst, repr(fc))]
                            if fc == 1.0:
                                forms.append("np.ones(self._y.shape)")
                            ok = v in forms
                if not ok:
                    raise Refuse("line %d: self._%s = %s (under `%s`) is not the spread argument broadcast to the observations" % (val.lineno, p, v, guard))
                spread = p
                attrs["_" + p] = R(["var", p])
            elif tgt.startswith("self."):
                if guard is not None:
                    raise Refuse("line %d: conditional attribute %s" % (val.lineno, tgt))
                derived.append((tgt[5:], val))
            elif extra and tgt == extra[0]:
                if v not in ("%s.flatten()" % extra[0], "%s.ravel()" % extra[0]):
                    raise Refuse("line %d: %s rebound to %s in __init__" % (val.lineno, tgt, v))
        me = SelfObj(cls, attrs)
        for name, val in derived:
            attrs[name] = interp.eval(val, {"self": me}, c.module)
    return attrs, spread


def parse_sources(repo):
    src = {}
    for key, rel in (("loss_type", "src/pygom/loss/loss_type.py"), ("distn", "src/pygom/utilR/distn.py")):
        path = os.path.join(repo, rel)
        with open(path, "rb") as f:
            text = f.read().decode("utf-8")
        src[key] = ast.parse(text, filename=path)
    return src


def translate(repo):
    """returns {"defs": [ {name, params, ir, origin} ], "refused": [ {what, detail} ]}"""
    mods = parse_sources(repo)
    interp = Interp(mods, mode="kernel")
    defs, refused = [], []
    classes = {}
    for n in mods["loss_type"].body:
        if isinstance(n, ast.ClassDef):
            classes[n.name] = None
    for n in mods["loss_type"].body:
        if isinstance(n, ast.ClassDef):
            classes[n.name] = LossClass(n, "loss_type", classes)
    exported = []
    for n in mods["loss_type"].body:
        if isinstance(n, ast.Assign) and _u(n.targets[0]) == "__all__":
            exported = [e.value for e in n.value.elts]
    for c in exported:
        if c not in CLASSES:
            refused.append({"what": "loss_type.%s" % c, "detail": "loss class exported by loss_type.py that the translator does not know"})
    for cname in CLASSES:
        cls = classes.get(cname)
        if cls is None:
            refused.append({"what": "loss_type.%s" % cname, "detail": "class not found"})
            continue
        try:
            attrs, spread = self_attributes(cls, interp)
        except Refuse as e:
            refused.append({"what": "loss_type.%s.__init__" % cname, "detail": str(e)})
            continue
        params = ["y", "yhat"] + ([spread] if spread else []) + ["w"]
        for m in METHODS:
            for weighting, suffix in ((True, ""), (False, "_raw")):
                what = "loss_type.%s.%s(apply_weighting=%s)" % (cname, m, weighting)
                try:
                    found = cls.find_method(m)
                    if found is None:
                        raise Refuse("method not found")
                    fn, mod = found
                    me = SelfObj(cls, dict(attrs))
                    r = interp.call_def(fn, [R(["var", "yhat"])], {"apply_weighting": C(weighting)}, mod, self_obj=me)
                    if isinstance(r, Raised):
                        raise Refuse("raises on valid input: %s" % r.what)
                    if not isinstance(r, R):
                        raise Refuse("does not return a real expression (%r)" % (r,))
                    bad = sorted(free_vars(r.ir) - set(params))
                    if bad:
                        raise Refuse("free symbols %s" % bad)
                    defs.append({"name": "%s_%s%s" % (cname, m, suffix), "params": params, "ir": r.ir, "origin": what})
                except Refuse as e:
                    refused.append({"what": what, "detail": str(e)})
    for h in FORMULA_HELPERS:
        fn = interp.funcs["distn"].get(h)
        if fn is None:
            continue              # helper not present: nothing to emit (kernels that need it are refused above)
        names = [a.arg for a in fn.args.args]
        if "log" not in names:
            refused.append({"what": "distn.%s" % h, "detail": "no `log` argument"})
            continue
        ps = [n for n in names if n != "log"]
        for lg, suffix in ((True, "_log"), (False, "_plain")):
            what = "distn.%s(log=%s)" % (h, lg)
            try:
                kw = {n: R(["var", n]) for n in ps}
                kw["log"] = C(lg)
                r = interp.call_def(fn, [], kw, "distn")
                if not isinstance(r, R):
                    raise Refuse("does not return a real expression (%r)" % (r,))
                defs.append({"name": h + suffix, "params": ps, "ir": r.ir, "origin": what})
            except Refuse as e:
                refused.append({"what": what, "detail": str(e)})
    return {"defs": defs, "refused": refused}


def free_vars(ir):
    if ir[0] == "var":
        return {ir[1]}
    out = set()
    for x in ir[1:]:
        if isinstance(x, list):
            out |= free_vars(x)
    return out


# ------------------------------------------------------------------------------------------- printers
def to_lean(ir):
    t = ir[0]
    if t == "num":
        f = Fraction(ir[1])
        if f.denominator == 1:
            return "(%d : ℝ)" % f.numerator if f >= 0 else "(-%d : ℝ)" % -f.numerator
        return "((%d : ℝ) / %d)" % (f.numerator, f.denominator)
    if t == "pi":
        return "Real.pi"
    if t == "var":
        return ir[1]
    if t in ("add", "sub", "mul", "div"):
        return "(%s %s %s)" % (to_lean(ir[1]), {"add": "+", "sub": "-", "mul": "*", "div": "/"}[t], to_lean(ir[2]))
    if t == "neg":
        return "(-%s)" % to_lean(ir[1])
    if t == "pow":
        n = int(ir[2])
        return "(%s ^ (%d : ℕ))" % (to_lean(ir[1]), n) if n >= 0 else "(%s ^ (-%d : ℤ))" % (to_lean(ir[1]), -n)
    if t == "exp":
        return "Real.exp %s" % _paren(to_lean(ir[1]))
    if t == "log":
        return "Real.log %s" % _paren(to_lean(ir[1]))
    if t == "lgamma":
        return "Real.log (Real.Gamma %s)" % _paren(to_lean(ir[1]))
    raise ValueError("bad IR %r" % (ir,))


def _paren(s):
    return s if (s.startswith("(") and _balanced(s)) or s.isidentifier() else "(%s)" % s


def _balanced(s):
    d = 0
    for i, ch in enumerate(s):
        d += ch == "("
        d -= ch == ")"
        if d == 0 and i < len(s) - 1:
            return False
    return d == 0


def to_py(ir):
    """numpy expression string (float arithmetic) - evaluated with {np, gammaln}"""
    t = ir[0]
    if t == "num":
        f = Fraction(ir[1])
        return "(%d.0)" % f.numerator if f.denominator == 1 else "(%d.0/%d.0)" % (f.numerator, f.denominator)
    if t == "pi":
        return "np.pi"
    if t == "var":
        return ir[1]
    if t in ("add", "sub", "mul", "div"):
        return "(%s %s %s)" % (to_py(ir[1]), {"add": "+", "sub": "-", "mul": "*", "div": "/"}[t], to_py(ir[2]))
    if t == "neg":
        return "(-%s)" % to_py(ir[1])
    if t == "pow":
        return "(%s ** (%d.0))" % (to_py(ir[1]), int(ir[2])) if int(ir[2]) < 0 else "(%s ** %d)" % (to_py(ir[1]), int(ir[2]))
    if t in ("exp", "log"):
        return "np.%s(%s)" % (t, to_py(ir[1]))
    if t == "lgamma":
        return "gammaln(%s)" % to_py(ir[1])
    raise ValueError("bad IR %r" % (ir,))


def py_lambda(d):
    import numpy as np
    from scipy.special import gammaln
    return eval("lambda %s: %s" % (", ".join(d["params"]), to_py(d["ir"])), {"np": np, "gammaln": gammaln})


def ev(ir, env):
    """50-digit evaluation of the IR (mpmath)"""
    t = ir[0]
    if t == "num":
        f = Fraction(ir[1]); return mpmath.mpf(f.numerator) / f.denominator
    if t == "pi":
        return mpmath.pi
    if t == "var":
        return mpmath.mpf(env[ir[1]])
    if t == "add": return ev(ir[1], env) + ev(ir[2], env)
    if t == "sub": return ev(ir[1], env) - ev(ir[2], env)
    if t == "mul": return ev(ir[1], env) * ev(ir[2], env)
    if t == "div": return ev(ir[1], env) / ev(ir[2], env)
    if t == "neg": return -ev(ir[1], env)
    if t == "pow": return ev(ir[1], env) ** int(ir[2])
    if t == "exp": return mpmath.exp(ev(ir[1], env))
    if t == "log": return mpmath.log(ev(ir[1], env))
    if t == "lgamma": return mpmath.loggamma(ev(ir[1], env))
    raise ValueError("bad IR %r" % (ir,))


HEADER = """/-
GENERATED by harness/translate_kernels.py from src/pygom/loss/loss_type.py and src/pygom/utilR/distn.py
of the tree under test - do not edit.  Regenerated (and rewritten only when the content changes) on every
run of ./check C14 / C19; the theorems of Pygom/Props/C14.lean and C19.lean are re-checked against it.

One real function per loss class and method, per observation (`.sum()` is the identity, the (n,1) array glue
is specialised away and validated by the correspondence); `_raw` = `apply_weighting=False`.
-/
import Mathlib.Analysis.SpecialFunctions.Gamma.Basic
import Mathlib.Analysis.SpecialFunctions.Log.Basic

set_option linter.unusedVariables false

namespace Pygom
namespace Gen

"""


def render(result):
    out = [HEADER]
    for d in result["defs"]:
        out.append("/-- %s -/\nnoncomputable def %s (%s : ℝ) : ℝ :=\n  %s\n\n" % (d["origin"], d["name"], " ".join(d["params"]), to_lean(d["ir"])))
    out.append("end Gen\nend Pygom\n")
    return "".join(out)


def write_if_changed(path, text):
    os.makedirs(os.path.dirname(path), exist_ok=True)
    try:
        with open(path, encoding="utf-8") as f:
            if f.read() == text:
                return False
    except OSError:
        pass
    tmp = path + ".tmp%d" % os.getpid()
    with open(tmp, "w", encoding="utf-8") as f:
        f.write(text)
    os.replace(tmp, path)
    return True


def regenerate(repo):
    """translate and (re)write Gen/Kernels.lean.  A refused definition keeps its previous text out of the file: the
    theorems that mention it then fail to build, which is the broken obligation; the refusal is reported as well."""
    res = translate(repo)
    path = os.path.join(GEN_DIR, "Kernels.lean")
    res["changed"] = write_if_changed(path, render(res))
    res["path"] = path
    return res


if __name__ == "__main__":
    import json, sys
    r = regenerate(sys.argv[1] if len(sys.argv) > 1 else os.environ.get("VERIF_REPO", "/repo"))
    print(json.dumps({"defs": [d["name"] for d in r["defs"]], "refused": r["refused"], "changed": r["changed"]}, indent=1))
