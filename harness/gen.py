"""
Structured generator of model definitions (shared by most properties).

A generated case is a JSON-able `spec` (the very object sent to the Lean driver, see
lean/Pygom/Build.lean) plus `meta` (ignored by Lean): expanded state / parameter names and the
abstract process set the spec was derived from.
"""
import copy
import hashlib
import json
import random
from fractions import Fraction

from . import exprs as E

STATE_POOL = ["S", "I", "R", "E", "A", "B", "C", "V", "W", "X", "Y", "Z", "H", "D"]
PARAM_POOL = ["beta", "gamma", "alpha", "mu", "kappa", "sigma", "rho", "delta", "a", "b", "c", "k", "N0"]
DERIVED_POOL = ["d1", "d2", "lam", "R0"]
RATE_KINDS = [("linear", 3), ("mass", 4), ("saturating", 2), ("exponential", 1), ("periodic", 1)]

# ---------------------------------------------------------------------------------------------------------
# "wide" input space (opt-in through gen_model(..., wide={...}); the default random stream is untouched).
# Names a user may well choose and which collide with plausible Python locals / builtins / sympy / numpy names, or
# with each other as prefixes / suffixes.  Everything listed is ACCEPTED by the unchanged pygom (probed name by
# name as a state and as a parameter: ode / jacobian / grad / vMat / eventRateVector right); what it rejects is
# left out: `lambda` ("reserved keyword"), a leading underscore, `t` (the time symbol), `None` / `True`, and the
# names sympy's parser itself calls in the transformed source (`Integer`, `Float`, `Rational`, `Symbol`, `symbols`).
# `exp`, `cos`, `pi`, `log`, `sin` are only drawn for models that do not use the function / constant of that name.
# ---------------------------------------------------------------------------------------------------------
TRAP_STATE_POOL = ["s", "i", "r", "e", "S", "I", "R", "E", "N", "Q", "O", "C", "x", "y", "j", "n", "f", "k", "S1", "S10", "S_1", "I2", "x1",
                   "x10", "Si", "In", "Id", "Ei", "li", "re", "im", "oo", "nan", "len", "sum", "abs", "int", "id", "np", "A", "B", "V", "W", "H", "D", "dS", "S2I"]
TRAP_PARAM_POOL = ["i", "j", "k", "n", "x", "y", "f", "e", "s", "r", "beta", "beta1", "betaS", "beta_1", "gamma", "zeta", "N", "Q", "O", "C", "E",
                   "I", "S", "pi", "exp", "log", "sin", "cos", "Max", "Min", "Abs", "sqrt", "ln", "min", "max", "float", "str", "list", "map",
                   "all", "any", "a_b", "lam", "mu", "nu", "rho", "tau", "N0", "R0", "a", "b", "c", "d", "g", "h", "p", "q", "dt", "var", "rf", "ff"]
TRAP_DERIVED_POOL = ["d1", "d2", "lam", "R0", "N", "n", "i", "k", "e", "foi", "gamma", "beta", "I", "S", "E", "Q", "x", "y", "f"]
TRAP_FAMILIES_STATE = [["s", "i", "r"], ["s", "e", "i", "r"], ["S", "S1", "S10"], ["x", "x1", "x10"], ["I", "I2", "Id"], ["i", "j", "k"], ["S", "I", "E", "N"],
                       ["i", "In", "int"], ["e", "E", "Ei"]]
TRAP_FAMILIES_PARAM = [["beta", "beta1", "betaS"], ["beta", "beta_1", "gamma"], ["i", "j", "k"], ["n", "N", "N0"], ["e", "E", "exp"], ["i", "I", "pi"],
                       ["x", "y", "f"], ["k", "i", "n"], ["S", "Q", "O"]]
FUNCTION_NAMES = {"exp": ("exponential",), "cos": ("periodic",), "pi": ("periodic",)}


def draw_names(rng, pool, families, k, taken):
    """k distinct names from `pool` not in `taken`; with probability 0.4 a family of related names comes first"""
    out = []
    if rng.random() < 0.4:
        fam = [n for n in rng.choice(families) if n not in taken]
        rng.shuffle(fam)
        out = fam[:k]
    rest = [n for n in pool if n not in taken and n not in out]
    out += rng.sample(rest, k - len(out))
    rng.shuffle(out)
    return out


WIDE_CONSTS = [(1, 1000), (1, 3), (5, 2), (1, 100), (3, 1000), (2, 1), (10000, 1), (7, 4), (1, 8), (25, 10000)]


def gen_mag_wide(rng, states, coefs, opts):
    """a magnitude as a user may write it: a number, a symbol, or a COMPOUND expression of parameters and numbers (sum,
    difference, product, quotient, power, unary minus); with opts["state_mags"] also one that depends on a state"""
    u = rng.random()
    p = E.var(rng.choice(coefs))
    others = [c for c in coefs if c != p[1]]
    q = E.var(rng.choice(others)) if others else E.num(rng.randint(2, 3))
    if u < 0.30:
        return E.num(rng.randint(1, 3))
    if u < 0.40:
        return p
    if rng.random() < opts.get("state_mags", 0.0):
        X = E.var(rng.choice(states))
        form = rng.choice(["pX", "X_over", "p_1mX", "X_plus", "pX_q"])
        if form == "pX":
            return E.mul(p, X)
        if form == "X_over":
            return E.div(X, E.num(rng.randint(2, 4)))
        if form == "p_1mX":
            return E.mul(p, E.sub(E.num(1), E.div(X, E.num(50))))
        if form == "X_plus":
            return E.add(X, E.num(1))
        return E.add(E.mul(p, X), q)
    form = rng.choice(["one_minus", "sum", "diff", "scale", "over", "prod_comp", "pow", "neg", "ratio", "sum3", "num_plus", "frac_scale"])
    if form == "one_minus":
        return E.sub(E.num(1), p)
    if form == "sum":
        return E.add(p, q)
    if form == "diff":
        return E.sub(E.mul(E.num(2), p), q) if q[0] == "var" else E.sub(p, E.num(1, 2))
    if form == "scale":
        return E.mul(E.num(rng.randint(2, 3)), p)
    if form == "over":
        return E.div(p, E.num(2))
    if form == "prod_comp":
        return E.mul(p, E.sub(E.num(1), q))
    if form == "pow":
        return E.pow_(p, 2)
    if form == "neg":
        return E.neg(p)
    if form == "ratio":
        return E.div(p, E.add(E.num(1), q))
    if form == "sum3":
        return E.add(E.add(p, q), E.num(1))
    if form == "num_plus":
        return E.add(E.num(1), p)
    return E.mul(E.num(1, rng.choice([2, 3, 4])), p)


def widen_rate(rng, rate):
    """numeric constants (1e-3, 1/3, 2.5 ...) and `**` powers in a rate"""
    if rate[0] == "mul" and rate[1][0] == "mul" and rate[1][2] == rate[2] and rng.random() < 0.6:
        rate = E.mul(rate[1][1], E.pow_(rate[2], 2))            # a*X*X -> a*X**2
    if rng.random() < 0.3:
        c = E.num(*rng.choice(WIDE_CONSTS))
        rate = E.mul(c, rate) if rng.random() < 0.5 else E.mul(rate, c)
    return rate


def rand_syntax(rng):
    return {"spaces": rng.choice([0, 1, 1, 2]), "num": rng.choice(["frac", "frac", "sci", "dec", "rational"]), "pad": rng.random() < 0.2}


def mag_tags(meta):
    """tags describing the magnitudes of a generated model (input-distribution histogram)"""
    out = set()
    st = set(meta["states"])
    for p in meta["procs"]:
        for tr in p["transitions"]:
            m = tr["mag"]
            if m[0] in ("add", "sub"):
                out.add("mag:top-level-additive")
            elif m[0] == "neg":
                out.add("mag:unary-minus")
            elif m[0] not in ("num", "var"):
                out.add("mag:compound")
            if E.free_vars(m) & st:
                out.add("mag:state-dependent")
    return sorted(out)


def case_hash(obj):
    return hashlib.sha256(json.dumps(obj, sort_keys=True).encode()).hexdigest()[:16]


def wchoice(rng, pairs):
    tot = sum(w for _, w in pairs)
    x = rng.random() * tot
    for v, w in pairs:
        x -= w
        if x <= 0:
            return v
    return pairs[-1][0]


def gen_rate(rng, states, coefs, kinds, origin=None):
    """a rate expression; `coefs` are symbols usable as coefficients (params and derived names)"""
    kind = wchoice(rng, kinds)
    a = E.var(rng.choice(coefs))
    X = E.var(origin if (origin is not None and rng.random() < 0.8) else rng.choice(states))
    Y = E.var(rng.choice(states))
    if kind == "linear":
        return kind, E.mul(a, X)
    if kind == "mass":
        return kind, E.mul(E.mul(a, X), Y)
    b = E.var(rng.choice(coefs))
    if kind == "saturating":
        return kind, E.div(E.mul(E.mul(a, X), Y), E.add(E.num(1), E.mul(b, Y)))
    if kind == "exponential":
        return kind, E.mul(a, E.fn("exp", E.neg(E.mul(b, X))))
    if kind == "periodic":
        return kind, E.mul(E.mul(a, E.add(E.num(1), E.mul(E.num(1, 2), E.fn("cos", E.mul(E.mul(E.num(2), E.PI), E.var("t")))))), X)
    if kind == "const":
        return kind, a
    raise ValueError(kind)


def gen_processes(rng, states, coefs, n_events, kinds, max_trans=3, types=(("T", 6), ("B", 2), ("D", 2)),
                  sym_mag=True, max_mag=3, mag_gen=None):
    procs = []
    for _ in range(n_events):
        ntr = wchoice(rng, [(1, 6), (2, 3), (3, 1)]) if max_trans >= 3 else wchoice(rng, [(1, 6), (2, 3)][:max_trans])
        trs = []
        for _ in range(ntr):
            tt = wchoice(rng, list(types))
            if tt == "T" and len(states) < 2:
                tt = rng.choice(["B", "D"])
            if mag_gen is not None:
                mag = mag_gen(rng)
            elif sym_mag and rng.random() < 0.3:
                mag = E.var(rng.choice(coefs))
            else:
                mag = E.num(rng.randint(1, max_mag))
            if tt == "T":
                o, d = rng.sample(states, 2)
                trs.append({"type": "T", "origin": o, "dest": d, "mag": mag})
            elif tt == "B":
                trs.append({"type": "B", "origin": None, "dest": rng.choice(states), "mag": mag})
            else:
                trs.append({"type": "D", "origin": rng.choice(states), "dest": None, "mag": mag})
        origin = next((t["origin"] for t in trs if t["origin"]), None)
        kind, rate = gen_rate(rng, states, coefs, kinds, origin)
        procs.append({"rate": rate, "kind": kind, "transitions": trs})
    return procs


def expand_decl(names):
    """harness-side expansion of range-style names (only used for meta; Lean and pygom each do their own)"""
    out = []
    for n in names:
        if ":" in n:
            l, r = n.split(":")
            k = len(l)
            while k > 0 and l[k - 1].isdigit():
                k -= 1
            lo = int(l[k:]) if l[k:] else 0
            out += ["%s%d" % (l[:k], i) for i in range(lo, int(r))]
        else:
            out.append(n)
    return out


def gen_decl(rng, names, limits=None, allow_str=True):
    """how a name list is declared: comma/space string or list (with optional limit tuples)"""
    if limits is None and allow_str and rng.random() < 0.4:
        seps = [", ", ",", " ", "  ", " , "]
        s = names[0]
        for n in names[1:]:
            s += rng.choice(seps) + n
        if rng.random() < 0.2:
            s = " " + s + " "
        return {"str": s}
    if limits is None:
        return {"list": list(names)}
    return {"list": [[n, list(l)] if l is not None else n for n, l in zip(names, limits)]}


def transition_json(tr, eq=None, birth_by_origin=False):
    d = {"type": tr["type"], "origin": tr["origin"], "dest": tr["dest"], "mag": tr["mag"], "eq": eq}
    if tr["type"] == "B" and birth_by_origin:
        d["origin"], d["dest"] = tr["dest"], None
    return d


def route_process(rng, proc, routes):
    """choose an API route for a process -> (where, payload) ; where in ctor.event / ctor.transition /
    ctor.birth_death / then"""
    single = len(proc["transitions"]) == 1
    opts = ["event"]
    if single:
        if "event_eq" in routes:
            opts.append("event_eq")
        if "event_bare" in routes:
            opts.append("event_bare")
        if "legacy" in routes:
            opts.append("legacy")
    r = rng.choice([o for o in opts if o in routes or o == "event"])
    bbo = rng.random() < 0.4
    incremental = ("incremental" in routes) and rng.random() < 0.35
    if r == "event":
        ev = {"rate": proc["rate"], "transitions": [transition_json(t, None, bbo) for t in proc["transitions"]]}
        return r, (("then", dict(op="add_event", **ev)) if incremental else ("event", ev))
    tr = proc["transitions"][0]
    if r == "event_eq":
        ev = {"rate": None, "transitions": [transition_json(tr, proc["rate"], bbo)]}
        return r, (("then", dict(op="add_event", **ev)) if incremental else ("event", ev))
    if r == "event_bare":
        ev = {"transition": transition_json(tr, proc["rate"], bbo)}
        return r, (("then", dict(op="add_event", **ev)) if incremental else ("event", ev))
    # legacy
    tj = transition_json(tr, proc["rate"], bbo)
    if tr["type"] == "T":
        return r, (("then", {"op": "add_transition", "t": tj}) if incremental else ("transition", tj))
    return r, (("then", {"op": "add_birth_death", "t": tj}) if incremental else ("birth_death", tj))


ALL_ROUTES = ("event", "event_eq", "event_bare", "legacy", "incremental")


def gen_model(rng, *, min_states=1, max_states=5, max_params=5, min_events=0, max_events=5, kinds=None,
              allow_time=True, sym_mag=True, max_mag=3, allow_ode=True, allow_derived=True, allow_range=True,
              routes=ALL_ROUTES, types=(("T", 6), ("B", 2), ("D", 2)), limits=False, max_trans=3, wide=None):
    """`wide` (opt-in; None leaves the random stream of every existing caller unchanged) widens the INPUT SPACE:
    {"names": bool - trap names (TRAP_*_POOL); "mags": bool - compound magnitudes; "state_mags": probability that a compound
    magnitude depends on a state; "derived_states": probability that a derived parameter contains a state; "consts": bool -
    numeric constants and ** powers in rates; "size": None | "many_states" | "many_params" | "many_events"; "syntax": bool -
    the strings handed to pygom are written as a user would (exprs.user_str) instead of fully parenthesised}"""
    kinds = list(kinds or RATE_KINDS)
    if not allow_time:
        kinds = [k for k in kinds if k[0] != "periodic"]
    nS = rng.randint(min_states, max_states)
    nP = rng.randint(1, max_params)
    wide = wide or {}
    size = wide.get("size")
    if size == "many_states":
        nS, nP = rng.randint(8, wide.get("size_max", 12)), rng.randint(1, 3)
    elif size == "many_params":
        nS, nP = rng.randint(max(min_states, 1), 3), rng.randint(8, wide.get("size_max", 12))
    # state declaration, possibly with one range-style entry
    decl_states = []
    if allow_range and nS >= 2 and rng.random() < 0.2:
        k = rng.randint(2, min(3, nS))
        lo = rng.choice([0, 1])
        decl_states.append(("y%d:%d" % (lo, lo + k)) if lo else "y:%d" % k)
        rest = nS - k
    else:
        rest = nS
    # a range-style declaration `y:3` occupies the base name `y` as well (pygom keeps the vector under it): not drawn again
    base_taken = {"y"} if decl_states else set()
    if wide.get("names"):
        decl_states += draw_names(rng, TRAP_STATE_POOL, TRAP_FAMILIES_STATE, rest, set(expand_decl(decl_states)) | base_taken)
    else:
        decl_states += rng.sample(STATE_POOL, rest)
    rng.shuffle(decl_states)
    states = expand_decl(decl_states)
    if wide.get("names"):
        params = draw_names(rng, TRAP_PARAM_POOL, TRAP_FAMILIES_PARAM, nP, set(states) | base_taken)
        derived_pool = [n for n in TRAP_DERIVED_POOL if n not in states and n not in params and n not in base_taken]
    else:
        params = rng.sample(PARAM_POOL, nP)
        derived_pool = DERIVED_POOL
    for n in states + params:
        # a name that is also a function / constant of the expression language: the model does not use that function
        kinds = [k for k in kinds if k[0] not in FUNCTION_NAMES.get(n, ())] if wide.get("names") else kinds
    derived = []
    coefs = list(params)
    if allow_derived and rng.random() < 0.3:
        nd = 1 if rng.random() < 0.7 else 2
        for name in rng.sample(derived_pool, nd):
            base = E.var(rng.choice(params))
            form = rng.choice(["scale", "ratio", "sum", "chain"])
            if wide.get("derived_states") and rng.random() < wide["derived_states"]:
                # a derived parameter that contains a state (a force of infection, a density-dependent rate)
                X = E.var(rng.choice(states))
                e = E.mul(base, X) if rng.random() < 0.5 else E.div(E.mul(base, X), E.add(E.num(1), E.var(rng.choice(states))))
            elif form == "chain" and derived:
                e = E.mul(E.var(derived[-1][0]), E.add(E.num(1), base))
            elif form == "ratio" and len(params) >= 2:
                e = E.div(base, E.add(E.num(1), E.var(rng.choice(params))))
            elif form == "sum":
                e = E.add(base, E.num(rng.randint(1, 3), rng.randint(1, 3)))
            else:
                e = E.mul(E.num(rng.randint(1, 5), rng.randint(1, 4)), base)
            derived.append([name, e])
            coefs.append(name)
    nE = rng.randint(min_events, max_events)
    if size == "many_events":
        nE = rng.randint(8, wide.get("size_max", 12))
    mag_gen = (lambda r_: gen_mag_wide(r_, states, coefs, wide)) if wide.get("mags") else None
    procs = gen_processes(rng, states, coefs, nE, kinds, max_trans=max_trans, types=types, sym_mag=sym_mag, max_mag=max_mag, mag_gen=mag_gen)
    if wide.get("consts"):
        for p_ in procs:
            p_["rate"] = widen_rate(rng, p_["rate"])
    odes = []
    if allow_ode and rng.random() < 0.3:
        for _ in range(rng.randint(1, 3)):
            st = rng.choice(states)
            _, r = gen_rate(rng, states, coefs, [k for k in kinds if k[0] in ("linear", "mass", "saturating")] or kinds)
            if rng.random() < 0.5:
                r = E.neg(r)
            odes.append({"state": st, "expr": r})
    lims = None
    if limits:
        lims = []
        for _ in decl_states:
            lims.append(rng.choice([None, (0, None), (None, None), (0, rng.randint(20, 60)), (None, rng.randint(30, 80)), (1, None)]))
    abstract = {"decl_states": decl_states, "states": states, "params": params, "derived": derived, "procs": procs,
                "odes": odes, "lims": lims}
    if wide.get("syntax"):
        abstract["syntax"] = rand_syntax(rng)
    return make_spec(rng, abstract, routes)


def process_as_ode_terms(proc):
    """the same process written as explicit ODE terms: -m*r at the origin, +m*r at the destination"""
    out = []
    for tr in proc["transitions"]:
        term = E.mul(tr["mag"], proc["rate"])
        if tr["type"] in ("T", "D"):
            out.append({"state": tr["origin"], "expr": E.neg(term)})
        if tr["type"] in ("T", "B"):
            out.append({"state": tr["dest"], "expr": term})
    return out


def make_spec(rng, abstract, routes=ALL_ROUTES, shuffle=False, as_ode_prob=0.0, member_eq_prob=0.0):
    """turn an abstract model (process set) into an API-level spec by choosing a route per process"""
    decl_states, params, derived = abstract["decl_states"], abstract["params"], abstract["derived"]
    procs, odes, lims = list(abstract["procs"]), list(abstract["odes"]), abstract["lims"]
    spec = {
        "state": gen_decl(rng, decl_states, lims),
        "param": gen_decl(rng, params),
        "derived": derived,
        "ctor": {"event": [], "transition": [], "birth_death": [], "ode": []},
        "then": [],
    }
    if abstract.get("syntax"):
        spec["syntax"] = dict(abstract["syntax"])
    if shuffle:
        rng.shuffle(procs)
        rng.shuffle(odes)
    route_names = []
    extra_odes = []
    for p in procs:
        if as_ode_prob and rng.random() < as_ode_prob:
            route_names.append("as_ode")
            extra_odes += process_as_ode_terms(p)
            continue
        if member_eq_prob and len(p["transitions"]) > 1 and rng.random() < member_eq_prob:
            # documented input form 4 of Event: several transitions, exactly one carries the equation, no rate
            k = rng.randrange(len(p["transitions"]))
            ev = {"rate": None, "transitions": [transition_json(t, p["rate"] if i == k else None) for i, t in enumerate(p["transitions"])]}
            route_names.append("event_member_eq")
            if "incremental" in routes and rng.random() < 0.35:
                spec["then"].append(dict(op="add_event", **ev))
            else:
                spec["ctor"]["event"].append(ev)
            continue
        r, (where, payload) = route_process(rng, p, routes)
        route_names.append(r)
        if where == "then":
            spec["then"].append(payload)
        else:
            spec["ctor"][where].append(payload)
    for o in odes + extra_odes:
        tj = {"type": "ODE", "origin": o["state"], "dest": None, "mag": E.num(1), "eq": o["expr"]}
        if "incremental" in routes and rng.random() < 0.3:
            spec["then"].append({"op": "add_ode", "t": tj})
        else:
            spec["ctor"]["ode"].append(tj)
    meta = {"states": abstract["states"], "params": params, "derived": [d[0] for d in derived], "procs": procs, "odes": odes,
            "routes": route_names, "kinds": [p["kind"] for p in procs], "abstract": abstract}
    return spec, meta


def rand_point_extreme(rng, meta, t_max=3, p_lo=-9, p_hi=8, s_lo=-3, s_hi=6):
    """very small and very large values: parameters m*10^k with k in [p_lo, p_hi], states m*10^k with k in [s_lo, s_hi]
    (m = 1..9), exact rationals; comparisons at such a point must be relative per entry (see common.scaled_close)"""
    env = {}
    for s in meta["states"]:
        env[s] = Fraction(rng.randint(1, 9)) * Fraction(10) ** rng.randint(s_lo, s_hi)
    for p in meta["params"]:
        env[p] = Fraction(rng.randint(1, 9)) * Fraction(10) ** rng.randint(p_lo, p_hi)
    env["t"] = Fraction(rng.randint(0, 12 * t_max), 12)
    return env


def rand_point(rng, meta, t_max=3, integer=False, zeros=False, big=False):
    """`integer=True`: integer state values and an integer time (so that the point can be handed to the
    evaluators as Python ints / integer-dtype arrays), `zeros=True` additionally makes a quarter of the states
    exactly 0 (zero rates), `big=True` draws populations of 1e4..1e6; the default stream of random choices is unchanged"""
    env = {}
    if integer:
        for s in meta["states"]:
            env[s] = Fraction(0 if (zeros and rng.random() < 0.25) else (rng.randint(10 ** 4, 10 ** 6) if big else rng.randint(1, 40)))
        for p in meta["params"]:
            env[p] = Fraction(rng.randint(1, 20), rng.choice([7, 10, 13]))
        env["t"] = Fraction(rng.randint(0, t_max))
        return env
    for s in meta["states"]:
        env[s] = Fraction(rng.randint(1, 40), rng.choice([1, 2, 3]))
    for p in meta["params"]:
        env[p] = Fraction(rng.randint(1, 20), rng.choice([7, 10, 13]))
    env["t"] = Fraction(rng.randint(0, 12 * t_max), 12)
    return env


def derived_env(meta_or_spec_derived, env):
    """extend env with the derived parameters' values (harness interpreter, sequentially)"""
    env = dict(env)
    for name, e in meta_or_spec_derived:
        env[name] = E.ev(e, env)
    return env


def decl_entries(d):
    """declared entries of a state / parameter declaration (string or list form), limits kept"""
    if "str" in d:
        import re
        return [x for x in re.split(r"[,\s]+", d["str"]) if x.strip()]
    return list(d["list"])


def sibling_spec(spec, meta, state_rev=True, param_perm=None, derived_bump=True, last_event_incremental=False):
    """A second definition under the SAME names: state declaration reversed, parameter declaration permuted
    (`param_perm` = positions of the old list in the new order), the first derived parameter redefined (+1), the last
    constructor event entered by add_event instead (event order is unchanged).  Returns (spec2, meta2, changed)."""
    s2, m2 = copy.deepcopy(spec), copy.deepcopy(meta)
    changed = []
    if derived_bump and s2.get("derived"):
        s2["derived"][0][1] = E.add(s2["derived"][0][1], E.num(1))
        changed.append("derived")
    ent = decl_entries(s2["state"])
    if state_rev and len(ent) >= 2:
        ent = list(reversed(ent))
        s2["state"] = {"list": ent}
        m2["states"] = expand_decl([x if isinstance(x, str) else x[0] for x in ent])
        changed.append("state_order")
    pent = decl_entries(s2["param"])
    if param_perm is not None and len(pent) >= 2 and list(param_perm) != list(range(len(pent))):
        pent = [pent[i] for i in param_perm]
        s2["param"] = {"list": pent}
        m2["params"] = [x if isinstance(x, str) else x[0] for x in pent]
        changed.append("param_order")
    if last_event_incremental and s2["ctor"]["event"] and not any(o["op"] == "add_event" for o in s2.get("then", [])) \
            and not s2["ctor"]["transition"] and not s2["ctor"]["birth_death"]:
        ev = s2["ctor"]["event"].pop()
        s2["then"] = [dict(op="add_event", **ev)] + list(s2.get("then", []))
        changed.append("incremental")
    return s2, m2, changed
