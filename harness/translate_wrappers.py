"""
(T) translator for C19: regenerates  lean/Pygom/Gen/Wrappers.lean  from the AST of
$VERIF_REPO/src/pygom/utilR/distn.py  with the symbolic executor of translate_kernels.py (wrapper mode).

* `Gen.wrappers : List Wrapper` - one row per d/p/q function and call configuration
  (`log` False/True when the function has a `log` argument; `lower_tail` True/False when it has one; for the
  negative-binomial functions the four ways of giving `prob` / `mu`): which `scipy.stats` family and method is
  called with which positional / keyword argument expressions (as Pygom `Expr` data, e.g. `scale = 1/rate`).
  A function that returns None (a stub) or raises is recorded as such a row (method "none" / "raise").
  A call of a closed-form helper of distn.py (`nb2pmf`) is recorded as family "distn.nb2pmf".
* `Gen.seedTable : List SeedRow` - one row per r function, abstract seed (None, False, 0, non-zero int, True,
  a RandomState) and n (1 / >1): which generator serves the draw (global `np.random.*`, `RandomState(seed)`,
  a fresh unseeded `RandomState()`, the object given, `st.<family>.rvs` = scipy's global generator), with which
  method and arguments.

Functions named [dpqr]<family> for a family outside the property's list (mvnorm) go to `Gen.otherFunctions`.
Anything the executor cannot follow => refusal, reported as a BROKEN TIE; the file is rewritten only if it changes.
"""
import ast
import os
import re
from fractions import Fraction

from . import translate_kernels as TK
from .translate_kernels import C, R, CallRec, Count, Interp, Raised, Refuse, Rng, Seed

FAMILIES = ["exp", "gamma", "norm", "chisq", "unif", "beta", "pois", "binom", "nbinom"]
SEED_KINDS = ["none", "false", "int0", "int", "true", "rstate"]
LEAN_SEED = {"none": ".none", "false": ".false_", "int0": ".int0", "int": ".int", "true": ".true_", "rstate": ".rstate"}
LEAN_SOURCE = {"global": ".global", "fresh": ".fresh", "seeded": ".seeded", "given": ".given", "copy_of_global": ".copyOfGlobal",
               "scipy_global": ".scipyGlobal", "none": ".stub", "raise": ".raises"}


def ir_to_expr(ir):
    """IR -> Lean `Pygom.Expr` term (integer constants only, so that `decide` can compare them)"""
    t = ir[0]
    if t == "num":
        f = Fraction(ir[1])
        if f.denominator == 1:
            return "(.num %d)" % f.numerator if f >= 0 else "(.neg (.num %d))" % -f.numerator
        return "(.div (.num %d) (.num %d))" % (f.numerator, f.denominator) if f > 0 else "(.neg (.div (.num %d) (.num %d)))" % (-f.numerator, f.denominator)
    if t == "pi":
        return ".pi"
    if t == "var":
        return '(.var "%s")' % ir[1]
    if t in ("add", "sub", "mul", "div"):
        return "(.%s %s %s)" % (t, ir_to_expr(ir[1]), ir_to_expr(ir[2]))
    if t in ("neg", "exp", "log"):
        return "(.%s %s)" % (t, ir_to_expr(ir[1]))
    if t == "pow" and int(ir[2]) >= 0:
        return "(.pow %s %d)" % (ir_to_expr(ir[1]), int(ir[2]))
    raise Refuse("argument expression outside Pygom.Expr: %r" % (ir,))


def _val_ir(v, what):
    if isinstance(v, R):
        return v.ir
    if isinstance(v, Count):
        return ["var", "n"]
    raise Refuse("%s: argument %r is not a real expression" % (what, v))


def _positional_to_kw(fn, args, kwargs):
    names = [a.arg for a in fn.args.args]
    out = dict(kwargs)
    for n, v in zip(names, args):
        out[n] = v
    return out


def translate(repo):
    mods = TK.parse_sources(repo)
    mods = {"distn": mods["distn"]}
    rows, seeds, refused, other = [], [], [], []
    probe = Interp(mods, mode="wrapper", record_local=TK.FORMULA_HELPERS)
    for name, fn in probe.funcs["distn"].items():
        m = re.match(r"^([dpqr])([a-z0-9]+)$", name)
        if not m:
            continue
        kind, fam = m.group(1), m.group(2)
        if fam not in FAMILIES:
            other.append(name)
            continue
        params = [a.arg for a in fn.args.args]
        variants = ["prob", "mu", "neither", "both"] if ("prob" in params and "mu" in params) else [""]
        lowers = [True, False] if "lower_tail" in params else [True]
        if kind in "dpq":
            logs = [False, True] if "log" in params else [False]
            for lg in logs:
                for var in variants:
                    for low in lowers:
                        what = "distn.%s(log=%s%s%s)" % (name, lg, ", %s given" % var if var else "", "" if low else ", lower_tail=False")
                        try:
                            rows.append(_one_dpq(mods, fn, name, params, lg, var, low, what))
                        except Refuse as e:
                            refused.append({"what": what, "detail": str(e)})
        else:
            if "seed" not in params:
                refused.append({"what": "distn.%s" % name, "detail": "generator without a `seed` argument"})
                continue
            for sk in SEED_KINDS:
                for many in (False, True):
                    for var in variants:
                        if var in ("neither", "both"):
                            continue
                        what = "distn.%s(seed=%s, n%s%s)" % (name, sk, ">1" if many else "=1", ", %s given" % var if var else "")
                        try:
                            seeds.append(_one_r(mods, fn, name, params, sk, many, var, what))
                        except Refuse as e:
                            refused.append({"what": what, "detail": str(e)})
    return {"rows": rows, "seeds": seeds, "refused": refused, "other": sorted(other)}


def _bind(params, kind, lg, var, low, sk=None, many=None):
    kw = {}
    for p in params:
        if p == "log":
            kw[p] = C(lg)
        elif p == "lower_tail":
            kw[p] = C(low)
        elif p == "seed" and kind == "r":
            kw[p] = Seed(sk)
        elif p == "n" and kind == "r":
            kw[p] = Count("many" if many else "one")
        elif p in ("prob", "mu") and var:
            given = (var == "both") or (var == p)
            kw[p] = R(["var", p]) if given else C(None)
        else:
            kw[p] = R(["var", p])
    return kw


def _one_dpq(mods, fn, name, params, lg, var, low, what):
    it = Interp(mods, mode="wrapper", record_local=TK.FORMULA_HELPERS)
    r = it.call_def(fn, [], _bind(params, name[0], lg, var, low), "distn")
    row = {"name": name, "log": lg, "variant": var, "lower": low, "formals": params, "family": "", "method": "", "args": [], "kwargs": []}
    if isinstance(r, Raised):
        row["method"] = "raise"; row["detail"] = r.what
    elif isinstance(r, C) and r.v is None:
        row["method"] = "none"
    elif isinstance(r, CallRec) and r.target[0] == "st" and not r.scalar:
        row["family"], row["method"] = r.target[1], r.target[2]
        row["args"] = [_val_ir(v, what) for v in r.args]
        row["kwargs"] = [[k, _val_ir(v, what)] for k, v in r.kwargs.items()]
    elif isinstance(r, CallRec) and r.target[0] == "distn" and not r.scalar:
        helper = it.funcs["distn"][r.target[1]]
        kw = _positional_to_kw(helper, r.args, r.kwargs)
        lgv = kw.pop("log", None)
        if lgv is None:
            d = dict(zip([a.arg for a in helper.args.args][len(helper.args.args) - len(helper.args.defaults):], helper.args.defaults))
            lgv = C(d["log"].value) if "log" in d and isinstance(d["log"], ast.Constant) else None
        if not (isinstance(lgv, C) and isinstance(lgv.v, bool)):
            raise Refuse("%s: `log` argument of %s is not a constant" % (what, r.target[1]))
        row["family"] = "distn." + r.target[1]
        row["method"] = "logpmf" if lgv.v else "pmf"
        row["kwargs"] = [[k, _val_ir(v, what)] for k, v in kw.items()]
    else:
        raise Refuse("%s: returns %r, which is not a call of scipy.stats / a closed-form helper, None or an error" % (what, r))
    for e in row["args"] + [kv[1] for kv in row["kwargs"]]:
        ir_to_expr(e)
    return row


def _one_r(mods, fn, name, params, sk, many, var, what):
    it = Interp(mods, mode="wrapper", record_local=TK.FORMULA_HELPERS)
    r = it.call_def(fn, [], _bind(params, "r", False, var, True, sk, many), "distn")
    row = {"name": name, "variant": var, "seed": sk, "many": many, "formals": params, "source": "", "method": "", "args": [], "kwargs": [],
           "scalar": False, "effects": list(it.effects)}
    if isinstance(r, Raised):
        row["source"] = "raise"; row["detail"] = r.what
    elif isinstance(r, C) and r.v is None:
        row["source"] = "none"
    elif isinstance(r, CallRec) and r.target[0] == "rng":
        row["source"], row["method"] = r.target[1], r.target[2]
    elif isinstance(r, CallRec) and r.target[0] == "st" and r.target[2] == "rvs":
        rs = r.kwargs.get("random_state")
        if rs is None or (isinstance(rs, C) and rs.v is None) or (isinstance(rs, Seed) and rs.kind == "none"):
            row["source"] = "scipy_global"
        elif isinstance(rs, Rng):
            row["source"] = rs.source
        elif isinstance(rs, Seed) and rs.kind in ("int", "int0"):
            row["source"] = "seeded"
        elif isinstance(rs, Seed) and rs.kind == "rstate":
            row["source"] = "given"
        else:
            raise Refuse("%s: random_state=%r" % (what, rs))
        row["method"] = "%s.rvs" % r.target[1]
    else:
        raise Refuse("%s: returns %r, which is not a draw from a generator, None or an error" % (what, r))
    if isinstance(r, CallRec):
        if "np.random.seed" in it.effects and row["source"] == "global":
            row["source"] = "seeded" if sk in ("int", "int0") else row["source"]      # np.random.seed(seed) then global draw
        row["scalar"] = r.scalar
        row["args"] = [_val_ir(v, what) for v in r.args]
        row["kwargs"] = [[k, _val_ir(v, what)] for k, v in r.kwargs.items() if k != "random_state"]
        for e in row["args"] + [kv[1] for kv in row["kwargs"]]:
            ir_to_expr(e)
    return row


HEADER = """/-
GENERATED by harness/translate_wrappers.py from src/pygom/utilR/distn.py of the tree under test - do not edit.
Regenerated (rewritten only when the content changes) on every run of ./check C19; `Pygom/Props/C19.lean`
re-checks `all_wrappers_correct` etc. against this table by `decide`.
-/
import Pygom.Expr
import Pygom.DistnSpec

namespace Pygom
namespace Gen
open Pygom.Distn

"""


def _lstr(xs):
    return "[" + ", ".join('"%s"' % x for x in xs) + "]"


def _b(x):
    return "true" if x else "false"


def render(res):
    out = [HEADER]
    out.append("/-- name, log, variant (which of prob/mu is given), lower_tail, formals, scipy family, method, positional args, keyword args -/\n")
    out.append("def wrappers : List Wrapper := [\n")
    lines = []
    for r in res["rows"]:
        lines.append('  ⟨"%s", %s, "%s", %s, %s, "%s", "%s", [%s], [%s]⟩' % (
            r["name"], _b(r["log"]), r["variant"], _b(r["lower"]), _lstr(r["formals"]), r["family"], r["method"],
            ", ".join(ir_to_expr(a) for a in r["args"]), ", ".join('("%s", %s)' % (k, ir_to_expr(v)) for k, v in r["kwargs"])))
    out.append(",\n".join(lines) + "]\n\n")
    out.append("/-- name, variant, seed kind, n > 1, generator that serves the draw, method, positional args, keyword args, `[0]` taken -/\n")
    out.append("def seedTable : List SeedRow := [\n")
    lines = []
    for r in res["seeds"]:
        lines.append('  ⟨"%s", "%s", %s, %s, %s, "%s", [%s], [%s], %s⟩' % (
            r["name"], r["variant"], LEAN_SEED[r["seed"]], _b(r["many"]), LEAN_SOURCE[r["source"]], r["method"],
            ", ".join(ir_to_expr(a) for a in r["args"]), ", ".join('("%s", %s)' % (k, ir_to_expr(v)) for k, v in r["kwargs"]), _b(r["scalar"])))
    out.append(",\n".join(lines) + "]\n\n")
    out.append("/-- d/p/q/r-named functions of families outside the property's list (not checked) -/\n")
    out.append("def otherFunctions : List String := %s\n\n" % _lstr(res["other"]))
    out.append("end Gen\nend Pygom\n")
    return "".join(out)


def regenerate(repo):
    res = translate(repo)
    path = os.path.join(TK.GEN_DIR, "Wrappers.lean")
    res["changed"] = TK.write_if_changed(path, render(res))
    res["path"] = path
    return res


if __name__ == "__main__":
    import json, sys
    r = regenerate(sys.argv[1] if len(sys.argv) > 1 else os.environ.get("VERIF_REPO", "/repo"))
    print(json.dumps({"rows": len(r["rows"]), "seeds": len(r["seeds"]), "refused": r["refused"], "other": r["other"], "changed": r["changed"]}, indent=1))
