"""
Generic check runner:  obligations (lake build + axiom audit)  ->  correspondence + direct oracle
->  failing-input search when something broke  ->  known-findings filter  ->  evidence, exit code.

A property module (harness/props/cXX.py) provides
    PROP      : "C01"
    LEAN      : {"module": "Pygom.Props.C01", "extra_modules": [...]}   (proof obligations)
    BUDGET    : {"quick": {...}, "thorough": {...}}
    RULE      : str  (how cases are generated / what makes one non-trivial)
    ASSUMPTIONS, TRUSTED : lists of str
    make_cases(rng, tier, budget) -> list of JSON-able cases      (corpus cases are prepended)
    run_case(case) -> dict(nontrivial=bool, mismatches=[...], violations=[...], tags=[...], sample=obj?)
        mismatches : model-vs-implementation disagreements   [{"what":..., "detail":...}]
        violations : property failing on the real code by the direct oracle
                     [{"what":..., "signature":..., "detail":...}]
    optional  search_cases(rng, tier, budget) -> extra cases for the failing-input search
    optional  pre(ctx) -> dict with extra obligations (e.g. translator regenerated files)
"""
import hashlib
import importlib
import json
import multiprocessing as mp
import os
import random
import sys
import time
import traceback

from . import bootstrap, leanio

VERIF = bootstrap.VERIF
NPROC = int(os.environ.get("VERIF_NPROC", "16"))


def _hash(obj):
    return hashlib.sha256(json.dumps(obj, sort_keys=True, default=str).encode()).hexdigest()[:16]


class CaseTimeout(BaseException):
    """raised by SIGALRM; BaseException so that `except Exception` in property code cannot swallow it"""


import contextlib


# set by the SIGALRM handler every time it raises: an exception raised inside a C callback (a scipy integrator calling
# back into Python, a tp_clear) can be swallowed by the interpreter ("Exception ignored in ..."), the interrupted
# computation then carries on with a corrupted intermediate result.  Whoever armed the timer looks at this flag when
# the timed region ends normally and treats the region as timed out - its result is never judged.
_ALARM = {"fired": False}


@contextlib.contextmanager
def time_limit(sec):
    """inner time limit inside a worker (re-arms the worker's own alarm afterwards); raises CaseTimeout"""
    import signal
    old, _ = signal.setitimer(signal.ITIMER_REAL, 0)
    t0 = time.time()
    outer_fired = _ALARM["fired"]
    _ALARM["fired"] = False
    # repeating timer: an alarm delivered inside a context that swallows exceptions (weakref finalizers,
    # __del__) would otherwise be lost and the limit with it
    signal.setitimer(signal.ITIMER_REAL, float(sec), 0.5)
    ok = False
    try:
        yield
        ok = True
    finally:
        signal.setitimer(signal.ITIMER_REAL, 0)
        fired = _ALARM["fired"]
        _ALARM["fired"] = outer_fired
        if old:
            signal.setitimer(signal.ITIMER_REAL, max(0.5, old - (time.time() - t0)), 0.5)
        if ok and fired:
            # the alarm went off inside the region but its exception was swallowed: the region's result is not to be used
            raise CaseTimeout()


def _alarm(signum, frame):
    import signal
    f = frame
    while f is not None:
        # exceptions raised inside weakref finalizers / __del__ are swallowed by the interpreter:
        # let the repeating timer try again half a second later
        if f.f_code.co_filename.endswith("weakref.py") or f.f_code.co_name == "__del__":
            return
        f = f.f_back
    signal.setitimer(signal.ITIMER_REAL, 0)
    _ALARM["fired"] = True
    raise CaseTimeout()


def _worker(args):
    import signal
    modname, case = args
    try:
        bootstrap.init()
        mod = importlib.import_module(modname)
        t0 = time.time()
        limit = int(getattr(mod, "CASE_TIMEOUT", 120))
        signal.signal(signal.SIGALRM, _alarm)
        signal.setitimer(signal.ITIMER_REAL, float(limit), 0.5)
        _ALARM["fired"] = False
        try:
            r = mod.run_case(case)
            if _ALARM["fired"]:
                # the per-case alarm went off but its exception was swallowed inside a C callback: not a verdict
                raise CaseTimeout()
        except CaseTimeout:
            # a slow case is not a verdict; it is counted and reported (see "case_timeout" in the evidence)
            return {"nontrivial": False, "tags": ["case_timeout"], "violations": [], "mismatches": [], "wall": time.time() - t0,
                    "timeout": True}
        finally:
            signal.setitimer(signal.ITIMER_REAL, 0)
        r.setdefault("mismatches", []); r.setdefault("violations", []); r.setdefault("tags", [])
        r.setdefault("nontrivial", True)
        r["wall"] = time.time() - t0
        return r
    except Exception as exc:  # harness failure is a broken correspondence, never silently dropped
        return {"nontrivial": False, "tags": ["harness_error"], "violations": [],
                "mismatches": [{"what": "harness_error", "detail": "%s: %s\n%s" % (type(exc).__name__, exc, traceback.format_exc()[-3000:])}]}


def run_cases(modname, cases, nproc=None):
    nproc = nproc or NPROC
    if not cases:
        return []
    if nproc <= 1 or len(cases) == 1:
        return [_worker((modname, c)) for c in cases]
    # ProcessPoolExecutor rather than Pool.map: when a worker process dies (killed by the OOM killer, a segfault in a
    # compiled extension) Pool.map waits for ever, the executor raises BrokenProcessPool.  Cases that were not
    # finished are run again in a fresh pool (twice at most); a case that still has no result is counted like a
    # time-out (reported, never judged).
    from concurrent.futures import ProcessPoolExecutor
    from concurrent.futures.process import BrokenProcessPool
    ctx = mp.get_context("fork")
    results = [None] * len(cases)
    todo = list(range(len(cases)))
    for attempt in range(3):
        if not todo:
            break
        try:
            with ProcessPoolExecutor(max_workers=min(nproc, len(todo)), mp_context=ctx) as ex:
                futs = {i: ex.submit(_worker, (modname, cases[i])) for i in todo}
                for i, f in futs.items():
                    try:
                        results[i] = f.result()
                    except BrokenProcessPool:
                        pass
                    except Exception as exc:      # pickling problems and the like: a harness failure, reported
                        results[i] = {"nontrivial": False, "tags": ["harness_error"], "violations": [],
                                      "mismatches": [{"what": "harness_error", "detail": "%s: %s" % (type(exc).__name__, exc)}]}
        except BrokenProcessPool:
            pass
        todo = [i for i in todo if results[i] is None]
    for i in todo:
        results[i] = {"nontrivial": False, "tags": ["case_timeout", "worker_died"], "violations": [], "mismatches": [], "timeout": True}
    return results


def load_known():
    p = os.path.join(VERIF, "known_findings.json")
    if not os.path.exists(p):
        return {"findings": [], "fixed": []}
    return json.load(open(p))


def load_corpus(prop):
    d = os.path.join(VERIF, "corpus", prop)
    out = []
    if os.path.isdir(d):
        for f in sorted(os.listdir(d)):
            if f.endswith(".json"):
                out.append(json.load(open(os.path.join(d, f))))
    return out


def obligations(mod, tier):
    """build the property's Lean module, audit it. returns dict"""
    lean = getattr(mod, "LEAN", None)
    res = {"obligations": 0, "discharged": 0, "theorems": {}, "broken": [], "build_s": 0.0, "checker_cmd": ""}
    if not lean:
        return res
    module = lean["module"]
    targets = [module] + list(lean.get("extra_modules", []))
    ok, out, secs = leanio.lake_build(targets + ["pygom_driver"])
    res["build_s"] = round(secs, 1)
    res["checker_cmd"] = "cd lean && lake build %s && lake env lean <#print axioms of every theorem of %s>" % (" ".join(targets), module)
    files = [os.path.join(leanio.LEAN, *m.split(".")) + ".lean" for m in targets]
    names = []
    for f in files:
        if os.path.exists(f):
            names += leanio.theorem_names(f)
    for extra in lean.get("theorems", []):
        if extra not in names:
            names.append(extra)
    res["obligations"] = len(names) + 2   # + build + forbidden-token grep
    if not ok:
        errs = [l for l in out.splitlines() if "error" in l][:20]
        res["broken"].append({"obligation": "lake build " + " ".join(targets), "detail": "\n".join(errs) or out[-2000:]})
        # which theorems broke? every theorem of the module is undischarged; name those the log mentions
        return res
    res["discharged"] += 1
    hits = leanio.grep_forbidden(leanio.all_lean_files())
    if hits:
        res["broken"].append({"obligation": "no sorry/admit/axiom/native_decide", "detail": "; ".join(hits)})
    else:
        res["discharged"] += 1
    ax, raw = leanio.print_axioms(module if len(targets) == 1 else module, names) if len(targets) == 1 else _axioms_multi(targets, names)
    for n in names:
        a = ax.get(n)
        res["theorems"][n] = a
        if a is None:
            res["broken"].append({"obligation": n, "detail": "theorem not found by #print axioms"})
        elif not set(a) <= leanio.ALLOWED_AXIOMS:
            res["broken"].append({"obligation": n, "detail": "axioms %s" % a})
        else:
            res["discharged"] += 1
    required = lean.get("required", [])
    for r in required:
        if r not in names:
            res["obligations"] += 1
            res["broken"].append({"obligation": r, "detail": "required property theorem is missing from the module"})
    if tier == "thorough" and lean.get("leanchecker", True) and not res["broken"]:
        import subprocess
        res["obligations"] += 1
        lk = leanio._lock()
        try:
            r = subprocess.run(["lake", "env", "leanchecker", module], cwd=leanio.LEAN, capture_output=True, text=True, timeout=3000)
        finally:
            lk.close()
        if r.returncode == 0:
            res["discharged"] += 1
            res["leanchecker"] = "ok"
        else:
            res["broken"].append({"obligation": "leanchecker " + module, "detail": (r.stdout + r.stderr)[-1500:]})
    return res


def _axioms_multi(targets, names):
    # import all target modules in one audit file
    import subprocess, re
    src = "".join("import %s\n" % t for t in targets) + "".join("#print axioms %s\n" % n for n in names)
    path = os.path.join(leanio.LEAN, ".lake", "audit_multi_%d.lean" % os.getpid())
    open(path, "w").write(src)
    try:
        r = subprocess.run(["lake", "env", "lean", path], cwd=leanio.LEAN, capture_output=True, text=True, timeout=1200)
    finally:
        os.unlink(path)
    out = r.stdout + r.stderr
    res = {}
    for n in names:
        m = re.search(r"'%s' depends on axioms: \[(.*?)\]" % re.escape(n), out, re.S)
        if m:
            res[n] = [a.strip() for a in m.group(1).replace("\n", " ").split(",") if a.strip()]
        elif re.search(r"'%s' does not depend on any axioms" % re.escape(n), out):
            res[n] = []
        else:
            res[n] = None
    return res, out


def write_replay(prop, seed, payload):
    d = os.path.join(VERIF, "replays", prop)
    os.makedirs(d, exist_ok=True)
    path = os.path.join(d, "%s-%s.json" % (seed, _hash(payload)))
    with open(path, "w") as f:
        json.dump(payload, f, indent=1, default=str)
    return path


def match_known(prop, violation, known):
    sig = violation.get("signature", "")
    for k in known.get("findings", []):
        if k["property"] == prop and (k["signature"] == sig or (k.get("signature_prefix") and sig.startswith(k["signature_prefix"]))):
            return k
    return None


def main(prop, tier="quick", seed=0, replay=None):
    t_start = time.time()
    modname = "harness.props.%s" % prop.lower()
    mod = importlib.import_module(modname)
    budget = mod.BUDGET[tier]
    rng = random.Random((seed * 1000003) ^ int(hashlib.sha256(prop.encode()).hexdigest()[:8], 16))
    lines = []
    known = load_known()

    pre = {}
    if hasattr(mod, "pre"):
        pre = mod.pre(tier) or {}

    ob = obligations(mod, tier)
    for b in pre.get("broken", []):
        ob["broken"].append(b)
    ob["obligations"] += pre.get("obligations", 0)
    ob["discharged"] += pre.get("discharged", 0)

    driver_ok = True
    try:
        leanio.ensure_driver()
    except leanio.LeanError as e:
        driver_ok = False
        ob["broken"].append({"obligation": "driver build", "detail": str(e)[-1500:]})
    os.environ["VERIF_DRIVER_OK"] = "1" if driver_ok else "0"

    if replay:
        payload = json.load(open(replay))
        cases = [payload["case"]] if "case" in payload else []
    else:
        cases = load_corpus(prop) + mod.make_cases(rng, tier, budget)
    bootstrap.init()
    results = run_cases(modname, cases)

    mismatches, violations = [], []
    hashes = set()
    tags = {}
    samples = []
    for c, r in zip(cases, results):
        for m in r["mismatches"]:
            mismatches.append({"case": c, **m})
        for v in r["violations"]:
            violations.append({"case": c, **v})
        for tg in r["tags"]:
            tags[tg] = tags.get(tg, 0) + 1
        if r.get("nontrivial"):
            hashes.add(_hash(c))
        if len(samples) < 3 and r.get("nontrivial"):
            samples.append(r.get("sample", c))
    if not samples and cases:
        samples = [cases[0]]

    sigs = {}
    for v in violations:
        sigs[v.get("signature", "?")] = sigs.get(v.get("signature", "?"), 0) + 1
    mkinds = {}
    for m in mismatches:
        mkinds[m["what"]] = mkinds.get(m["what"], 0) + 1
    n_timeouts = sum(1 for r in results if r.get("timeout"))
    if cases and n_timeouts * 5 > len(cases):
        mismatches.append({"case": None, "what": "too-many-timeouts", "detail": "%d of %d cases exceeded the per-case time limit" % (n_timeouts, len(cases))})
    broke = bool(ob["broken"]) or bool(mismatches)
    searched = 0
    if broke and not violations and hasattr(mod, "search_cases") and not replay:
        extra = mod.search_cases(rng, tier, budget)
        searched = len(extra)
        for c, r in zip(extra, run_cases(modname, extra)):
            for v in r["violations"]:
                violations.append({"case": c, **v})

    # known-findings filter
    new_violations, known_hits = [], {}
    for v in violations:
        k = match_known(prop, v, known)
        if k:
            known_hits.setdefault(k["id"], (k, 0))
            known_hits[k["id"]] = (k, known_hits[k["id"]][1] + 1)
        else:
            new_violations.append(v)
    for kid, (k, n) in sorted(known_hits.items()):
        lines.append("KNOWN-FINDING: property=%s %s [%s, hit %d times]" % (prop, k["description"], kid, n))

    exit_code = 0
    if new_violations:
        v = new_violations[0]
        path = write_replay(prop, seed, {"property": prop, "kind": "failing-input", "what": v["what"], "signature": v.get("signature"),
                                         "detail": v.get("detail"), "case": v["case"],
                                         "how_to_rerun": "./check %s --replay <this file>" % prop,
                                         "other_violations": len(new_violations) - 1})
        lines.append("VIOLATION property=%s replay=%s" % (prop, path))
        exit_code = 1
    elif broke:
        # is every mismatch explained by a known finding (model mirrors the defect)? mismatches never are:
        # the model is supposed to follow the code.  Report with no-failing-input-found.
        what = ob["broken"][0] if ob["broken"] else {"obligation": "correspondence:%s" % mismatches[0]["what"], "detail": mismatches[0].get("detail")}
        path = write_replay(prop, seed, {"property": prop, "kind": "unchecked", "no_longer_checks": what["obligation"],
                                         "detail": what.get("detail"), "case": mismatches[0]["case"] if mismatches else None,
                                         "broken_obligations": ob["broken"], "n_mismatches": len(mismatches),
                                         "searched_cases": len(cases) + searched})
        lines.append("VIOLATION property=%s replay=%s no-failing-input-found" % (prop, path))
        exit_code = 1

    wall = time.time() - t_start
    level = getattr(mod, "LEVEL", "proof")
    cov = {
        "obligations": ob["obligations"], "discharged": ob["discharged"],
        "checker_cmd": ob["checker_cmd"] or "n/a",
        "trusted_base": list(getattr(mod, "TRUSTED", [])) + ["Lean 4.33.0 kernel", "Mathlib v4.33.0 olean files as installed",
                                                              "axioms: propext, Classical.choice, Quot.sound only (audited by #print axioms)"],
        "theorems": ob["theorems"], "broken_obligations": ob["broken"], "lean_build_s": ob["build_s"],
        "evaluations": len(cases) + searched, "distinct_nontrivial": len(hashes), "rule": getattr(mod, "RULE", ""),
        "samples": samples[:3], "input_distribution": tags, "mismatches": len(mismatches),
        "violations_found": len(violations), "known_findings_hit": {k: n for k, (_, n) in known_hits.items()},
        "traces_validated_against_impl": len(cases), "search_cases": searched,
        "violation_signatures": sigs, "mismatch_kinds": mkinds,
    }
    if "leanchecker" in ob:
        cov["leanchecker"] = ob["leanchecker"]
    cov.update(pre.get("coverage", {}))
    ev = {"property_id": prop, "tier": tier, "seed": int(seed), "level": level, "coverage": cov,
          "assumptions": list(getattr(mod, "ASSUMPTIONS", [])), "wall_s": round(wall, 2), "violations": len(new_violations) + (1 if (broke and not new_violations) else 0)}
    if not replay:
        # evidence/ only ever describes runs against /repo itself; a run pointed at a scratch tree (mutation
        # self-tests, seeded changes) leaves it alone and writes next to the caches instead
        evdir = os.path.join(VERIF, "evidence") if os.path.realpath(bootstrap.REPO) == "/repo" else os.path.join(VERIF, ".cache", "evidence_scratch")
        os.makedirs(evdir, exist_ok=True)
        with open(os.path.join(evdir, "%s.json" % prop), "w") as f:
            json.dump(ev, f, indent=1, default=str)
    for l in lines:
        print(l)
    print("%s tier=%s seed=%s cases=%d nontrivial=%d mismatches=%d violations=%d (known %d) obligations=%d/%d wall=%.1fs -> exit %d"
          % (prop, tier, seed, len(cases), len(hashes), len(mismatches), len(violations), len(violations) - len(new_violations),
             ob["discharged"], ob["obligations"], wall, exit_code))
    if os.environ.get("VERIF_VERBOSE"):
        print("signatures:", json.dumps(sigs, indent=1)); print("mismatch kinds:", json.dumps(mkinds, indent=1))
    if mismatches and os.environ.get("VERIF_VERBOSE"):
        print(json.dumps(mismatches[:3], indent=1, default=str)[:6000])
    if new_violations and os.environ.get("VERIF_VERBOSE"):
        print(json.dumps(new_violations[:3], indent=1, default=str)[:6000])
    return exit_code
