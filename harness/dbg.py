"""debug: run a property's cases in-process and print mismatches/violations compactly"""
import sys, json, random, importlib, hashlib
from . import bootstrap, runner
def main(prop, tier="quick", seed=0, kind="mismatches", n=3, sigfilter=None):
    bootstrap.init()
    mod = importlib.import_module("harness.props.%s" % prop.lower())
    rng = random.Random((seed * 1000003) ^ int(hashlib.sha256(prop.encode()).hexdigest()[:8], 16))
    cases = runner.load_corpus(prop) + mod.make_cases(rng, tier, mod.BUDGET[tier])
    res = runner.run_cases("harness.props.%s" % prop.lower(), cases)
    k = 0
    for c, r in zip(cases, res):
        for m in r[kind]:
            if sigfilter and sigfilter not in (m.get("signature") or m.get("what")):
                continue
            print("----", m.get("what"), m.get("signature"))
            print(str(m.get("detail"))[:3000])
            cc = dict(c); cc.pop("meta", None)
            print(json.dumps(cc)[:2500])
            k += 1
            if k >= n: return
if __name__ == "__main__":
    a = sys.argv[1:]
    main(a[0], kind=a[1] if len(a) > 1 else "mismatches", n=int(a[2]) if len(a) > 2 else 3, sigfilter=a[3] if len(a) > 3 else None)
