"""
Make the harness import pygom from the working tree under test ($VERIF_REPO, default /repo)
and rebuild the one compiled artefact (_tau_leap) from the current .pyx.

The rebuilt extension is cached by the sha256 of the .pyx under /verif/.cache/ext/<sha>/ and
pre-registered as sys.modules['pygom.model._tau_leap'], so an edited .pyx is what runs.
"""
import hashlib
import importlib.util
import os
import subprocess
import sys
import warnings

VERIF = os.path.dirname(os.path.dirname(os.path.abspath(__file__)))
REPO = os.environ.get("VERIF_REPO", "/repo")
GUARD = "PYGOM_VERIF"
_done = False


def _build_ext(pyx, outdir):
    os.makedirs(outdir, exist_ok=True)
    import shutil
    work = os.path.join(outdir, "build")
    os.makedirs(work, exist_ok=True)
    shutil.copy(pyx, os.path.join(work, "_tau_leap.pyx"))
    setup = (
        "from setuptools import setup, Extension\n"
        "from Cython.Build import cythonize\n"
        "import numpy\n"
        "ext=[Extension('_tau_leap',['_tau_leap.pyx'],include_dirs=[numpy.get_include()],extra_compile_args=['-std=c99'])]\n"
        "setup(ext_modules=cythonize(ext, compiler_directives={'language_level':3,'profile':False}), script_args=['build_ext','--inplace','-q'])\n"
    )
    with open(os.path.join(work, "setup_ext.py"), "w") as f:
        f.write(setup)
    r = subprocess.run([sys.executable, "setup_ext.py"], cwd=work, capture_output=True, text=True)
    sos = [f for f in os.listdir(work) if f.startswith("_tau_leap") and f.endswith(".so")]
    if r.returncode != 0 or not sos:
        raise RuntimeError("could not rebuild _tau_leap from %s:\n%s\n%s" % (pyx, r.stdout[-2000:], r.stderr[-2000:]))
    shutil.copy(os.path.join(work, sos[0]), os.path.join(outdir, sos[0]))
    shutil.rmtree(work, ignore_errors=True)
    return os.path.join(outdir, sos[0])


def ext_path():
    pyx = os.path.join(REPO, "src", "pygom", "model", "_tau_leap.pyx")
    sha = hashlib.sha256(open(pyx, "rb").read()).hexdigest()[:20]
    outdir = os.path.join(VERIF, ".cache", "ext", sha)
    if os.path.isdir(outdir):
        sos = [f for f in os.listdir(outdir) if f.endswith(".so")]
        if sos:
            return os.path.join(outdir, sos[0])
    # serialise concurrent builders
    import fcntl
    os.makedirs(os.path.join(VERIF, ".cache"), exist_ok=True)
    with open(os.path.join(VERIF, ".cache", "ext.lock"), "w") as lk:
        fcntl.flock(lk, fcntl.LOCK_EX)
        if os.path.isdir(outdir):
            sos = [f for f in os.listdir(outdir) if f.endswith(".so")]
            if sos:
                return os.path.join(outdir, sos[0])
        return _build_ext(pyx, outdir)


def init():
    """idempotent; call before importing pygom"""
    global _done
    if _done:
        return
    os.environ.setdefault(GUARD, "1")
    warnings.filterwarnings("ignore")
    src = os.path.join(REPO, "src")
    for k in [k for k in sys.modules if k == "pygom" or k.startswith("pygom.")]:
        del sys.modules[k]
    sys.path.insert(0, src)
    so = ext_path()
    spec = importlib.util.spec_from_file_location("pygom.model._tau_leap", so)
    # the extension's init function is PyInit__tau_leap
    mod = importlib.util.module_from_spec(spec)
    spec.loader.exec_module(mod)
    sys.modules["pygom.model._tau_leap"] = mod
    import pygom  # noqa
    assert os.path.realpath(pygom.__file__).startswith(os.path.realpath(src)), pygom.__file__
    import pygom.model as pm
    pm._tau_leap = mod
    _done = True


def fast_backend(model):
    """documented lambda back-end instead of the default cython autowrap (seconds of gcc per evaluator)"""
    from pygom.model import ode_utils
    model._SC = ode_utils.compileCode(backend="lambda")
    return model
