"""
Expression AST shared by the harness, pygom (as equation strings) and the Lean driver (as JSON).

An expression is a nested list:  ["num","3/4"] ["pi"] ["var","S"] ["add",a,b] ["sub",a,b]
["mul",a,b] ["div",a,b] ["neg",a] ["pow",a,n] ["exp",a] ["log",a] ["sin",a] ["cos",a]

`to_str` is what pygom parses; `ev` is the harness's own interpreter (mpmath, 50 digits), used
both to evaluate what the Lean driver returns and as the Lean-independent direct oracle.
"""
from fractions import Fraction
import mpmath

mpmath.mp.dps = 50
mpf = mpmath.mpf


def num(p, q=1):
    f = Fraction(p, q)
    return ["num", str(f.numerator) if f.denominator == 1 else "%d/%d" % (f.numerator, f.denominator)]


def var(s): return ["var", s]
def add(a, b): return ["add", a, b]
def sub(a, b): return ["sub", a, b]
def mul(a, b): return ["mul", a, b]
def div(a, b): return ["div", a, b]
def neg(a): return ["neg", a]
def pow_(a, n): return ["pow", a, int(n)]
def fn(name, a): return [name, a]
PI = ["pi"]


def to_str(e):
    """fully parenthesised equation string accepted by pygom's checkEquation / sympy.parse_expr"""
    t = e[0]
    if t == "num":
        f = Fraction(e[1])
        if f.denominator == 1:
            return "(%d)" % f.numerator
        return "(Rational(%d,%d))" % (f.numerator, f.denominator)
    if t == "pi":
        return "pi"
    if t == "var":
        return e[1]
    if t in ("add", "sub", "mul", "div"):
        op = {"add": " + ", "sub": " - ", "mul": "*", "div": "/"}[t]
        return "(%s%s%s)" % (to_str(e[1]), op, to_str(e[2]))
    if t == "neg":
        return "(-%s)" % to_str(e[1])
    if t == "pow":
        return "(%s**%d)" % (to_str(e[1]), e[2])
    if t in ("exp", "log", "sin", "cos"):
        return "%s(%s)" % (t, to_str(e[1]))
    raise ValueError("bad expr %r" % (e,))


def to_plain_str(e):
    """a less parenthesised, human style string (numbers as plain literals) - used for a share of
    generated models so that pygom's parser sees ordinary input too"""
    t = e[0]
    if t == "num":
        f = Fraction(e[1])
        return str(f.numerator) if f.denominator == 1 else "(%d/%d)" % (f.numerator, f.denominator)
    return to_str(e) if t not in ("var", "pi") else (e[1] if t == "var" else "pi")


# ---------------------------------------------------------------------------------------------------------
# Natural-precedence printing: what a USER would write (no redundant outer parentheses, ordinary operator
# precedence, `**` powers, unary minus, plain / scientific / `p/q` numeric literals, optional extra blanks).
# `to_str` above stays the fully parenthesised reference form; `user_str` is what a share of the generated
# models hand to pygom, so that the code under test sees strings whose meaning depends on precedence
# (e.g. a magnitude `1 - p` pasted in front of `*(rate)`).  The printer is checked on every case it is used for
# by `python_value` (Python's own parser and precedence on the printed string) against `ev` of the tree.
# ---------------------------------------------------------------------------------------------------------

DEFAULT_SYNTAX = {"spaces": 1, "num": "frac"}


def _num_user(f, sx):
    """(string, precedence, starts_with_minus) of a rational literal"""
    mode = sx.get("num", "frac")
    neg_ = f < 0
    a = abs(f)
    if a.denominator == 1:
        s, pr = str(a.numerator), 5
    elif mode == "rational":
        return "Rational(%d,%d)" % (f.numerator, f.denominator), 5, False
    else:
        d = a.denominator
        k = 0
        while d % 10 == 0:
            d //= 10; k += 1
        dec = None
        if mode in ("sci", "dec"):
            d2 = a.denominator
            while d2 % 2 == 0: d2 //= 2
            while d2 % 5 == 0: d2 //= 5
            if d2 == 1:
                # terminating decimal
                from decimal import Decimal, getcontext
                getcontext().prec = 60
                dd = Decimal(a.numerator) / Decimal(a.denominator)
                if mode == "sci" and d == 1 and k >= 2:
                    dec = "%de-%d" % (a.numerator, k)          # 1e-3, 25e-4
                else:
                    dec = format(dd.normalize(), "f")
        if dec is not None:
            s, pr = dec, 5
        else:
            s, pr = "%d/%d" % (a.numerator, a.denominator), 2
    if neg_:
        return "-" + s, min(pr, 3), True
    return s, pr, False


def _user(e, sx):
    """(string, precedence, starts_with_minus); precedence 1 add/sub, 2 mul/div, 3 unary minus, 4 power, 5 atom"""
    t = e[0]
    sp = sx.get("spaces", 1)
    if t == "num":
        return _num_user(Fraction(e[1]), sx)
    if t == "pi":
        return "pi", 5, False
    if t == "var":
        return e[1], 5, False
    if t in ("add", "sub", "mul", "div"):
        pr = 1 if t in ("add", "sub") else 2
        ls, lp, lm = _user(e[1], sx)
        rs, rp, rm = _user(e[2], sx)
        if lp < pr:
            ls, lm = "(%s)" % ls, False
        if rp <= pr or rm:
            rs = "(%s)" % rs
        op = {"add": "+", "sub": "-", "mul": "*", "div": "/"}[t]
        if sp >= 2:
            op = "  %s " % op
        elif sp == 1 and pr == 1:
            op = " %s " % op
        return ls + op + rs, pr, lm
    if t == "neg":
        s, p, m = _user(e[1], sx)
        if e[1][0] in ("mul", "div") and not m:
            return "-" + s, 2, True            # -a*b : Python reads (-a)*b, the same value
        if p < 4 or m:
            s = "(%s)" % s
        return ("- " if sp >= 2 else "-") + s, 3, True
    if t == "pow":
        s, p, m = _user(e[1], sx)
        if p < 5 or m:
            s = "(%s)" % s
        n = int(e[2])
        return "%s**%s" % (s, str(n) if n >= 0 else "(%d)" % n), 4, False
    if t in ("exp", "log", "sin", "cos"):
        s, p, m = _user(e[1], sx)
        return ("%s( %s )" if sp >= 2 else "%s(%s)") % (t, s), 5, False
    raise ValueError("bad expr %r" % (e,))


def user_str(e, sx=None):
    """`e` as a user would type it (see above).  sx: {"spaces": 0|1|2, "num": "frac"|"sci"|"dec"|"rational", "pad": bool}"""
    sx = sx or DEFAULT_SYNTAX
    s = _user(e, sx)[0]
    if sx.get("pad"):
        s = " " + s + "  "
    return s


def fmt(e, sx=None):
    """the string handed to pygom: fully parenthesised reference form unless a syntax style is given"""
    return to_str(e) if not sx else user_str(e, sx)


def python_value(s, env):
    """value of the STRING s under env according to Python's own grammar and operator precedence (the grammar pygom's
    equation strings are written in), in mpmath arithmetic; integer literals are made exact (`1/3` is a third)"""
    import ast

    class _Lit(ast.NodeTransformer):
        def visit_Constant(self, node):
            if isinstance(node.value, (int, float)) and not isinstance(node.value, bool):
                return ast.copy_location(ast.Call(func=ast.Name(id="__lit", ctx=ast.Load()),
                                                  args=[ast.Constant(value=repr(node.value))], keywords=[]), node)
            return node

    tree = ast.fix_missing_locations(_Lit().visit(ast.parse(s.strip(), mode="eval")))
    ns = {"__lit": lambda r: mpf(r), "exp": mpmath.exp, "log": mpmath.log, "sin": mpmath.sin, "cos": mpmath.cos, "pi": mpmath.pi,
          "Rational": lambda p, q: mpf(p) / mpf(q)}
    for k, v in env.items():
        ns[k] = mpf(v.numerator) / mpf(v.denominator) if isinstance(v, Fraction) else mpf(v)
    return eval(compile(tree, "<user_str>", "eval"), {"__builtins__": {}}, ns)


class Undefined(Exception):
    pass


def ev(e, env):
    """value of e under env (name -> mpf/Fraction/int) in 50-digit arithmetic"""
    t = e[0]
    if t == "num":
        f = Fraction(e[1])
        return mpf(f.numerator) / mpf(f.denominator)
    if t == "pi":
        return mpmath.pi
    if t == "var":
        v = env[e[1]]
        if isinstance(v, Fraction):
            return mpf(v.numerator) / mpf(v.denominator)
        return mpf(v)
    if t == "add":
        return ev(e[1], env) + ev(e[2], env)
    if t == "sub":
        return ev(e[1], env) - ev(e[2], env)
    if t == "mul":
        return ev(e[1], env) * ev(e[2], env)
    if t == "div":
        d = ev(e[2], env)
        if abs(d) < mpf("1e-6"):
            raise Undefined("near-zero denominator")
        return ev(e[1], env) / d
    if t == "neg":
        return -ev(e[1], env)
    if t == "pow":
        return ev(e[1], env) ** int(e[2])
    if t == "exp":
        return mpmath.exp(ev(e[1], env))
    if t == "log":
        a = ev(e[1], env)
        if a < mpf("1e-6"):
            raise Undefined("log of non-positive")
        return mpmath.log(a)
    if t == "sin":
        return mpmath.sin(ev(e[1], env))
    if t == "cos":
        return mpmath.cos(ev(e[1], env))
    raise ValueError("bad expr %r" % (e,))


def ev_bound(e, env):
    """(value, bound): `bound` >= the sum of the absolute values of the terms that are added up anywhere inside e (for any
    expanded / regrouped but algebraically equal form), so that a double-precision evaluation of e is accurate to a few
    ulp * bound.  It is the scale against which a value of e is compared RELATIVELY per entry when the point contains very
    small and very large numbers (an absolute floor would hide a small entry; |value| alone ignores cancellation)."""
    t = e[0]
    if t in ("num", "pi", "var"):
        v = ev(e, env)
        return v, abs(v)
    if t in ("add", "sub"):
        a, A = ev_bound(e[1], env); b, B = ev_bound(e[2], env)
        return (a + b if t == "add" else a - b), A + B
    if t == "mul":
        a, A = ev_bound(e[1], env); b, B = ev_bound(e[2], env)
        return a * b, A * B
    if t == "div":
        a, A = ev_bound(e[1], env); b, B = ev_bound(e[2], env)
        if abs(b) < mpf("1e-6") * B or b == 0:
            raise Undefined("near-zero denominator")
        return a / b, (A / abs(b)) * (B / abs(b))
    if t == "neg":
        a, A = ev_bound(e[1], env)
        return -a, A
    if t == "pow":
        a, A = ev_bound(e[1], env)
        return a ** int(e[2]), A ** int(e[2])
    a, A = ev_bound(e[1], env)
    if t == "exp":
        return mpmath.exp(a), mpmath.exp(a) * (1 + A)
    if t == "log":
        if a < mpf("1e-6"):
            raise Undefined("log of non-positive")
        return mpmath.log(a), abs(mpmath.log(a)) + A / a
    if t in ("sin", "cos"):
        return (mpmath.sin(a) if t == "sin" else mpmath.cos(a)), 1 + A
    raise ValueError("bad expr %r" % (e,))


def free_vars(e, acc=None):
    if acc is None:
        acc = set()
    if e[0] == "var":
        acc.add(e[1])
    elif e[0] not in ("num", "pi"):
        for a in e[1:]:
            if isinstance(a, list):
                free_vars(a, acc)
    return acc


def size(e):
    if e[0] in ("num", "pi", "var"):
        return 1
    return 1 + sum(size(a) for a in e[1:] if isinstance(a, list))


def sympy_eval(expr, env):
    """evaluate a sympy expression (as produced by pygom) at env (name -> Fraction) with 50 digits;
    symbols are matched by name (pygom's symbols carry assumptions)"""
    import sympy
    subs = {}
    for s in expr.free_symbols:
        v = env[s.name]
        if isinstance(v, Fraction):
            subs[s] = sympy.Rational(v.numerator, v.denominator)
        else:
            subs[s] = sympy.Float(str(v), 60)
    val = sympy.sympify(expr).xreplace(subs)
    val = sympy.N(val, 50)
    if val.is_real is False and abs(sympy.im(val)) > 1e-30:
        raise Undefined("complex value")
    return mpf(str(sympy.re(val)))


def close(a, b, rel=mpf("1e-25"), abs_=mpf("1e-28")):
    a = mpf(a); b = mpf(b)
    return abs(a - b) <= abs_ + rel * max(abs(a), abs(b))
