"""
Expression AST shared by the harness, pygom (as equation strings) and the Lean driver (as JSON).

An expression is a nested list:  ["num","3/4"] ["pi"] ["var","S"] ["add",a,b] ["sub",a,b]
["mul",a,b] ["div",a,b] ["neg",a] ["pow",a,n] ["exp",a] ["log",a] ["sin",a] ["cos",a]

`to_str` is what pygom parses; `ev` is the harness's own interpreter (mpmath, 50 digits), used
both to evaluate what the Lean driver returns and as the Lean-independent direct oracle.
"""
from fractions import Fraction
import mpmath

mpmath.mp.dps = 50
mpf = mpmath.mpf


def num(p, q=1):
    f = Fraction(p, q)
    return ["num", str(f.numerator) if f.denominator == 1 else "%d/%d" % (f.numerator, f.denominator)]


def var(s): return ["var", s]
def add(a, b): return ["add", a, b]
def sub(a, b): return ["sub", a, b]
def mul(a, b): return ["mul", a, b]
def div(a, b): return ["div", a, b]
def neg(a): return ["neg", a]
def pow_(a, n): return ["pow", a, int(n)]
def fn(name, a): return [name, a]
PI = ["pi"]


def to_str(e):
    """fully parenthesised equation string accepted by pygom's checkEquation / sympy.parse_expr"""
    t = e[0]
    if t == "num":
        f = Fraction(e[1])
        if f.denominator == 1:
            return "(%d)" % f.numerator
        return "(Rational(%d,%d))" % (f.numerator, f.denominator)
    if t == "pi":
        return "pi"
    if t == "var":
        return e[1]
    if t in ("add", "sub", "mul", "div"):
        op = {"add": " + ", "sub": " - ", "mul": "*", "div": "/"}[t]
        return "(%s%s%s)" % (to_str(e[1]), op, to_str(e[2]))
    if t == "neg":
        return "(-%s)" % to_str(e[1])
    if t == "pow":
        return "(%s**%d)" % (to_str(e[1]), e[2])
    if t in ("exp", "log", "sin", "cos"):
        return "%s(%s)" % (t, to_str(e[1]))
    raise ValueError("bad expr %r" % (e,))


def to_plain_str(e):
    """a less parenthesised, human style string (numbers as plain literals) - used for a share of
    generated models so that pygom's parser sees ordinary input too"""
    t = e[0]
    if t == "num":
        f = Fraction(e[1])
        return str(f.numerator) if f.denominator == 1 else "(%d/%d)" % (f.numerator, f.denominator)
    return to_str(e) if t not in ("var", "pi") else (e[1] if t == "var" else "pi")


class Undefined(Exception):
    pass


def ev(e, env):
    """value of e under env (name -> mpf/Fraction/int) in 50-digit arithmetic"""
    t = e[0]
    if t == "num":
        f = Fraction(e[1])
        return mpf(f.numerator) / mpf(f.denominator)
    if t == "pi":
        return mpmath.pi
    if t == "var":
        v = env[e[1]]
        if isinstance(v, Fraction):
            return mpf(v.numerator) / mpf(v.denominator)
        return mpf(v)
    if t == "add":
        return ev(e[1], env) + ev(e[2], env)
    if t == "sub":
        return ev(e[1], env) - ev(e[2], env)
    if t == "mul":
        return ev(e[1], env) * ev(e[2], env)
    if t == "div":
        d = ev(e[2], env)
        if abs(d) < mpf("1e-6"):
            raise Undefined("near-zero denominator")
        return ev(e[1], env) / d
    if t == "neg":
        return -ev(e[1], env)
    if t == "pow":
        return ev(e[1], env) ** int(e[2])
    if t == "exp":
        return mpmath.exp(ev(e[1], env))
    if t == "log":
        a = ev(e[1], env)
        if a < mpf("1e-6"):
            raise Undefined("log of non-positive")
        return mpmath.log(a)
    if t == "sin":
        return mpmath.sin(ev(e[1], env))
    if t == "cos":
        return mpmath.cos(ev(e[1], env))
    raise ValueError("bad expr %r" % (e,))


def free_vars(e, acc=None):
    if acc is None:
        acc = set()
    if e[0] == "var":
        acc.add(e[1])
    elif e[0] not in ("num", "pi"):
        for a in e[1:]:
            if isinstance(a, list):
                free_vars(a, acc)
    return acc


def size(e):
    if e[0] in ("num", "pi", "var"):
        return 1
    return 1 + sum(size(a) for a in e[1:] if isinstance(a, list))


def sympy_eval(expr, env):
    """evaluate a sympy expression (as produced by pygom) at env (name -> Fraction) with 50 digits;
    symbols are matched by name (pygom's symbols carry assumptions)"""
    import sympy
    subs = {}
    for s in expr.free_symbols:
        v = env[s.name]
        if isinstance(v, Fraction):
            subs[s] = sympy.Rational(v.numerator, v.denominator)
        else:
            subs[s] = sympy.Float(str(v), 60)
    val = sympy.sympify(expr).xreplace(subs)
    val = sympy.N(val, 50)
    if val.is_real is False and abs(sympy.im(val)) > 1e-30:
        raise Undefined("complex value")
    return mpf(str(sympy.re(val)))


def close(a, b, rel=mpf("1e-25"), abs_=mpf("1e-28")):
    a = mpf(a); b = mpf(b)
    return abs(a - b) <= abs_ + rel * max(abs(a), abs(b))
