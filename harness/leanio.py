"""
Lean side of the harness: building the lake project, talking to the driver, auditing axioms.
"""
import fcntl
import json
import os
import re
import subprocess
import time

VERIF = os.path.dirname(os.path.dirname(os.path.abspath(__file__)))
LEAN = os.path.join(VERIF, "lean")
DRIVER = os.path.join(LEAN, ".lake", "build", "bin", "pygom_driver")
ALLOWED_AXIOMS = {"propext", "Classical.choice", "Quot.sound"}
FORBIDDEN = re.compile(r"\b(sorry|admit|native_decide|bv_decide|implemented_by|unsafe|maxHeartbeats 0)\b|^\s*axiom\s", re.M)


class LeanError(Exception):
    pass


def _lock():
    os.makedirs(os.path.join(VERIF, ".cache"), exist_ok=True)
    f = open(os.path.join(VERIF, ".cache", "lake.lock"), "w")
    fcntl.flock(f, fcntl.LOCK_EX)
    return f


def lake_build(targets=(), timeout=3000):
    """returns (ok, output, seconds)"""
    t0 = time.time()
    lk = _lock()
    try:
        r = subprocess.run(["lake", "build"] + list(targets), cwd=LEAN, capture_output=True, text=True, timeout=timeout)
    finally:
        lk.close()
    return r.returncode == 0, (r.stdout + r.stderr), time.time() - t0


def ensure_driver():
    if not os.path.exists(DRIVER) or _stale():
        ok, out, _ = lake_build(["pygom_driver"])
        if not ok:
            raise LeanError("driver build failed:\n" + out[-4000:])
    return DRIVER


def _stale():
    try:
        m = os.path.getmtime(DRIVER)
    except OSError:
        return True
    for root in (os.path.join(LEAN, "Pygom"),):
        for dp, _, fs in os.walk(root):
            if "/Props" in dp or "/Lemmas" in dp:
                continue
            for f in fs:
                if f.endswith(".lean") and os.path.getmtime(os.path.join(dp, f)) > m:
                    return True
    return os.path.getmtime(os.path.join(LEAN, "Driver.lean")) > m


class Driver:
    """one driver process; request/response strictly in order"""

    def __init__(self):
        ensure_driver()
        self.p = subprocess.Popen([DRIVER], stdin=subprocess.PIPE, stdout=subprocess.PIPE, text=True, bufsize=1)
        self.n = 0

    def call(self, req):
        self.p.stdin.write(json.dumps(req) + "\n")
        self.p.stdin.flush()
        line = self.p.stdout.readline()
        if not line:
            raise LeanError("driver died on %s" % json.dumps(req)[:500])
        self.n += 1
        resp = json.loads(line)
        if isinstance(resp, dict) and "fatal" in resp:
            raise LeanError("driver: %s on %s" % (resp["fatal"], json.dumps(req)[:500]))
        return resp

    def close(self):
        try:
            self.p.stdin.close()
            self.p.wait(timeout=5)
        except Exception:
            self.p.kill()

    def __enter__(self):
        return self

    def __exit__(self, *a):
        self.close()


_drv = None


def driver():
    """per-process singleton"""
    global _drv
    if _drv is None or _drv.p.poll() is not None:
        _drv = Driver()
    return _drv


def strip_comments(src):
    src = re.sub(r"/-.*?-/", "", src, flags=re.S)
    src = re.sub(r"--.*", "", src)
    return src


def grep_forbidden(files):
    hits = []
    for f in files:
        src = strip_comments(open(f).read())
        for m in FORBIDDEN.finditer(src):
            hits.append("%s: %s" % (os.path.relpath(f, LEAN), m.group(0).strip()))
    return hits


def all_lean_files():
    out = [os.path.join(LEAN, "Driver.lean")]
    for dp, _, fs in os.walk(os.path.join(LEAN, "Pygom")):
        out += [os.path.join(dp, f) for f in fs if f.endswith(".lean")]
    return sorted(out)


def print_axioms(module, names, timeout=1200):
    """`#print axioms` for each theorem name (module must be built). returns {name: [axioms]} ;
    a name that does not exist maps to None"""
    src = "import %s\n" % module + "".join("#print axioms %s\n" % n for n in names)
    path = os.path.join(LEAN, ".lake", "audit_%s_%d.lean" % (module.replace(".", "_"), os.getpid()))
    os.makedirs(os.path.dirname(path), exist_ok=True)
    with open(path, "w") as f:
        f.write(src)
    try:
        r = subprocess.run(["lake", "env", "lean", path], cwd=LEAN, capture_output=True, text=True, timeout=timeout)
    finally:
        os.unlink(path)
    out = r.stdout + r.stderr
    res = {}
    for n in names:
        m = re.search(r"'%s' depends on axioms: \[(.*?)\]" % re.escape(n), out, re.S)
        if m:
            res[n] = [a.strip() for a in m.group(1).replace("\n", " ").split(",") if a.strip()]
        elif re.search(r"'%s' does not depend on any axioms" % re.escape(n), out):
            res[n] = []
        else:
            res[n] = None
    return res, out


def theorem_names(props_file):
    """names of theorems declared in a Props file (namespace-qualified)"""
    src = strip_comments(open(props_file).read())
    ns = []
    names = []
    for line in src.splitlines():
        m = re.match(r"\s*namespace\s+(\S+)", line)
        if m:
            ns.append(m.group(1)); continue
        m = re.match(r"\s*end\s+(\S+)", line)
        if m and ns and ns[-1] == m.group(1):
            ns.pop(); continue
        m = re.match(r"\s*(?:@\[[^\]]*\]\s*)?(?:private\s+|protected\s+)?theorem\s+(\S+)", line)
        if m:
            names.append(".".join(ns + [m.group(1)]))
    return names
