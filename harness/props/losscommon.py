"""
Shared machinery of C06 / C07 (loss layer): case generator, independent reference trajectory,
reference loss formulas (scipy.stats), construction of the real loss objects.

DIRECT ORACLE.  The reference trajectory is scipy.integrate.solve_ivp (DOP853, rtol = atol = 1e-12,
integrated piecewise from observation time to observation time, no dense output) on a right-hand side
that is NOT pygom's compiled function:
  * random models   : the ODE expressions returned by the Lean driver's `assemble` (tied to the model
                      definition by C01) compiled to a plain Python function by `compile_rhs` below;
  * catalogue models: a hand-written right-hand side (CATALOGUE below).
The reference cost is scipy.stats log-densities / squared weighted residuals of that trajectory.
No pygom kernel, no pygom integrator, no pygom evaluator is used by the oracle.
"""
import math
import random

import numpy as np

from .. import exprs as E
from .. import gen

CLASSES = ["Square", "Normal", "Poisson", "Gamma", "NegBinom"]
NEEDS_POSITIVE = {"Poisson", "Gamma", "NegBinom"}
COUNT = {"Poisson", "NegBinom"}
SPREAD_KW = {"Normal": "sigma", "Gamma": "shape", "NegBinom": "k"}

# --------------------------------------------------------------------------- right-hand sides


def _src(e, sidx, pidx):
    t = e[0]
    if t == "num":
        from fractions import Fraction
        f = Fraction(e[1])
        return "(%r)" % (f.numerator / f.denominator)
    if t == "pi":
        return "math.pi"
    if t == "var":
        n = e[1]
        if n in sidx:
            return "x[%d]" % sidx[n]
        if n in pidx:
            return "th[%d]" % pidx[n]
        if n == "t":
            return "t"
        raise KeyError("free symbol %s in ODE expression" % n)
    if t in ("add", "sub", "mul", "div"):
        op = {"add": "+", "sub": "-", "mul": "*", "div": "/"}[t]
        return "(%s%s%s)" % (_src(e[1], sidx, pidx), op, _src(e[2], sidx, pidx))
    if t == "neg":
        return "(-%s)" % _src(e[1], sidx, pidx)
    if t == "pow":
        return "(%s**%d)" % (_src(e[1], sidx, pidx), int(e[2]))
    if t in ("exp", "log", "sin", "cos"):
        return "math.%s(%s)" % (t, _src(e[1], sidx, pidx))
    raise ValueError("bad expr %r" % (e,))


def compile_rhs(ode_exprs, states, params):
    """expression JSON (from the Lean driver) -> f(t, x, th) returning a list of floats"""
    sidx = {s: i for i, s in enumerate(states)}
    pidx = {p: i for i, p in enumerate(params)}
    src = "lambda t, x, th: [" + ", ".join(_src(e, sidx, pidx) for e in ode_exprs) + "]"
    return eval(src, {"math": math})


CATALOGUE = {
    "SIR": dict(states=["S", "I", "R"], params=["beta", "gamma", "N"],
                rhs=lambda t, x, th: [-th[0] * x[0] * x[1] / th[2], th[0] * x[0] * x[1] / th[2] - th[1] * x[1], th[1] * x[1]],
                theta=[(0.3, 0.9), (0.1, 0.4), (8.0, 12.0)], x0=[(6.0, 9.0), (0.5, 2.0), (0.2, 1.0)], T=(4.0, 12.0), positive=True),
    "SEIR": dict(states=["S", "E", "I", "R"], params=["beta", "alpha", "gamma", "N"],
                 rhs=lambda t, x, th: [-th[0] * x[0] * x[2] / th[3], th[0] * x[0] * x[2] / th[3] - th[1] * x[1],
                                       th[1] * x[1] - th[2] * x[2], th[2] * x[2]],
                 theta=[(0.4, 1.2), (0.2, 0.8), (0.1, 0.5), (8.0, 12.0)], x0=[(6.0, 9.0), (0.5, 2.0), (0.5, 2.0), (0.2, 1.0)],
                 T=(4.0, 12.0), positive=True),
    "Lotka_Volterra": dict(states=["x", "y"], params=["alpha", "beta", "gamma", "delta"],
                           rhs=lambda t, x, th: [th[0] * x[0] - th[1] * x[0] * x[1], th[3] * x[0] * x[1] - th[2] * x[1]],
                           theta=[(0.5, 1.2), (0.2, 0.6), (0.5, 1.2), (0.1, 0.4)], x0=[(1.0, 4.0), (1.0, 3.0)], T=(3.0, 8.0), positive=True),
    "FitzHugh": dict(states=["V", "R"], params=["a", "b", "c"],
                     rhs=lambda t, x, th: [th[2] * (x[0] - x[0] ** 3 / 3.0 + x[1]), -(x[0] - th[0] + th[1] * x[1]) / th[2]],
                     theta=[(0.1, 0.4), (0.1, 0.4), (1.5, 3.0)], x0=[(-1.0, 1.0), (-1.0, 1.0)], T=(3.0, 8.0), positive=False),
}


class _Budget(Exception):
    pass


def ref_traj(rhs, theta, x0, t0, times, lo=None, hi=1e3, max_evals=30000):
    """rows of the reference solution at `times` (piecewise DOP853 at 1e-12); None when it fails, leaves the
    box [lo, hi] (lo=None: no lower bound) or needs more than `max_evals` right-hand-side evaluations"""
    from scipy.integrate import solve_ivp
    th = [float(v) for v in theta]
    count = [0]

    def f(t, x):
        count[0] += 1
        if count[0] > max_evals:
            raise _Budget()
        return rhs(t, x, th)
    rows = []
    cur_t, cur_x = float(t0), np.array(x0, float)
    try:
        for t1 in times:
            t1 = float(t1)
            if t1 == cur_t:
                rows.append(cur_x.copy())
                continue
            sol = solve_ivp(f, (cur_t, t1), cur_x, method="DOP853", rtol=1e-12, atol=1e-12)
            if not sol.success:
                return None
            cur_t, cur_x = t1, sol.y[:, -1]
            if not np.all(np.isfinite(cur_x)) or np.max(np.abs(cur_x)) > hi or (lo is not None and np.min(cur_x) < lo):
                return None
            rows.append(cur_x.copy())
    except (OverflowError, ZeroDivisionError, ValueError, FloatingPointError, _Budget):
        return None
    return np.array(rows)


# --------------------------------------------------------------------------- reference loss formulas


def ref_terms(cls, y, yhat, w, spread):
    """per-entry terms of the stated loss of class `cls`; all arguments are n x p float arrays (spread may be None)"""
    import scipy.stats as st
    if cls == "Square":
        return (w * (y - yhat)) ** 2
    if cls == "Normal":
        return -st.norm.logpdf(w * (y - yhat), loc=0.0, scale=spread)
    if cls == "Poisson":
        return -st.poisson.logpmf(y, yhat)
    if cls == "Gamma":
        return -st.gamma.logpdf(y, a=spread, scale=yhat / spread)
    if cls == "NegBinom":
        return -st.nbinom.logpmf(y, spread, spread / (spread + yhat))
    raise ValueError(cls)


def ref_cost(cls, y, yhat, w, spread):
    return float(np.sum(ref_terms(cls, y, yhat, w, spread)))


def cost_tolerance(cls, y, yhat, w, spread, rel=1e-6, solver=1e-7):
    """acceptance threshold for |cost - reference cost|:
    rel x (sum of absolute per-entry terms)  +  the change of the cost under a perturbation of the prediction by
    solver x (1 + |yhat|) (pygom integrates at rtol = atol = 1e-10; `solver` is 1000 times that)"""
    t0 = ref_terms(cls, y, yhat, w, spread)
    d = solver * (1.0 + np.abs(yhat))
    lo = np.maximum(yhat - d, yhat * 0.5) if cls in NEEDS_POSITIVE else yhat - d
    tp_ = ref_terms(cls, y, yhat + d, w, spread)
    tm_ = ref_terms(cls, y, lo, w, spread)
    return float(rel * (1e-3 + np.sum(np.abs(t0))) + np.sum(np.maximum(np.abs(tp_ - t0), np.abs(tm_ - t0))))


def expand(kind, val, n, p):
    """documented meaning of a weight / spread argument -> n x p array  (independent of numpy broadcasting
    inside pygom: plain loops)"""
    out = np.ones((n, p))
    if kind in ("none", "default"):
        return out if val is None else out * float(val)
    for i in range(n):
        for j in range(p):
            if kind == "scalar":
                out[i, j] = val
            elif kind == "scalar-list":
                out[i, j] = val[0]
            elif kind == "per-state":
                out[i, j] = val[j]
            elif kind == "row":
                out[i, j] = val[0][j]
            elif kind == "per-obs":
                out[i, j] = val[i]
            elif kind == "per-obs-column":
                out[i, j] = val[i][0]
            elif kind == "matrix":
                out[i, j] = val[i][j]
            else:
                raise ValueError(kind)
    return out


def gen_shaped(rng, n, p, lo, hi, integer=False, allow_none=True):
    """a weight/spread argument in one of the accepted shapes -> (kind, value)"""
    kinds = ["scalar", "scalar-list", "matrix"]
    if allow_none:
        kinds.append("none")
    if p > 1:
        kinds += ["per-state", "row"]
    else:
        kinds += ["per-obs", "per-obs-column"]
    kind = rng.choice(kinds)
    r = (lambda: float(rng.randint(int(lo), int(hi)))) if integer else (lambda: round(rng.uniform(lo, hi), 3))
    if kind == "none":
        return kind, None
    if kind == "scalar":
        return kind, r()
    if kind == "scalar-list":
        return kind, [r()]
    if kind == "per-state":
        return kind, [r() for _ in range(p)]
    if kind == "row":
        return kind, [[r() for _ in range(p)]]
    if kind == "per-obs":
        return kind, [r() for _ in range(n)]
    if kind == "per-obs-column":
        return kind, [[r()] for _ in range(n)]
    return kind, [[r() for _ in range(p)] for _ in range(n)]


# --------------------------------------------------------------------------- cases


def gen_setup(rng, catalogue_share=0.3, max_obs=3, want_order=None):
    """one model + theta + x0 + grid + observed-state selection (JSON-able)"""
    r = rng
    if r.random() < catalogue_share:
        name = r.choice(sorted(CATALOGUE))
        c = CATALOGUE[name]
        states, params = c["states"], c["params"]
        theta = [round(r.uniform(*b), 4) for b in c["theta"]]
        x0 = [round(r.uniform(*b), 4) for b in c["x0"]]
        T = r.uniform(*c["T"])
        model = {"src": "catalogue", "name": name}
    else:
        spec, meta = gen.gen_model(r, min_states=2, max_states=4, max_params=4, min_events=1, max_events=4,
                                   allow_time=False, max_mag=2, types=(("T", 6), ("B", 1), ("D", 2)),
                                   kinds=[("linear", 4), ("mass", 3), ("saturating", 2), ("exponential", 1)])
        states, params = meta["states"], meta["params"]
        theta = [round(r.uniform(0.1, 0.7), 4) for _ in params]
        x0 = [round(r.uniform(1.0, 5.0), 4) for _ in states]
        T = r.uniform(0.5, 2.0)
        model = {"src": "random", "spec": spec, "meta": meta}
    n = r.randint(3, 7)
    if r.random() < 0.5:
        times = [round(T * (i + 1) / n, 6) for i in range(n)]
        grid = "uniform"
    else:
        cuts = sorted(r.uniform(0.05, 1.0) for _ in range(n))
        times = []
        for c_ in cuts:
            v = round(T * c_, 6)
            if not times or v > times[-1] + 1e-3:
                times.append(v)
        grid = "non-uniform"
    p = r.randint(1, min(max_obs, len(states)))
    obs = r.sample(states, p)
    if want_order == "ascending":
        obs = sorted(obs, key=states.index)
    elif want_order == "not-ascending" and p >= 2:
        obs = sorted(obs, key=states.index, reverse=True)
        if p == 3 and r.random() < 0.5:
            obs = [obs[1], obs[2], obs[0]]
    theta_eval = [round(v * r.uniform(0.8, 1.25), 4) for v in theta]
    x0_eval = [round(v * r.uniform(0.85, 1.2), 4) for v in x0]
    return {"model": model, "states": states, "params": params, "theta_true": theta, "theta_eval": theta_eval,
            "x0": x0, "x0_eval": x0_eval, "t0": 0.0, "times": times, "grid": grid, "obs": obs}


def box(setup):
    """the box the reference trajectory must stay in for the case to count (bounded, and non-negative for
    population models): keeps the problem well conditioned so that solver error stays far below tolerance"""
    m = setup["model"]
    if m["src"] == "catalogue" and not CATALOGUE[m["name"]]["positive"]:
        return dict(lo=None, hi=100.0)
    return dict(lo=-1e-9, hi=100.0)


def order_class(states, names):
    idx = [states.index(s) for s in names]
    return "ascending" if idx == sorted(idx) else "not-ascending"


def gen_targets(rng, params, states, p_tp=0.5, p_ts=0.0):
    tp = ts = None
    if rng.random() < p_tp:
        tp = rng.sample(params, rng.randint(1, len(params)))
    if rng.random() < p_ts:
        ts = rng.sample(states, rng.randint(1, len(states)))
    return tp, ts


# --------------------------------------------------------------------------- real objects


def build_model(setup, backend="lambda"):
    """returns (pygom model, rhs, error string or None).  rhs is the oracle's right-hand side."""
    from .. import bootstrap, leanio, pymodel
    bootstrap.init()
    m = setup["model"]
    if m["src"] == "catalogue":
        from pygom import common_models
        model = getattr(common_models, m["name"])()
        if backend == "lambda":
            bootstrap.fast_backend(model)
        return model, CATALOGUE[m["name"]]["rhs"], None
    lr = leanio.driver().call({"op": "assemble", "derivs": False, "model": m["spec"]})
    if lr.get("err"):
        return None, None, "lean rejects the generated model: %s" % lr["err"]
    model = pymodel.build(m["spec"], backend=backend)
    states = [str(s) for s in model.state_list]
    params = [str(s) for s in model.param_list]
    if states != lr["states"] or params != lr["params"] or states != setup["states"] or params != setup["params"]:
        return None, None, "name lists differ: python %s %s lean %s %s" % (states, params, lr["states"], lr["params"])
    return model, compile_rhs(lr["ode"], states, params), None


def make_data(setup, traj_true, classes_wanted, data_kind, noise_seed):
    """observations for every class from the reference trajectory at the data-generating parameters.
    returns {cls: y (n x p array)}, only for classes whose domain the trajectory allows"""
    idx = [setup["states"].index(s) for s in setup["obs"]]
    yt = traj_true[:, idx]
    rr = random.Random(noise_seed)
    out = {}
    positive = bool(np.min(yt) > 0.05)
    for cls in classes_wanted:
        if cls in NEEDS_POSITIVE and not positive:
            continue
        if data_kind == "truth" and cls not in COUNT:
            out[cls] = yt.copy()
            continue
        noise = np.array([[rr.uniform(-0.25, 0.25) for _ in range(yt.shape[1])] for _ in range(yt.shape[0])])
        if cls in COUNT:
            scale = 1.0
            y = np.rint(np.abs(yt) * (1 + noise) * scale + np.array([[rr.choice([0, 0, 1]) for _ in range(yt.shape[1])] for _ in range(yt.shape[0])]))
            out[cls] = np.maximum(y, 0.0)
        elif cls == "Gamma":
            out[cls] = np.abs(yt) * (1 + noise) + 0.01
        else:
            out[cls] = yt * (1 + noise) + 0.1 * noise
    return out


def loss_class(cls):
    import pygom
    return getattr(pygom, cls + "Loss")


def make_loss(cls, theta0, model, x0, t0, times, y, obs, weights, spread, tp=None, ts=None, style=0):
    """the real loss object.  `weights`/`spread` are (kind, value) pairs; style varies equivalent call forms"""
    kw = {}
    if weights[0] != "none":
        kw["state_weight"] = weights[1] if style % 2 == 0 or not isinstance(weights[1], list) else np.array(weights[1], float)
    if cls in SPREAD_KW and spread[0] != "default":
        kw[SPREAD_KW[cls]] = spread[1]
    if tp is not None:
        kw["target_param"] = list(tp)
    if ts is not None:
        kw["target_state"] = list(ts)
    n, p = y.shape
    yy = y[:, 0] if (p == 1 and style % 3 != 1) else y
    state_name = obs[0] if (p == 1 and style % 5 < 2) else list(obs)
    return loss_class(cls)(theta0, model, list(x0), t0, np.array(times, float), np.array(yy, float), state_name, **kw)


def set_params(model, params, theta):
    """bind the full parameter vector by name (pairs)"""
    model.parameters = [(str(k), float(v)) for k, v in zip(params, theta)]


def rel_close(a, b, rel, abs_):
    a = np.asarray(a, float); b = np.asarray(b, float)
    if a.shape != b.shape:
        return False
    return bool(np.all(np.abs(a - b) <= abs_ + rel * np.maximum(np.abs(a), np.abs(b))))


# =========================================================================== round c (additive; nothing above is changed)
# TIME-DEPENDENT catalogue: models in which one parameter acts only during a WINDOW of time (its column of the gradient
# matrix d f / d theta is exactly zero outside the window), a parameter multiplying a state that is exactly zero until a
# threshold time, a parameter that only matters after a threshold time, a linear model with windowed forcing, a model
# with a state that never changes.  Built through the public API (SimulateOde + Transition with `t` in the equation);
# the oracle's right-hand side is hand-written below (plain Python floats; no sympy, no pygom).
#
# The window shape PHI(t) is exactly zero outside (a, b).  Only the time points a, b (and a + r, b - r for the
# trapezoid) are non-smooth and they do not depend on any parameter, so the solution is a smooth function of the
# parameters and of the initial values for every fixed t: finite differences IN THE PARAMETERS are as good as for an
# autonomous model.  The reference integrates piecewise between the non-smooth time points (`ref_traj_td`), so every
# piece is smooth and the 1e-12 tolerance of DOP853 means what it says.

TD_SHAPES = {
    # name: (sympy text with {a} {b} {c} {h} {r},  python phi(t, a, b),  non-smooth points,  continuity class)
    "bump": ("Max(0, 1 - ((t - {c})/{h})**2)",
             lambda t, a, b: max(0.0, 1.0 - ((t - 0.5 * (a + b)) / (0.5 * (b - a))) ** 2), lambda a, b: [a, b], "C0"),
    "bump-squared": ("Max(0, 1 - ((t - {c})/{h})**2)**2",
                     lambda t, a, b: max(0.0, 1.0 - ((t - 0.5 * (a + b)) / (0.5 * (b - a))) ** 2) ** 2, lambda a, b: [a, b], "C1"),
    "box": ("Piecewise((1, (t > {a}) & (t < {b})), (0, True))",
            lambda t, a, b: 1.0 if a < t < b else 0.0, lambda a, b: [a, b], "jump"),
    "heaviside": ("(Heaviside(t - {a}) - Heaviside(t - {b}))",
                  lambda t, a, b: 1.0 if a < t < b else 0.0, lambda a, b: [a, b], "jump"),
    "trapezoid": ("Max(0, Min(1, (t - {a})/{r}, ({b} - t)/{r}))",
                  lambda t, a, b: max(0.0, min(1.0, (t - a) / (0.25 * (b - a)), (b - t) / (0.25 * (b - a)))),
                  lambda a, b: [a, a + 0.25 * (b - a), b - 0.25 * (b - a), b], "C0"),
    "late-ramp": ("Max(0, t - {a})", lambda t, a, b: max(0.0, t - a), lambda a, b: [a], "C0"),        # zero until a, never closes
    "late-step": ("Heaviside(t - {a})", lambda t, a, b: 1.0 if t > a else 0.0, lambda a, b: [a], "jump"),
    "early": ("Max(0, 1 - t/{b})", lambda t, a, b: max(0.0, 1.0 - t / b), lambda a, b: [b], "C0"),      # acts from t0 until b only
}
TD_AUTONOMOUS = "none"          # shape name of the models without time dependence


def _td_rhs_import(phi):
    return lambda t, x, th: [-th[0] * x[0] * x[1] / 10.0 - th[2] * x[0] * phi(t),
                             th[0] * x[0] * x[1] / 10.0 + th[2] * x[0] * phi(t) - th[1] * x[1], th[1] * x[1]]


def _td_rhs_lockdown(phi):
    return lambda t, x, th: [-th[0] * (1.0 - th[2] * phi(t)) * x[0] * x[1] / 10.0,
                             th[0] * (1.0 - th[2] * phi(t)) * x[0] * x[1] / 10.0 - th[1] * x[1], th[1] * x[1]]


def _td_rhs_campaign(phi):
    return lambda t, x, th: [-th[0] * x[0] * x[1] / 10.0 - th[2] * x[0] * phi(t), th[0] * x[0] * x[1] / 10.0 - th[1] * x[1],
                             th[1] * x[1], th[2] * x[0] * phi(t)]


def _td_rhs_dosing(phi):
    return lambda t, x, th: [th[2] * phi(t) - th[0] * x[0], th[0] * x[0] - th[1] * x[1]]


def _td_rhs_seeded(phi):
    return lambda t, x, th: [-th[0] * x[0] * x[1] / 10.0 - th[2] * x[2] * x[0],
                             th[0] * x[0] * x[1] / 10.0 + th[2] * x[2] * x[0] - th[1] * x[1], 0.5 * phi(t)]


def _td_rhs_constN(phi):
    return lambda t, x, th: [-th[0] * x[0] * x[1] / x[3], th[0] * x[0] * x[1] / x[3] - th[1] * x[1], th[1] * x[1], 0.0]


# transitions: (type, origin, destination, equation) with PHI standing for the window shape
TD_CATALOGUE = {
    # external force of infection during a window: d f / d imp = -+ S PHI(t), zero outside the window
    "SIR_import": dict(states=["S", "I", "R"], params=["beta", "gamma", "imp"], windowed="imp",
                       transitions=[("T", "S", "I", "beta*S*I/10"), ("T", "S", "I", "imp*S*PHI"), ("T", "I", "R", "gamma*I")],
                       rhs=_td_rhs_import, theta=[(0.3, 0.9), (0.1, 0.4), (0.02, 0.2)],
                       x0=[(6.0, 9.0), (0.5, 2.0), (0.2, 1.0)], T=(6.0, 12.0), positive=True),
    # lock-down: the contact rate is reduced by the fraction `red` during the window
    "SIR_lockdown": dict(states=["S", "I", "R"], params=["beta", "gamma", "red"], windowed="red",
                         transitions=[("T", "S", "I", "beta*(1 - red*PHI)*S*I/10"), ("T", "I", "R", "gamma*I")],
                         rhs=_td_rhs_lockdown, theta=[(0.4, 1.0), (0.1, 0.4), (0.2, 0.8)],
                         x0=[(6.0, 9.0), (0.5, 2.0), (0.2, 1.0)], T=(6.0, 12.0), positive=True),
    # vaccination campaign into a fourth compartment (4 states)
    "SIRV_campaign": dict(states=["S", "I", "R", "V"], params=["beta", "gamma", "nu"], windowed="nu",
                          transitions=[("T", "S", "I", "beta*S*I/10"), ("T", "I", "R", "gamma*I"), ("T", "S", "V", "nu*S*PHI")],
                          rhs=_td_rhs_campaign, theta=[(0.4, 1.0), (0.1, 0.4), (0.05, 0.4)],
                          x0=[(6.0, 9.0), (0.5, 2.0), (0.2, 1.0), (0.1, 0.5)], T=(6.0, 12.0), positive=True),
    # LINEAR two-compartment chain with a dose given during the window (constant Jacobian, no second derivatives)
    "dosing_chain": dict(states=["A", "B"], params=["ka", "ke", "dose"], windowed="dose",
                         transitions=[("B", "A", None, "dose*PHI"), ("T", "A", "B", "ka*A"), ("D", "B", None, "ke*B")],
                         rhs=_td_rhs_dosing, theta=[(0.3, 1.0), (0.1, 0.5), (0.5, 3.0)],
                         x0=[(1.0, 4.0), (0.5, 2.0)], T=(5.0, 10.0), positive=True),
    # kappa multiplies the state W, which is EXACTLY zero until the window opens (and constant after it closes):
    # d f / d kappa = -+ W S vanishes on the first part of the trajectory
    "SIW_seeded": dict(states=["S", "I", "W"], params=["beta", "gamma", "kappa"], windowed="kappa",
                       transitions=[("T", "S", "I", "beta*S*I/10 + kappa*W*S"), ("D", "I", None, "gamma*I"), ("B", "W", None, "0.5*PHI")],
                       rhs=_td_rhs_seeded, theta=[(0.3, 0.9), (0.1, 0.4), (0.02, 0.15)],
                       x0=[(6.0, 9.0), (0.5, 2.0), (0.0, 0.0)], T=(6.0, 12.0), positive=False),
    # autonomous, with a declared state that never changes (its sensitivities in every parameter are exactly zero)
    "SIR_constN": dict(states=["S", "I", "R", "N"], params=["beta", "gamma"], windowed=None,
                       transitions=[("T", "S", "I", "beta*S*I/N"), ("T", "I", "R", "gamma*I")],
                       rhs=_td_rhs_constN, theta=[(0.3, 0.9), (0.1, 0.4)],
                       x0=[(6.0, 9.0), (0.5, 2.0), (0.2, 1.0), (8.0, 12.0)], T=(4.0, 12.0), positive=True),
}


def td_phi(shape, win):
    """python window function t -> float for the shape name and window [a, b]"""
    if shape == TD_AUTONOMOUS:
        return lambda t: 0.0
    f = TD_SHAPES[shape][1]
    a, b = float(win[0]), float(win[1])
    return lambda t: f(t, a, b)


def td_breaks(shape, win):
    if shape == TD_AUTONOMOUS:
        return []
    return [float(v) for v in TD_SHAPES[shape][2](float(win[0]), float(win[1]))]


def td_shape_text(shape, win):
    a, b = float(win[0]), float(win[1])
    return TD_SHAPES[shape][0].format(a=repr(a), b=repr(b), c=repr(0.5 * (a + b)), h=repr(0.5 * (b - a)), r=repr(0.25 * (b - a)))


def gen_setup_td(rng, name=None, shape=None, n_times=None, obs=None):
    """like gen_setup, for the time-dependent catalogue: model = {"src": "td", "name", "shape", "win": [a, b]}.
    At least one observation time lies after the window has closed (resp. after the threshold time)."""
    r = rng
    name = name or r.choice(sorted(TD_CATALOGUE))
    c = TD_CATALOGUE[name]
    states, params = c["states"], c["params"]
    if c["windowed"] is None:
        shape = TD_AUTONOMOUS
    elif shape is None:
        shape = r.choice(sorted(TD_SHAPES))
    theta = [round(r.uniform(*b), 4) for b in c["theta"]]
    x0 = [round(r.uniform(*b), 4) for b in c["x0"]]
    T = round(r.uniform(*c["T"]), 3)
    a = round(T * r.uniform(0.1, 0.35), 3)
    b = round(T * r.uniform(0.5, 0.75), 3)
    n = n_times if n_times is not None else r.randint(3, 7)
    brk = td_breaks(shape, [a, b])
    times = None
    for _ in range(50):
        if n == 1:
            cand = [round(T * r.uniform(0.8, 1.0), 6)]
        elif r.random() < 0.5:
            cand = [round(T * (i + 1) / n, 6) for i in range(n)]
        else:
            cand = sorted(set(round(T * u, 6) for u in [r.uniform(0.05, 1.0) for _ in range(n - 1)] + [r.uniform(0.85, 1.0)]))
        if all(abs(t - k) > 1e-2 for t in cand for k in brk) and all(t2 - t1 > 1e-3 for t1, t2 in zip(cand, cand[1:])) and cand[-1] > b + 1e-2:
            times = cand
            break
    if times is None:
        times = [round(b + (T * 1.05 - b) * (i + 1) / n, 6) for i in range(n)]          # all after the window
    if obs is None:
        obs = r.sample(states, r.randint(1, len(states)))
    theta_eval = [round(v * r.uniform(0.8, 1.25), 4) for v in theta]
    x0_eval = [round(v * r.uniform(0.85, 1.2), 4) for v in x0]
    return {"model": {"src": "td", "name": name, "shape": shape, "win": [a, b]}, "states": list(states), "params": list(params),
            "theta_true": theta, "theta_eval": theta_eval, "x0": x0, "x0_eval": x0_eval, "t0": 0.0, "times": times,
            "grid": "td", "obs": list(obs)}


def build_td(m, backend="lambda"):
    """the real pygom model of a time-dependent catalogue entry (fresh object) and the oracle's right-hand side"""
    from .. import bootstrap
    bootstrap.init()
    from pygom import SimulateOde, Transition
    c = TD_CATALOGUE[m["name"]]
    text = "0" if m["shape"] == TD_AUTONOMOUS else td_shape_text(m["shape"], m["win"])
    trans, bd = [], []
    for tt, o, d, eq in c["transitions"]:
        eq = eq.replace("PHI", text)
        if tt == "T":
            trans.append(Transition(origin=o, destination=d, equation=eq, transition_type="T"))
        else:
            bd.append(Transition(origin=o, equation=eq, transition_type=tt))
    model = SimulateOde(list(c["states"]), list(c["params"]), transition=trans, birth_death=bd)
    if backend == "lambda":
        bootstrap.fast_backend(model)
    return model, c["rhs"](td_phi(m["shape"], m["win"]))


def build_model_any(setup, backend="lambda"):
    """build_model for every kind of setup (random / catalogue / td)"""
    if setup["model"]["src"] == "td":
        model, rhs = build_td(setup["model"], backend)
        return model, rhs, None
    return build_model(setup, backend)


def box_any(setup):
    m = setup["model"]
    if m["src"] == "td":
        return dict(lo=-1e-9, hi=100.0) if TD_CATALOGUE[m["name"]]["positive"] else dict(lo=None, hi=100.0)
    return box(setup)


def ref_traj_td(rhs, theta, x0, t0, times, breaks, lo=None, hi=1e3, max_evals=60000):
    """ref_traj for a right-hand side that is non-smooth in t at the time points `breaks` (which do not depend on the
    parameters): DOP853 at 1e-12 from one stop (observation time or break) to the next; inside a piece the time handed to
    the right-hand side is kept strictly inside the piece (one ulp), so that a jump AT a stop is seen from the side of
    the piece being integrated and every piece is smooth."""
    from scipy.integrate import solve_ivp
    th = [float(v) for v in theta]
    count = [0]
    times = [float(t) for t in times]
    stops = sorted(set(times) | set(b for b in breaks if float(t0) < b < max(times)))
    want = set(times)
    rows = {}
    cur_t, cur_x = float(t0), np.array(x0, float)
    if cur_t in want:
        rows[cur_t] = cur_x.copy()
    try:
        for t1 in stops:
            if t1 <= cur_t:
                continue
            lo_t, hi_t = np.nextafter(cur_t, np.inf), np.nextafter(t1, -np.inf)

            def f(t, x):
                count[0] += 1
                if count[0] > max_evals:
                    raise _Budget()
                return rhs(min(max(t, lo_t), hi_t), x, th)
            sol = solve_ivp(f, (cur_t, t1), cur_x, method="DOP853", rtol=1e-12, atol=1e-12)
            if not sol.success:
                return None
            cur_t, cur_x = t1, sol.y[:, -1]
            if not np.all(np.isfinite(cur_x)) or np.max(np.abs(cur_x)) > hi or (lo is not None and np.min(cur_x) < lo):
                return None
            if t1 in want:
                rows[t1] = cur_x.copy()
    except (OverflowError, ZeroDivisionError, ValueError, FloatingPointError, _Budget):
        return None
    return np.array([rows[t] for t in times])


def ref_traj_any(setup, rhs, theta, x0, t0, times, **bx):
    m = setup["model"]
    if m["src"] == "td" and m["shape"] != TD_AUTONOMOUS:
        return ref_traj_td(rhs, theta, x0, t0, times, td_breaks(m["shape"], m["win"]), **bx)
    return ref_traj(rhs, theta, x0, t0, times, **bx)


def all_orders(names, k=None):
    """every ordered selection of k (default: all) of the names"""
    import itertools
    return [list(p) for p in itertools.permutations(names, len(names) if k is None else k)]


# =========================================================================== round d (additive; nothing above is changed except the
# three look-ups td_phi / td_breaks / td_shape_text, which now also know the smooth shapes below)
# (1) SMOOTH TIME DEPENDENCE (seasonal forcing, a smooth pulse) and SHIFTED CLOCKS: a loss object whose initial time t0 is not 0 on
#     a model whose rates depend on t.  The reference integrates in the real time, so a trajectory computed on an elapsed-time
#     clock "because the system is autonomous" (seeded change C06-d1) is off whenever the model is not autonomous and t0 != 0.
#     `shift_setup` moves t0, the observation times AND the window of a TD_CATALOGUE model by tau: the same problem at another place of
#     the time axis (the model text contains the shifted numbers, the oracle's phi gets the shifted window).
# (2) LARGE MODELS: num_state x num_param > 100 (staged progression chains with per-stage rates, a 4-patch SIR with coupling): what a
#     size-dependent switch to another algorithm (seeded change C07-d1: gradient() -> adjoint() beyond 100 forward sensitivities) needs.
# (3) SCALES: the catalogue's SIR at head counts (N = 1e6 .. 1e8, mass-action rate per person ~ 1e-9) - `fd_floor` tells the
#     finite-difference oracle of C07 not to use its absolute step floor (0.05) on a parameter of size 1e-9.

TD_SMOOTH_SHAPES = {
    # seasonal forcing with period P = b - a (phase a), in [0, 1]
    "seasonal": ("(1 + cos(2*pi*(t - {a})/{P}))/2", lambda t, a, b: 0.5 * (1.0 + math.cos(2.0 * math.pi * (t - a) / (b - a))), lambda a, b: [], "smooth"),
    # sin^2 with period 2 (b - a)
    "sine-squared": ("sin(pi*(t - {a})/{P})**2", lambda t, a, b: math.sin(math.pi * (t - a) / (b - a)) ** 2, lambda a, b: [], "smooth"),
    # a smooth, aperiodic pulse centred in the window (never exactly zero)
    "lorentz": ("1/(1 + ((t - {c})/{h})**2)", lambda t, a, b: 1.0 / (1.0 + ((t - 0.5 * (a + b)) / (0.5 * (b - a))) ** 2), lambda a, b: [], "smooth"),
}
TD_ALL_SHAPES = dict(TD_SHAPES, **TD_SMOOTH_SHAPES)
T0_SHIFTS = [0.37, -1.75, 2.5, 7.0, 17.3, 30.0, 30.25, -13.2, 52.3, -50.0, 365.25, 1234.56, -400.6]


def td_phi(shape, win):      # noqa: F811  (extends the definition above: same behaviour for the shapes it knew)
    if shape == TD_AUTONOMOUS:
        return lambda t: 0.0
    f = TD_ALL_SHAPES[shape][1]
    a, b = float(win[0]), float(win[1])
    return lambda t: f(t, a, b)


def td_breaks(shape, win):      # noqa: F811
    if shape == TD_AUTONOMOUS:
        return []
    return [float(v) for v in TD_ALL_SHAPES[shape][2](float(win[0]), float(win[1]))]


def td_shape_text(shape, win):      # noqa: F811
    a, b = float(win[0]), float(win[1])
    return TD_ALL_SHAPES[shape][0].format(a=repr(a), b=repr(b), c=repr(0.5 * (a + b)), h=repr(0.5 * (b - a)), r=repr(0.25 * (b - a)), P=repr(b - a))


def shift_setup(s, tau):
    """the same problem moved by tau on the time axis: t0, observation times and (TD_CATALOGUE models) the window"""
    tau = float(tau)
    s["t0"] = float(s["t0"]) + tau
    s["times"] = [float(v) + tau for v in s["times"]]
    if s["model"]["src"] == "td":
        s["model"] = dict(s["model"], win=[float(s["model"]["win"][0]) + tau, float(s["model"]["win"][1]) + tau])
    s["shift"] = tau
    return s


def gen_setup_td_shifted(rng, name=None, shape=None, tau=None, smooth_share=0.5):
    """a time-dependent catalogue model (window shapes and smooth shapes; not `early`, whose text assumes t0 = 0) with the clock moved"""
    if shape is None:
        shape = rng.choice(sorted(TD_SMOOTH_SHAPES)) if rng.random() < smooth_share else rng.choice([k for k in sorted(TD_SHAPES) if k != "early"])
    if name is None:
        name = rng.choice([k for k in sorted(TD_CATALOGUE) if TD_CATALOGUE[k]["windowed"] is not None])
    s = gen_setup_td(rng, name=name, shape=shape)
    return shift_setup(s, rng.choice(T0_SHIFTS) if tau is None else tau)


# ---- large models ---------------------------------------------------------------------------------------------------------------

def _chain_rhs(n, rate_of, extra=None):
    """staged progression X0 -> X1 -> ... -> X(n-1); rate_of(i, th) = rate of the transition out of stage i"""
    def rhs(t, x, th):
        out = [0.0] * n
        for i in range(n - 1):
            fl = rate_of(i, th) * x[i]
            out[i] -= fl
            out[i + 1] += fl
        if extra is not None:
            extra(t, x, th, out)
        return out
    return rhs


def _chain_bd_extra(t, x, th, out):
    # th = k0..k8, mu, b : death at rate mu from every stage, constant inflow b into the first
    for i in range(10):
        out[i] -= th[9] * x[i]
    out[0] += th[10]


def _patch_rhs(t, x, th):
    # 4 patches, states S0 I0 R0 S1 I1 R1 ...; th = beta0..beta3, gamma0..gamma3, c
    out = [0.0] * 12
    tot = x[1] + x[4] + x[7] + x[10]
    for i in range(4):
        S, I = x[3 * i], x[3 * i + 1]
        inf = th[i] * S * (I + th[8] * (tot - I)) / 10.0
        out[3 * i] = -inf
        out[3 * i + 1] = inf - th[4 + i] * I
        out[3 * i + 2] = th[4 + i] * I
    return out


def _large_catalogue():
    cat = {}
    # 11 stages x 10 per-stage rates = 110 forward sensitivities
    n = 11
    cat["chain11x10"] = dict(states=["X%d" % i for i in range(n)], params=["k%d" % i for i in range(n - 1)],
                             transitions=[("T", "X%d" % i, "X%d" % (i + 1), "k%d*X%d" % (i, i)) for i in range(n - 1)],
                             rhs=_chain_rhs(n, lambda i, th: th[i]), theta=[(0.8, 1.7)] * (n - 1), x0=[(30.0, 60.0)] + [(0.5, 2.0)] * (n - 1), T=(4.0, 9.0))
    # 12 stages x 9 rates (the last transitions share one rate) = 108
    n = 12
    cat["chain12x9"] = dict(states=["Y%d" % i for i in range(n)], params=["r%d" % i for i in range(8)] + ["rc"],
                            transitions=[("T", "Y%d" % i, "Y%d" % (i + 1), "%s*Y%d" % ("r%d" % i if i < 8 else "rc", i)) for i in range(n - 1)],
                            rhs=_chain_rhs(n, lambda i, th: th[i] if i < 8 else th[8]), theta=[(0.8, 1.7)] * 9, x0=[(30.0, 60.0)] + [(0.5, 2.0)] * (n - 1), T=(4.0, 9.0))
    # 14 stages x 8 rates (rate of stage i is q[i mod 8]) = 112
    n = 14
    cat["chain14x8"] = dict(states=["Z%d" % i for i in range(n)], params=["q%d" % i for i in range(8)],
                            transitions=[("T", "Z%d" % i, "Z%d" % (i + 1), "q%d*Z%d" % (i % 8, i)) for i in range(n - 1)],
                            rhs=_chain_rhs(n, lambda i, th: th[i % 8]), theta=[(0.8, 1.7)] * 8, x0=[(30.0, 60.0)] + [(0.5, 2.0)] * (n - 1), T=(5.0, 10.0))
    # 10 stages x 11 parameters (9 rates, death rate, inflow) = 110
    n = 10
    cat["chain10x11"] = dict(states=["W%d" % i for i in range(n)], params=["k%d" % i for i in range(9)] + ["mu", "b"],
                             transitions=[("T", "W%d" % i, "W%d" % (i + 1), "k%d*W%d" % (i, i)) for i in range(n - 1)] +
                                         [("D", "W%d" % i, None, "mu*W%d" % i) for i in range(n)] + [("B", "W0", None, "b")],
                             rhs=_chain_rhs(n, lambda i, th: th[i], _chain_bd_extra), theta=[(0.8, 1.7)] * 9 + [(0.05, 0.2), (1.0, 4.0)],
                             x0=[(30.0, 60.0)] + [(0.5, 2.0)] * (n - 1), T=(4.0, 8.0))
    # 4-patch SIR with coupling: 12 states x 9 parameters = 108
    st = [v + str(i) for i in range(4) for v in ("S", "I", "R")]
    tot = "(I0 + I1 + I2 + I3)"
    tr = []
    for i in range(4):
        tr.append(("T", "S%d" % i, "I%d" % i, "beta%d*S%d*(I%d + c*(%s - I%d))/10" % (i, i, i, tot, i)))
        tr.append(("T", "I%d" % i, "R%d" % i, "gamma%d*I%d" % (i, i)))
    cat["patchSIR4"] = dict(states=st, params=["beta%d" % i for i in range(4)] + ["gamma%d" % i for i in range(4)] + ["c"], transitions=tr,
                            rhs=_patch_rhs, theta=[(0.4, 1.0)] * 4 + [(0.1, 0.4)] * 4 + [(0.05, 0.3)],
                            x0=[(6.0, 9.0), (0.5, 2.0), (0.2, 1.0)] * 4, T=(4.0, 9.0))
    return cat


LARGE_CATALOGUE = _large_catalogue()

# ---- scales: head counts ---------------------------------------------------------------------------------------------------------
SCALED_CATALOGUE = {
    # pygom.common_models.SIR: beta S I / N with head counts
    "SIR:N=1e6": dict(fn="SIR", states=["S", "I", "R"], params=["beta", "gamma", "N"], rhs=CATALOGUE["SIR"]["rhs"],
                      theta=[(0.3, 0.9), (0.1, 0.4), (1e6, 1e6)], x0=[(9.0e5, 9.9e5), (1.0e3, 2.0e4), (1.0e2, 1.0e4)], T=(6.0, 14.0), hi=1e8),
    "SIR:N=1e8": dict(fn="SIR", states=["S", "I", "R"], params=["beta", "gamma", "N"], rhs=CATALOGUE["SIR"]["rhs"],
                      theta=[(0.3, 0.9), (0.1, 0.4), (1e8, 1e8)], x0=[(9.0e7, 9.9e7), (1.0e5, 2.0e6), (1.0e4, 1.0e6)], T=(6.0, 14.0), hi=1e10),
    # pygom.common_models.SIR_norm on head counts: beta is the mass-action rate per person, ~ 5e-9
    "SIR_norm:beta=5e-9": dict(fn="SIR_norm", states=["S", "I", "R"], params=["beta", "gamma"],
                               rhs=lambda t, x, th: [-th[0] * x[0] * x[1], th[0] * x[0] * x[1] - th[1] * x[1], th[1] * x[1]],
                               theta=[(3e-9, 9e-9), (0.1, 0.4)], x0=[(9.0e7, 9.9e7), (1.0e5, 2.0e6), (1.0e4, 1.0e6)], T=(6.0, 14.0), hi=1e10),
}


def _round_sig(v, k=5):
    return float("%.*g" % (k, v))


def _times(r, T, n):
    if r.random() < 0.5:
        return [round(T * (i + 1) / n, 6) for i in range(n)], "uniform"
    times = []
    for c_ in sorted(r.uniform(0.05, 1.0) for _ in range(n)):
        v = round(T * c_, 6)
        if not times or v > times[-1] + 1e-3:
            times.append(v)
    return times, "non-uniform"


def gen_setup_large(rng, name=None, max_obs=3):
    """a LARGE_CATALOGUE model (num_state x num_param > 100) + theta + x0 + grid + observed states"""
    r = rng
    name = name or r.choice(sorted(LARGE_CATALOGUE))
    c = LARGE_CATALOGUE[name]
    states, params = c["states"], c["params"]
    theta = [round(r.uniform(*b), 4) for b in c["theta"]]
    x0 = [round(r.uniform(*b), 4) for b in c["x0"]]
    T = r.uniform(*c["T"])
    times, grid = _times(r, T, r.randint(4, 8))
    obs = r.sample(states, r.randint(1, max_obs))
    return {"model": {"src": "large", "name": name}, "states": list(states), "params": list(params), "theta_true": theta,
            "theta_eval": [round(v * r.uniform(0.8, 1.25), 4) for v in theta], "x0": x0, "x0_eval": [round(v * r.uniform(0.85, 1.2), 4) for v in x0],
            "t0": 0.0, "times": times, "grid": grid, "obs": obs}


def gen_setup_scaled(rng, name=None, max_obs=3):
    """a SCALED_CATALOGUE model (head counts); `fd_floor` = 0: finite-difference steps are relative to the variable"""
    r = rng
    name = name or r.choice(sorted(SCALED_CATALOGUE))
    c = SCALED_CATALOGUE[name]
    states, params = c["states"], c["params"]
    theta = [_round_sig(r.uniform(*b)) for b in c["theta"]]
    x0 = [_round_sig(r.uniform(*b)) for b in c["x0"]]
    T = r.uniform(*c["T"])
    times, grid = _times(r, T, r.randint(3, 7))
    obs = r.sample(states, r.randint(1, max_obs))
    fixed = [k for k, b in zip(params, c["theta"]) if b[0] == b[1]]        # N is a constant of the model, not a free variable
    return {"model": {"src": "scaled", "name": name}, "states": list(states), "params": list(params), "theta_true": theta,
            "theta_eval": [v if k in fixed else _round_sig(v * r.uniform(0.8, 1.25)) for k, v in zip(params, theta)], "x0": x0,
            "x0_eval": [_round_sig(v * r.uniform(0.85, 1.2)) for v in x0], "t0": 0.0, "times": times, "grid": grid, "obs": obs, "fd_floor": 0.0,
            "fixed_params": fixed}


def build_large(m, backend="lambda"):
    from .. import bootstrap
    bootstrap.init()
    from pygom import SimulateOde, Transition
    c = LARGE_CATALOGUE[m["name"]]
    trans, bd = [], []
    for tt, o, d, eq in c["transitions"]:
        if tt == "T":
            trans.append(Transition(origin=o, destination=d, equation=eq, transition_type="T"))
        else:
            bd.append(Transition(origin=o, equation=eq, transition_type=tt))
    model = SimulateOde(list(c["states"]), list(c["params"]), transition=trans, birth_death=bd)
    if backend == "lambda":
        bootstrap.fast_backend(model)
    return model, c["rhs"]


def build_scaled(m, backend="lambda"):
    from .. import bootstrap
    bootstrap.init()
    from pygom import common_models
    c = SCALED_CATALOGUE[m["name"]]
    model = getattr(common_models, c["fn"])()
    if backend == "lambda":
        bootstrap.fast_backend(model)
    return model, c["rhs"]


def build_model_any(setup, backend="lambda"):      # noqa: F811  (extends the definition above)
    src = setup["model"]["src"]
    if src == "td":
        model, rhs = build_td(setup["model"], backend)
        return model, rhs, None
    if src == "large":
        model, rhs = build_large(setup["model"], backend)
        return model, rhs, None
    if src == "scaled":
        model, rhs = build_scaled(setup["model"], backend)
        return model, rhs, None
    return build_model(setup, backend)


def box_any(setup):      # noqa: F811
    m = setup["model"]
    if m["src"] == "td":
        return dict(lo=-1e-9, hi=100.0) if TD_CATALOGUE[m["name"]]["positive"] else dict(lo=None, hi=100.0)
    if m["src"] == "large":
        return dict(lo=-1e-9, hi=200.0)
    if m["src"] == "scaled":
        return dict(lo=-1e-3, hi=SCALED_CATALOGUE[m["name"]]["hi"])
    return box(setup)


def ref_traj_any(setup, rhs, theta, x0, t0, times, **bx):      # noqa: F811
    m = setup["model"]
    if m["src"] == "td" and m["shape"] != TD_AUTONOMOUS and td_breaks(m["shape"], m["win"]):
        return ref_traj_td(rhs, theta, x0, t0, times, td_breaks(m["shape"], m["win"]), **bx)
    if m["src"] == "large":
        bx = dict(bx, max_evals=bx.get("max_evals", 120000))
    return ref_traj(rhs, theta, x0, t0, times, **bx)


def scipy_lsoda_off(rhs, theta, x0, t0, times, ref_tr, tol=1e-8):
    """is scipy's own lsoda (scipy.integrate.ode, pygom's tolerances 1e-10, the oracle's right-hand side, NO pygom) off the DOP853
    reference by more than tol (1 + |ref|) on this instance, or does it refuse?  Asked only when a wrong value is about to be
    reported.  Observed: far from the time origin scipy's integrators now and then are silently wrong on one particular step (see
    C02); a right-hand side that is exactly zero at x0 until a time window opens (zero initial state, zero rate) lets lsoda grow its
    step without bound and stride over the whole window.  Where scipy itself is wrong the assumption 'the solver approximates the
    flow' fails on the instance and there is nothing to judge."""
    import warnings
    import scipy.integrate as si
    th = [float(v) for v in theta]
    try:
        with warnings.catch_warnings():
            warnings.simplefilter("ignore")
            r = si.ode(lambda t, x: rhs(t, x, th)).set_integrator("lsoda", nsteps=10000, atol=1e-10, rtol=1e-10)
            r.set_initial_value(np.array(x0, float), float(t0))
            rows = []
            for t in times:
                if float(t) != r.t:
                    r.integrate(float(t))
                    if not r.successful():
                        return True
                rows.append(np.array(r.y, float))
        a = np.array(rows)
        return bool(not np.all(np.isfinite(a)) or np.max(np.abs(a - ref_tr) / (1.0 + np.abs(ref_tr))) > tol)
    except Exception:
        return True
