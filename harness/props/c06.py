"""
C06 - cost is the stated loss of the model trajectory against the data  (PARTIAL: integrator accuracy assumed).

Proof side (Pygom/Props/C06.lean): the shape decision tree of `_setWeight_or_spread` (`broadcast_spec`,
`broadcast_accepts_iff`), column selection by state name in the order given (`solution_selection`), the
cost as the sum over observations and observed states of the per-entry kernel (`cost_is_loss`), zero
square cost at the truth (`square_cost_zero_at_truth`); the values a loss object holds over a history of calls
(`Held`, `step`, `outputs`: `unrollState_target`, `unrollState_other`, `earlier_outputs_unaffected`,
`atStored_reproduces`, `output_depends_on_held_values_only`).

Tie: (i) `BaseLoss._setWeight_or_spread`, `get_state_index` and `_setParam` against the Lean driver (`broadcast`,
`sensIndex`, `setParam`) exactly, on integer inputs, accepted and rejected shapes; (ii) DIRECT ORACLE, no Lean, no pygom
kernel/integrator/evaluator (see losscommon.py): `cost`, `residual`, `costIV` of the real loss objects
against scipy.stats log-densities / squared weighted residuals of an independent DOP853 (1e-12) trajectory
of the right-hand side the Lean driver assembled (random models) or a hand-written one (catalogue models);
(iii) HISTORY cases (losshist.py, same direct oracle): scripts of calls of all eleven entry points on one or two loss
objects, judged against the reference for the values the object currently holds - see the docstring there.
"""
import json
import random

import numpy as np

from .. import gen as gen_
from . import losscommon as LC
from . import losshist as LH

PROP = "C06"
LEAN = {"module": "Pygom.Props.C06",
        "required": ["Pygom.C06.broadcast_spec", "Pygom.C06.broadcast_accepts_iff", "Pygom.C06.solution_selection",
                     "Pygom.C06.theta_bound_by_name", "Pygom.C06.cost_is_loss", "Pygom.C06.square_cost_zero_at_truth",
                     "Pygom.C06.unrollState_target", "Pygom.C06.unrollState_other", "Pygom.C06.earlier_outputs_unaffected",
                     "Pygom.C06.atStored_reproduces", "Pygom.C06.output_depends_on_held_values_only",
                     "Pygom.C06.replicate_observations_same_prediction"]}
BUDGET = {"quick": {"cases": 1000, "broadcast": 50, "per_batch": 40, "history": 704, "clock": 160, "large": 12, "scaled": 24},
          "thorough": {"cases": 32000, "broadcast": 600, "per_batch": 60, "history": 7040, "clock": 3200, "large": 200, "scaled": 400}}
RULE = ("random bounded models (gen_model, autonomous, 2-4 states, 1-4 parameters, short horizons) and catalogue models "
        "(SIR, SEIR, Lotka_Volterra, FitzHugh); theta, x0, uniform / non-uniform grids of 3-7 observation times; 1-3 observed "
        "states in random order; five loss classes with default / scalar / per-state / per-observation / full-matrix spread; "
        "weights in every accepted shape; target_param subsets in any order, target_state subsets for costIV; observations = "
        "reference trajectory (zero at truth) or perturbed positive / integer-valued data; plus a stream of integer weight "
        "arguments in accepted and rejected shapes.  MODEL VARIANTS (dealt by weight 12:3:4:1): the above; time-dependent rates "
        "(periodic coefficients); right-hand sides at most first order in the states (c02.gen_affine_spec: linear chains, constant "
        "inflow, constant explicit ODE terms, time-dependent coefficients, symmetric and all-zero Jacobians; events only / explicit ODE "
        "terms only); one state.  BOUNDARY VALUES (10 % each): a parameter / an initial state that is exactly zero.  GRID VARIANTS "
        "(weights 8:5:3:2:2:1:1:2): plain; replicate observation times (1-3 times repeated, also the first and the last, also three "
        "times); the grid moved to t0 in {+-738000, +-1e4, +-1e6, -123456.5}; both; a horizon of t0 + 1e-3 / 1e-6 / 1e-9 of the "
        "normal one; two times one ulp apart; an observation at t0; a one-point grid - forms the unchanged pygom refuses with an error "
        "(IntegrationError for the zero-length first step, InputError from the constructor's trial integration, AssertionError for a "
        "one-point grid with several observed states) are tagged `unsupported:*`, every accepted form is judged; the variant is part of "
        "the violation signature (`:grid=repeated`).  REJECTED INPUTS (15 % of the cases): cost with theta one too long / short, costIV "
        "likewise, constructors with an unknown state name, one observation row too many, x0 one too short - a silent acceptance is "
        "a mismatch (`rejection-lost:*`), the next proper cost(theta) is judged (`cost-after-rejected-input`).  A loss case is non-trivial when the reference trajectory exists and at "
        "least one class was evaluated; a broadcast batch always is.  HISTORY cases (losshist.py): scripts of 6-14 operations on "
        "one or two loss objects - every ordered pair (e1 in cost / residual / costIV / residualIV, e2 in the eleven entry points "
        "cost residual diff_loss sensitivity gradient jac costIV residualIV diff_lossIV sensitivityIV jacIV) as 'e1 at (A,X); e2 at "
        "another theta and/or x0; e1 again; restore; e1 again; e1 with theta=None', random walks, the user re-assigning "
        "model.parameters between calls, two loss objects on one model object (the second built mid-script), two model instances "
        "with the same names, copy.deepcopy of a loss object; all four combinations of target_param / target_state; t0 != 0; "
        "theta as list / tuple / ndarray / numpy scalars; y, x0, t, weights, spread as float or int containers; 15 % of the scripts on a grid "
        "with replicate times, 15 % on a grid moved far from the time origin.  A history case "
        "is non-trivial when at least two calls were judged against the reference for the values the object currently holds.  "
        "ROUND D.  CLOCK cases (160 quick): models whose rates DEPEND ON t - losscommon.TD_CATALOGUE (SIR import / lock-down / vaccination "
        "campaign / dosing chain / seeded state) with a window shape or a SMOOTH shape (seasonal forcing (1 + cos(2 pi (t - a)/P))/2, sin^2, a "
        "Lorentz pulse), random models with periodic rates, first-order models with time-dependent coefficients (weights 6:3:2, 1 autonomous "
        "control) - on a loss object whose clock does not start at zero: `shifted` = t0, the observation times and the window moved by tau in "
        "{0.37, -1.75, 2.5, 7, 17.3, 30, 30.25, -13.2, 52.3, -50, 365.25, 1234.56, -400.6} (non-integer only for the random models, whose "
        "forcing has period 1), `shifted-repeated` (with replicate times), `far` (+-738000 .., smooth shapes only); cost, residual, costIV, "
        "all five classes, reference integrated in the real time (tags rates-depend-on-t:t0!=0, clock:t0=*).  A fifth of the HISTORY scripts "
        "run on such a model with a shifted clock (shared with C07).  LARGE models (12 quick; losscommon.LARGE_CATALOGUE, num_state x "
        "num_param = 104 .. 112) and HEAD-COUNT models (24 quick; SIR at N = 1e6 / 1e8, SIR_norm with beta = 5e-9), half of the latter and an "
        "eighth of the clock cases with weights / spreads of EXTREME but valid magnitude (weights x 1e-6 / 1e-3 / 1e4, sigma x 1e-3 / 1e4, "
        "Gamma shape and NegBinom k x 1e-2 / 1e3).  Tolerances are relative per entry: the absolute floor of the cost tolerance is "
        "min(1e-3, cost when the prediction is off by a thousandth), the residual is compared entry by entry relative to |w| (1 + |yhat|).")
ASSUMPTIONS = ["time-dependent models: a wrong cost / residual is reported only after scipy's own lsoda (oracle right-hand side, pygom's tolerances, no "
               "pygom) has been seen to be within 1e-8 (1+|ref|) of the reference on the instance - observed once: a right-hand side that is exactly "
               "zero at x0 until a dosing window opens (zero initial state and a zero rate) lets lsoda grow its step and stride over the window",
               "an IntegrationError raised by an evaluation is not judged when scipy's own lsoda (scipy.integrate.ode on the oracle's right-hand "
               "side, no pygom) fails on the same instance (observed: derivative exactly zero at x0, far negative t0, increments that are not "
               "representable): tagged unjudged:scipy-lsoda-refuses-this-instance; on grids far from the origin a wrong cost is reported only "
               "after scipy's own lsoda has been seen to be within 1e-8 (1+|ref|) of the reference on the instance",
               "observation grids the unchanged pygom / scipy refuse with an error are outside the property's domain and only tagged: a first "
               "observation at t0 and times one ulp apart (zero / sub-resolution step: lsoda 'illegal input'), a one-point grid with several "
               "observed states, replicate times when the constructor's trial integrate2 restarts a dopri5 integrator on the zero-length step or "
               "the right-hand side is identically zero; residual() turns a failed integration into an array of the largest float by design",
               "scipy's integrators (lsoda at rtol = atol = 1e-10 inside pygom) approximate the flow: validated per case against an "
               "independent DOP853 reference at 1e-12; tolerance = 1e-6 x (sum of absolute per-entry loss terms) + the change of the reference "
               "cost when the prediction moves by 1e-7 x (1 + |yhat|) (losscommon.cost_tolerance)",
               "with non-unit weights the Poisson, Gamma and NegBinom costs ignore the weights (the code as it is; C07 restricts "
               "the gradient identity accordingly)",
               "a (p,1)-shaped 2-D weight argument with p != 1 is outside the documented shapes (Lean lemma broadcast_column_quirk)",
               "trajectory rows are the flow at the observation times (C02 rows_correct), parameters are bound by name (C09): "
               "hypotheses of cost_is_loss",
               "the per-entry kernels are those of C14 (Gen/Kernels.lean); the array glue of the kernels is checked here end to end",
               "history cases: the Lean model takes cost / residual / costIV as pure functions of (theta, x0, data, layout); the loss object "
               "is read as holding the parameter values and initial values it was last given (constructor or any entry point), parameters "
               "outside target_param are the model object's current values, and building a loss object does not change the model's "
               "parameter values (specification state machine in losshist.py)"]
TRUSTED = ["harness generator and reference: scipy.integrate.solve_ivp(DOP853), scipy.stats log-densities",
           "right-hand side of the reference: Lean driver `assemble` output (C01) compiled by losscommon.compile_rhs; hand-written "
           "for catalogue models", "Lean driver JSON codec"]

SPREAD_RANGE = {"Normal": (0.3, 2.0), "Gamma": (1.0, 5.0), "NegBinom": (0.5, 5.0)}


# --------------------------------------------------------------------------- cases

# where the observation grid sits and what it looks like (applied to the setup of losscommon.gen_setup, which draws distinct
# times after t0 = 0): replicate observations, a grid far from the time origin (both signs), a horizon of t0 + tiny, neighbours one
# ulp apart, an observation at t0, a one-point grid.  What the unchanged pygom refuses (IntegrationError on a zero-length first
# step, the constructor's trial integration on a one-ulp step, a one-point grid with several observed states) is tagged, not judged.
GRID_VARIANTS = [("plain", 8), ("repeated", 5), ("far", 3), ("far-repeated", 2), ("tiny-horizon", 2), ("ulp", 1), ("at-t0", 1), ("one-point", 2)]
# round d - the CLOCK of the loss object: t0 != 0 (positive / negative / non-integer / large; not a whole number of periods of any
# forcing) combined with a model whose rates depend on t.  "shifted": t0 and the observation times (and the window of a time-dependent
# catalogue model) moved by tau; "shifted-repeated": the same with replicate observation times
CLOCK_GRID_VARIANTS = [("shifted", 8), ("shifted-repeated", 2), ("far", 2)]
CLOCK_MODEL_VARIANTS = [("td-catalogue", 6), ("time-dependent", 3), ("affine-time", 2), ("standard", 1)]
T0_FAR = [738000.0, -738000.0, 10000.0, -10000.0, 1.0e6, -123456.5, -1.0e6]
MODEL_VARIANTS = [("standard", 12), ("time-dependent", 3), ("affine", 4), ("one-state", 1)]
UNSUPPORTED = {"at-t0": ("IntegrationError", "InputError"), "ulp": ("IntegrationError", "InputError"), "one-point": ("AssertionError",),
               "repeated": ("InputError", "IntegrationError"), "far-repeated": ("InputError", "IntegrationError"),
               "shifted-repeated": ("InputError", "IntegrationError")}


def _custom_setup(r, kind, want_order):
    """the setup of losscommon.gen_setup for model families it does not draw: time-dependent rates, right-hand sides at most first
    order in the states (linear chains, constant inflow, constant explicit ODE terms, time-dependent coefficients), one state"""
    from .. import gen
    from . import c02 as C2
    if kind == "affine":
        spec, meta = C2.gen_affine_spec(r, r.choice(C2.AFFINE))
    elif kind == "affine-time":
        spec, meta = C2.gen_affine_spec(r, r.choice(["timecoef", "timecoef", "mixed"]))
    elif kind == "one-state":
        spec, meta = gen.gen_model(r, min_states=1, max_states=1, max_params=2, min_events=1, max_events=2, allow_time=r.random() < 0.3,
                                   max_mag=2, allow_range=False, allow_derived=False)
    else:
        spec, meta = gen.gen_model(r, min_states=2, max_states=4, max_params=4, min_events=1, max_events=4, allow_time=True, max_mag=2,
                                   types=(("T", 6), ("B", 1), ("D", 2)), kinds=[("linear", 3), ("mass", 3), ("saturating", 1), ("periodic", 4)])
    states, params = meta["states"], meta["params"]
    theta = [round(r.uniform(0.1, 0.7), 4) for _ in params]
    x0 = [round(r.uniform(1.0, 5.0), 4) for _ in states]
    T = r.uniform(0.5, 2.0)
    n = r.randint(3, 7)
    if r.random() < 0.5:
        times, grid = [round(T * (i + 1) / n, 6) for i in range(n)], "uniform"
    else:
        times, grid = [], "non-uniform"
        for c_ in sorted(r.uniform(0.05, 1.0) for _ in range(n)):
            v = round(T * c_, 6)
            if not times or v > times[-1] + 1e-3:
                times.append(v)
    obs = r.sample(states, r.randint(1, min(3, len(states))))
    if want_order == "ascending":
        obs = sorted(obs, key=states.index)
    elif want_order == "not-ascending" and len(obs) >= 2:
        obs = sorted(obs, key=states.index, reverse=True)
    return {"model": {"src": "random", "spec": spec, "meta": {"kinds": meta["kinds"]}}, "states": states, "params": params, "theta_true": theta,
            "theta_eval": [round(v * r.uniform(0.8, 1.25), 4) for v in theta], "x0": x0, "x0_eval": [round(v * r.uniform(0.85, 1.2), 4) for v in x0],
            "t0": 0.0, "times": times, "grid": grid, "obs": obs}


def scipy_lsoda_off(rhs, theta, x0, t0, times, ref_tr):
    """is scipy's own lsoda (scipy.integrate.ode, pygom's tolerances 1e-10, the oracle's right-hand side, no pygom) off the DOP853
    reference by more than 1e-8 (1 + |ref|) on this instance, or does it refuse?  Asked only when a wrong cost is about to be
    reported: far from the time origin scipy's integrators now and then are silently wrong on one particular step (see C02)."""
    import warnings
    import scipy.integrate as si
    th = [float(v) for v in theta]
    try:
        with warnings.catch_warnings():
            warnings.simplefilter("ignore")
            r = si.ode(lambda t, x: rhs(t, x, th)).set_integrator("lsoda", nsteps=10000, atol=1e-10, rtol=1e-10)
            r.set_initial_value(np.array(x0, float), float(t0))
            rows = []
            for t in times:
                if float(t) != r.t:
                    r.integrate(float(t))
                    if not r.successful():
                        return True
                rows.append(np.array(r.y, float))
        a = np.array(rows)
        return bool(not np.all(np.isfinite(a)) or np.max(np.abs(a - ref_tr) / (1.0 + np.abs(ref_tr))) > 1e-8)
    except Exception:
        return True


def scipy_lsoda_refuses(rhs, theta, x0, t0, times):
    """does scipy's own lsoda (scipy.integrate.ode, the tolerances pygom uses, the oracle's right-hand side - no pygom involved)
    fail on this instance?  The property assumes that the solver approximates the flow; where scipy itself gives up - observed:
    a right-hand side that is exactly zero at x0 together with a far negative t0 and increments that are not representable makes
    lsoda report 'illegal input' - pygom raises IntegrationError, rightly, and there is nothing to judge."""
    import warnings
    import scipy.integrate as si
    th = [float(v) for v in theta]
    try:
        with warnings.catch_warnings():
            warnings.simplefilter("ignore")
            r = si.ode(lambda t, x: rhs(t, x, th)).set_integrator("lsoda", nsteps=10000, atol=1e-10, rtol=1e-10)
            r.set_initial_value(np.array(x0, float), float(t0))
            for t in times:
                r.integrate(float(t))
                if not r.successful():
                    return True
    except Exception:
        return True
    return False


def _ulp_after(v):
    return float(np.nextafter(v, np.inf)) if abs(v) >= 1e-300 else 2.0 ** -60


def _apply_grid_variant(r, s, variant):
    if variant in ("shifted", "shifted-repeated"):
        # non-integer shifts for the random models (their periodic rates have period 1 or 2 pi / k: an integer t0 would be a whole number of periods)
        pool = LC.T0_SHIFTS if s["model"]["src"] == "td" else [v for v in LC.T0_SHIFTS if not float(v).is_integer()]
        LC.shift_setup(s, r.choice(pool))
    elif variant in ("far", "far-repeated") and s["model"]["src"] == "td":
        LC.shift_setup(s, r.choice(T0_FAR))
    times, t0 = list(s["times"]), float(s["t0"])
    if variant in ("far", "far-repeated") and s["model"]["src"] != "td":
        t0 = r.choice(T0_FAR)
        times = [t0 + v for v in times]
    if variant in ("repeated", "far-repeated", "shifted-repeated"):
        for _ in range(r.randint(1, 3)):
            j = r.randrange(len(times))
            times = times[:j + 1] + [times[j]] + times[j + 1:]
    elif variant == "tiny-horizon":
        c = r.choice([1e-3, 1e-6, 1e-9])
        times = [v * c for v in times]
    elif variant == "ulp":
        j = r.randrange(len(times))
        times = times[:j + 1] + [_ulp_after(times[j])] + times[j + 1:]
    elif variant == "at-t0":
        times = [t0] + times
    elif variant == "one-point":
        times = [r.choice(times)]
    s["times"], s["t0"], s["grid_variant"] = times, t0, variant
    return s


def _loss_case(r, want_order=None, model_variant=None, grid_variant=None, extreme=False):
    from .. import gen
    mv = model_variant or gen.wchoice(r, MODEL_VARIANTS)
    if mv == "td-catalogue":
        gv_ = grid_variant or gen.wchoice(r, CLOCK_GRID_VARIANTS)
        # far from the origin only with the smooth shapes (a jump of the rate at |t| = 1e6 is another question)
        s = LC.gen_setup_td_shifted(r, tau=0.0, smooth_share=1.0 if gv_ == "far" else 0.5)
        if want_order == "ascending":
            s["obs"] = sorted(s["obs"], key=s["states"].index)
        elif want_order == "not-ascending" and len(s["obs"]) >= 2:
            s["obs"] = sorted(s["obs"], key=s["states"].index, reverse=True)
        s["obs"] = s["obs"][:3]
        grid_variant = gv_
    elif mv == "large":
        s = LC.gen_setup_large(r)
    elif mv == "scaled":
        s = LC.gen_setup_scaled(r)
    else:
        s = LC.gen_setup(r, want_order=want_order) if mv == "standard" else _custom_setup(r, mv, want_order)
    s["model_variant"] = mv
    # boundary values: a parameter / an initial state that is exactly zero (data-generating and evaluated value alike)
    if r.random() < 0.1:
        k = r.randrange(len(s["params"]))
        s["theta_true"][k] = s["theta_eval"][k] = 0.0
    if r.random() < 0.1:
        k = r.randrange(len(s["states"]))
        s["x0"][k] = 0.0
        if r.random() < 0.5:
            s["x0_eval"][k] = 0.0
    s = _apply_grid_variant(r, s, grid_variant or gen.wchoice(r, GRID_VARIANTS))
    n, p = len(s["times"]), len(s["obs"])
    tp, ts = LC.gen_targets(r, s["params"], s["states"], p_tp=0.5, p_ts=0.35)
    if s.get("fixed_params") and tp is None:
        tp = [k for k in s["params"] if k not in s["fixed_params"]]
    spreads = {}
    for cls, (lo, hi) in SPREAD_RANGE.items():
        k, v = LC.gen_shaped(r, n, p, lo, hi, allow_none=False)
        if r.random() < 0.15:
            k, v = "default", None
        spreads[cls] = [k, v]
    w = LC.gen_shaped(r, n, p, 0.5, 2.0)
    if w[0] == "matrix" and r.random() < 0.3:       # some exact zeros (never all)
        w[1][r.randrange(n)][r.randrange(p)] = 0.0 if n * p > 1 else w[1][0][0]
    case = {"kind": "loss", "setup": s, "weights": list(w), "spreads": spreads, "target_param": tp, "target_state": ts,
            "data": r.choice(["truth", "perturbed", "perturbed"]), "noise_seed": r.getrandbits(32), "style": r.randrange(30),
            "unweighted_call": r.random() < 0.2, "rejected_inputs": r.random() < 0.15}
    if extreme:
        # weights / spreads of extreme but valid magnitude: weights of 1e-6 (head counts normalised in the loss) or 1e4, sigma of 1e-3 or 1e4,
        # Gamma shape / NegBinom dispersion of 1e-2 or 1e3
        scale_ = lambda v, c: (None if v is None else [scale_(x, c) for x in v] if isinstance(v, list) else float("%.6g" % (v * c)))
        cw = r.choice([1e-6, 1e-3, 1e4])
        if case["weights"][0] != "none":
            case["weights"][1] = scale_(case["weights"][1], cw)
        else:
            case["weights"] = ["scalar", cw]
        for cls_, c_ in (("Normal", r.choice([1e-3, 1e4])), ("Gamma", r.choice([1e-2, 1e3])), ("NegBinom", r.choice([1e-2, 1e3]))):
            if spreads[cls_][0] != "default":
                spreads[cls_][1] = scale_(spreads[cls_][1], c_)
        case["extreme"] = True
    return case


def _rand_x(r, n, p):
    """an integer weight argument, biased towards the interesting shapes"""
    z = lambda: r.randint(1, 9)
    c = r.random()
    if c < 0.12:
        return z()
    if c < 0.45:
        L = r.choice([1, p, n, p, n, r.randint(0, 6)])
        return [z() for _ in range(L)]
    a, b = r.choice([(n, p), (1, p), (1, 1), (p, 1), (n, 1), (p, n), (r.randint(1, 6), r.randint(0, 5)), (r.randint(1, 6), r.randint(1, 5))])
    return [[z() for _ in range(b)] for _ in range(a)]


def _broadcast_case(r, per_batch):
    items = []
    for _ in range(per_batch):
        n, p = r.randint(1, 5), r.randint(1, 4)
        if r.random() < 0.25:
            p = n
        items.append({"n": n, "p": p, "x": _rand_x(r, n, p)})
    return {"kind": "broadcast", "items": items}


def make_cases(rng, tier, budget):
    cases = []
    for i in range(budget["cases"]):
        r = random.Random(rng.getrandbits(64))
        cases.append(_loss_case(r, want_order=["ascending", "not-ascending", None][i % 3]))
    for i in range(budget["broadcast"]):
        r = random.Random(rng.getrandbits(64))
        cases.append(_broadcast_case(r, budget["per_batch"]))
    shift = 8 * rng.randrange(1000)                 # the systematic part (pairs of entry points) starts somewhere else for every seed
    for i in range(budget.get("history", 0)):
        r = random.Random(rng.getrandbits(64))
        cases.append(LH.gen_history(r, i + shift, HIST_JUDGED))
    # round d (drawn after everything above): the clock of the loss object x time-dependent models; large models; head counts
    for i in range(budget.get("clock", 0)):
        r = random.Random(rng.getrandbits(64))
        cases.append(_loss_case(r, want_order=["ascending", "not-ascending", None][i % 3], model_variant=gen_.wchoice(r, CLOCK_MODEL_VARIANTS),
                                grid_variant=gen_.wchoice(r, CLOCK_GRID_VARIANTS), extreme=i % 8 == 7))
    for i in range(budget.get("large", 0)):
        cases.append(_loss_case(random.Random(rng.getrandbits(64)), model_variant="large", grid_variant=["plain", "plain", "shifted", "repeated"][i % 4]))
    for i in range(budget.get("scaled", 0)):
        cases.append(_loss_case(random.Random(rng.getrandbits(64)), model_variant="scaled", grid_variant=["plain", "plain", "shifted", "repeated"][i % 4],
                                extreme=i % 2 == 1))
    return cases


def search_cases(rng, tier, budget):
    return ([_loss_case(random.Random(rng.getrandbits(64))) for _ in range(budget["cases"] * 2)] +
            [LH.gen_history(random.Random(rng.getrandbits(64)), i, HIST_JUDGED) for i in range(budget.get("history", 0) * 2)])


# --------------------------------------------------------------------------- broadcast stream

def shape_kind(n, p, x):
    """documented shapes of a weight / spread argument -> kind for LC.expand, 'quirk' for the (p,1) column,
    None for everything else (must be rejected)"""
    if not isinstance(x, list):
        return "scalar"
    if len(x) == 0 or not isinstance(x[0], list):
        L = len(x)
        if L == 1:
            return "scalar-list"
        if L == p and p != 1:
            return "per-state"
        if L == n and p == 1:
            return "per-obs"
        return None
    a, c = len(x), len(x[0])
    if (a, c) == (1, 1):
        return "row11"
    if (a, c) == (n, p):
        return "matrix"
    if a == 1 and c == p:
        return "row"
    if c == 1 and a == p and p != 1:
        return "quirk"
    return None


def run_broadcast(case):
    from .. import leanio
    from pygom.loss.base_loss import BaseLoss
    mism, viol, tags = [], [], []
    for it in case["items"]:
        n, p, x = it["n"], it["p"], it["x"]
        try:
            res = BaseLoss._setWeight_or_spread(None, n, p, x, True)
            a = np.asarray(res, float)
            if a.ndim == 1:
                a = a.reshape(-1, 1)
            py = {"ok": [[int(v) if float(v).is_integer() else float(v) for v in row] for row in a.tolist()]}
        except Exception as exc:
            msg = str(exc)
            site = ("observations" if "is not equal to the number of observations" in msg else
                    "states" if "to number of states" in msg else
                    "differs" if "differs from" in msg else
                    "broadcast" if "broadcast" in msg else "other")
            py = {"err": type(exc).__name__, "site": site}
        lr = leanio.driver().call({"op": "broadcast", "n": n, "p": p, "x": x})
        if "ok" in lr:
            lr = {"ok": [[int(v) for v in row] for row in lr["ok"]]}
        kind = shape_kind(n, p, x)
        tags.append("broadcast:%s:%s" % (kind or "other-shape", "ok" if "ok" in py else py["err"] + "/" + py["site"]))
        if py != lr:
            mism.append({"what": "broadcast", "detail": "n=%d p=%d x=%s python=%s lean=%s" % (n, p, x, py, lr)})
        # direct oracle: the documented meaning of the shape
        if kind == "quirk":
            continue
        if kind is None:
            if "ok" in py:
                viol.append({"what": "_setWeight_or_spread accepts an undocumented shape", "signature": "weights:accepts-bad-shape",
                             "detail": "n=%d p=%d x=%s -> %s" % (n, p, x, py)})
            continue
        exp = (LC.expand("scalar", x[0][0], n, p) if kind == "row11" else LC.expand(kind, x, n, p)).astype(int).tolist()
        if py.get("ok") != exp:
            viol.append({"what": "_setWeight_or_spread(%s) is not the documented n x p array" % kind, "signature": "weights:%s" % kind,
                         "detail": "n=%d p=%d x=%s python=%s expected=%s" % (n, p, x, py, exp)})
    return {"nontrivial": True, "mismatches": mism, "violations": viol, "tags": sorted(set(tags)),
            "sample": {"kind": "broadcast", "first": case["items"][0]}}


# --------------------------------------------------------------------------- loss cases

def sig(site, cls, setup, tp, wkind):
    p = len(setup["obs"])
    s = "%s:%s:%d-state%s-%s" % (site, cls, p, "s" if p > 1 else "", LC.order_class(setup["states"], setup["obs"]) if p > 1 else "single")
    if tp is not None:
        s += ":target_param"
    if wkind != "none":
        s += ":weights=" + wkind
    if setup.get("grid_variant", "plain") != "plain":
        s += ":grid=" + setup["grid_variant"]
    if setup["model"]["src"] in ("td", "large", "scaled"):
        s += ":model=" + {"td": "time-dependent", "large": "large", "scaled": "head-count"}[setup["model"]["src"]]
    return s


def cost_floor(cls, y, yhat, w, spread):
    """the absolute floor of the cost tolerance (losscommon.cost_tolerance adds rel x (floor + sum |terms|)): 1e-3 for costs of ordinary
    size; for costs that are small BY SCALE (weights of 1e-6 on head counts, a square cost at the truth) the size of the cost when the
    prediction is off by a thousandth - a floor of 1e-3 would hide every error there"""
    d = 1e-3 * (1.0 + np.abs(yhat))
    return float(min(1e-3, np.sum(np.abs(LC.ref_terms(cls, y, yhat + d, w, spread)))))


def cost_tol(cls, y, yhat, w, spread):
    return LC.cost_tolerance(cls, y, yhat, w, spread) - 1e-6 * (1e-3 - cost_floor(cls, y, yhat, w, spread))


def residual_close(res, exp, W, yhat):
    """|res - exp| <= 1e-6 max(|res|, |exp|) + |w| 1e-7 (1 + |yhat|) entry by entry (the residual is w (y - yhat); pygom integrates at 1e-10):
    relative to the weight, so that weights of 1e-6 (head counts normalised in the loss) do not hide an error"""
    res, exp = np.asarray(res, float), np.asarray(exp, float)
    if res.shape != exp.shape:
        return False
    return bool(np.all(np.abs(res - exp) <= 1e-6 * np.maximum(np.abs(res), np.abs(exp)) + 1e-7 * np.abs(W) * (1.0 + np.abs(yhat))))


def theta_arg(setup, tp, theta):
    if tp is None:
        return list(theta)
    return [theta[setup["params"].index(k)] for k in tp]


def run_loss(case):
    from .. import leanio
    s = case["setup"]
    mism, viol, tags = [], [], []
    model, rhs, err = LC.build_model_any(s)
    if err:
        return {"nontrivial": False, "mismatches": [{"what": "build", "detail": err}], "violations": [], "tags": ["build_error"]}
    states, params, obs = s["states"], s["params"], s["obs"]
    tp, ts = case["target_param"], case["target_state"]
    n, p = len(s["times"]), len(obs)
    if s["model"]["src"] in ("td", "large", "scaled"):
        tags += ["%s-model:%s" % (s["model"]["src"], s["model"]["name"])] + (["td-shape:" + s["model"]["shape"]] if s["model"]["src"] == "td" else [])
    if s.get("shift") is not None:
        tags.append("clock:t0=%s" % ("large" if abs(s["t0"]) >= 300 else "negative" if s["t0"] < 0 else "positive") + (":integer" if float(s["t0"]).is_integer() else ":non-integer"))
    timedep = s["model"]["src"] == "td" or s.get("model_variant") in ("time-dependent", "affine-time") or "periodic" in (s["model"].get("meta") or {}).get("kinds", [])
    if timedep:
        tags.append("rates-depend-on-t" + (":t0!=0" if s["t0"] != 0 else ":t0=0"))
    idx = [states.index(o) for o in obs]
    tags += ["src:" + s["model"]["src"] + (":" + s["model"]["name"] if s["model"]["src"] == "catalogue" else ""),
             "grid:" + s["grid"], "p=%d" % p, "order:" + (LC.order_class(states, obs) if p > 1 else "single"),
             "grid-variant:" + s.get("grid_variant", "plain"), "model-variant:" + s.get("model_variant", "standard"),
             "weights:" + case["weights"][0], "target_param:" + ("all" if tp is None else LC.order_class(params, tp) if len(tp) > 1 else "one"),
             "target_state:" + ("none" if ts is None else "subset"), "data:" + case["data"]] + (["extreme-weights-and-spreads"] if case.get("extreme") else [])

    # name -> column mapping, exactly, against the driver (public API)
    lr = leanio.driver().call({"op": "sensIndex", "states": states, "params": params, "obs": obs, "target_param": tp, "target_state": ts})
    py_idx = list(model.get_state_index(list(obs)))
    if lr.get("stateIndex") != py_idx:
        mism.append({"what": "get_state_index", "detail": "python %s lean %s" % (py_idx, lr.get("stateIndex"))})
    if py_idx != idx:
        viol.append({"what": "get_state_index(names) is not the position of each name in the state list", "signature": "state-index",
                     "detail": "names %s states %s -> %s" % (obs, states, py_idx)})

    # effective parameter vectors
    th_true = list(s["theta_true"])
    th_eval = list(th_true)
    for k in (tp if tp is not None else params):
        th_eval[params.index(k)] = s["theta_eval"][params.index(k)]
    x0_iv = list(s["x0"])
    for k in (ts if ts is not None else states):
        x0_iv[states.index(k)] = s["x0_eval"][states.index(k)]
    bx = LC.box_any(s)
    tr_true = LC.ref_traj_any(s, rhs, th_true, s["x0"], s["t0"], s["times"], **bx)
    tr_eval = LC.ref_traj_any(s, rhs, th_eval, s["x0"], s["t0"], s["times"], **bx)
    tr_iv = LC.ref_traj_any(s, rhs, th_eval, x0_iv, s["t0"], s["times"], **bx)
    if tr_true is None or tr_eval is None or tr_iv is None:
        tags.append("reference-failed-or-outside-box")
        return {"nontrivial": False, "mismatches": mism, "violations": viol, "tags": tags}
    data = LC.make_data(s, tr_true, LC.CLASSES, case["data"], case["noise_seed"])
    lowest = min(tr_true[:, idx].min(), tr_eval[:, idx].min(), tr_iv[:, idx].min())
    W = LC.expand(case["weights"][0], case["weights"][1], n, p)
    evaluated = 0
    margins = [0.0]
    checked_setparam = False
    gv = s.get("grid_variant", "plain")

    def unsupported(exc):
        """forms of the observation grid the unchanged pygom refuses with an error (tagged, not judged): an observation at t0
        (scipy's lsoda reports a zero-length first step as illegal input: IntegrationError), two times one ulp apart (the
        constructor's trial integrate2 fails: InputError), a one-point grid with several observed states (AssertionError on the
        weight shape); replicate times when the constructor's trial integrate2 (which re-chooses the integrator from the
        eigenvalues after every step) lands on dopri5 - a fresh dopri5 refuses the zero-length step: InputError from the
        constructor; with a right-hand side that is identically zero (a zero parameter) lsoda itself refuses the zero-length
        step: IntegrationError.  A form it accepts is judged like any other."""
        if type(exc).__name__ not in UNSUPPORTED.get(gv, ()):
            return False
        return gv != "one-point" or p >= 2

    def rejected_inputs(obj, cls, y, sg, check, th_arg, iv_arg):
        """inputs the unchanged pygom REJECTS (wrong lengths, unknown names).  The rejection is recorded (a silent acceptance is a
        mismatch with the specification, there is no right value to compare with); what is JUDGED is the next proper call: the
        object must not have been left in a state that makes cost(theta) wrong."""
        probes = [("cost:theta-too-long", lambda: obj.cost(list(th_arg) + [0.5])),
                  ("cost:theta-too-short", lambda: obj.cost(list(th_arg)[:-1])),
                  ("constructor:unknown-state-name", lambda: LC.loss_class(cls)(list(th_arg), model, list(s["x0"]), s["t0"], np.array(s["times"], float),
                                                                               np.array(y, float), list(obs[:-1]) + ["no_such_state"])),
                  ("constructor:y-one-row-too-many", lambda: LC.loss_class(cls)(list(th_arg), model, list(s["x0"]), s["t0"], np.array(s["times"], float),
                                                                                np.vstack([y, y[-1:]]), list(obs))),
                  ("constructor:x0-too-short", lambda: LC.loss_class(cls)(list(th_arg), model, list(s["x0"])[:-1], s["t0"], np.array(s["times"], float),
                                                                          np.array(y, float), list(obs)))]
        if iv_arg is not None and ts is None and tp is None:
            probes += [("costIV:too-long", lambda: obj.costIV(list(iv_arg) + [0.5])), ("costIV:too-short", lambda: obj.costIV(list(iv_arg)[:-1]))]
        for what, fn in probes:
            if what.startswith("constructor") and (tp is not None or ts is not None):
                continue
            try:
                fn()
                tags.append("rejected-input:%s:ACCEPTED" % what)
                mism.append({"what": "rejection-lost:" + what, "detail": "%sLoss accepts an input the specification (and the unchanged pygom) rejects; "
                             "obs=%s states=%s params=%s target_param=%s" % (cls, obs, states, params, tp)})
            except Exception as exc:
                tags.append("rejected-input:%s:raised:%s" % (what, type(exc).__name__))
            LC.set_params(model, params, th_true)
        c_after = obj.cost(th_arg)
        # (the object keeps the initial values it was last given: those of the costIV call above when there was one)
        check("cost-after-rejected-input", c_after, tr_eval if iv_arg is None else tr_iv, W, "cost(theta) after rejected inputs")
    from fractions import Fraction
    for cls in case.get("classes", LC.CLASSES):
        if cls not in data or (cls in LC.NEEDS_POSITIVE and lowest < 0.02):
            tags.append("skipped:%s:trajectory-not-positive" % cls)
            continue
        y = data[cls]
        spread = None
        skind = "none"
        if cls in LC.SPREAD_KW:
            skind, sval = case["spreads"][cls]
            default = {"Normal": 1.0, "Gamma": 2.0, "NegBinom": 1.0}[cls]
            spread = LC.expand(skind, sval if skind != "default" else default, n, p)
            tags.append("spread:%s:%s" % (cls, skind))
        wk = case["weights"][0]
        sg = lambda site: sig(site, cls, s, tp, wk)
        try:
            LC.set_params(model, params, th_true)
            obj = LC.make_loss(cls, theta_arg(s, tp, th_true), model, s["x0"], s["t0"], s["times"], y, obs,
                               case["weights"], case["spreads"].get(cls, ["default", None]), tp=tp, ts=ts, style=case["style"])
        except Exception as exc:
            if unsupported(exc):
                tags.append("unsupported:%s:constructor:%s" % (gv, type(exc).__name__))
                continue
            viol.append({"what": "%sLoss constructor raised %s: %s" % (cls, type(exc).__name__, str(exc)[:200]),
                         "signature": sg("constructor") + ":raises:" + type(exc).__name__, "detail": json.dumps(case)[:1500]})
            continue
        evaluated += 1
        if not checked_setparam:
            # theta -> (name, value) binding of _setParam, exactly, against the driver (private: compared when it exists)
            checked_setparam = True
            for extra in (0, 1):
                arg = [s["theta_eval"][params.index(k)] for k in (tp if tp is not None else params)] + [0.5] * extra
                lp = leanio.driver().call({"op": "setParam", "numParam": len(params), "target_param": tp,
                                           "theta": [str(Fraction(repr(v))) for v in arg]})
                try:
                    obj._setParam(arg)
                    th = obj._theta
                    py = ({"kind": "byName", "pairs": [[str(k), float(v)] for k, v in th.items()]} if isinstance(th, dict) else
                          {"kind": "positional", "theta": [float(v) for v in th]})
                except AttributeError:
                    tags.append("private-helper-missing:_setParam")
                    continue
                except Exception as exc:
                    py = {"err": type(exc).__name__}
                ll = dict(lp)
                if "pairs" in ll:
                    ll["pairs"] = [[k, float(Fraction(v))] for k, v in ll["pairs"]]
                if "theta" in ll:
                    ll["theta"] = [float(Fraction(v)) for v in ll["theta"]]
                tags.append("setParam:" + (py.get("kind") or py.get("err")))
                if ll != py:
                    mism.append({"what": "_setParam", "detail": "target_param=%s theta=%s python=%s lean=%s" % (tp, arg, py, ll)})

        def check(site, got, ref_tr, w_used, what):
            yhat = ref_tr[:, idx]
            ref = LC.ref_cost(cls, y, yhat, w_used, spread)
            tol = cost_tol(cls, y, yhat, w_used, spread)
            if np.isfinite(got):
                margins.append(abs(float(got) - ref) / tol)
            if not np.isfinite(got) or abs(float(got) - ref) > tol:
                th_x = [(th_, x_) for th_, x_, tr_ in ((th_true, s["x0"], tr_true), (th_eval, s["x0"], tr_eval), (th_eval, x0_iv, tr_iv)) if tr_ is ref_tr]
                if th_x and (gv in ("far", "far-repeated") or timedep) and scipy_lsoda_off(rhs, th_x[0][0], th_x[0][1], s["t0"], s["times"], ref_tr):
                    tags.append("unjudged:scipy-lsoda-inaccurate-on-this-instance")
                    return True
                viol.append({"what": "%s of %sLoss is not the %s loss of the reference trajectory" % (what, cls, cls), "signature": sg(site),
                             "detail": "got %r expected %r (tolerance %g) obs=%s states=%s target_param=%s" % (float(got), ref, tol, obs, states, tp)})
                return False
            return True

        try:
            c_true = obj.cost(theta_arg(s, tp, th_true))
            check("cost", c_true, tr_true, W, "cost(theta*)")
            if case["data"] == "truth" and cls == "Square":
                scale = float(((W * (1.0 + np.abs(y))) ** 2).sum())
                tags.append("zero-at-truth")
                if not (c_true <= 1e-10 * scale) and not (timedep and scipy_lsoda_off(rhs, th_true, s["x0"], s["t0"], s["times"], tr_true)):
                    viol.append({"what": "square cost at the data-generating parameters is not zero", "signature": sg("cost-at-truth"),
                                 "detail": "cost %r scale %r" % (float(c_true), scale)})
            c_eval = obj.cost(theta_arg(s, tp, th_eval))
            check("cost", c_eval, tr_eval, W, "cost(theta)")
            if case["unweighted_call"]:
                c_u = obj.cost(theta_arg(s, tp, th_eval), apply_weighting=False)
                check("cost-unweighted", c_u, tr_eval, np.ones((n, p)), "cost(theta, apply_weighting=False)")
            res = np.asarray(obj.residual(theta_arg(s, tp, th_eval)), float)
            exp = (y - tr_eval[:, idx]) * W
            if res.size == exp.size:
                res = res.reshape(exp.shape)
            if not residual_close(res, exp, W, tr_eval[:, idx]) and not (timedep and scipy_lsoda_off(rhs, th_eval, s["x0"], s["t0"], s["times"], tr_eval)):
                viol.append({"what": "residual(theta) of %sLoss is not (y - reference) * w" % cls, "signature": sg("residual"),
                             "detail": "got %s expected %s" % (np.asarray(res).tolist(), exp.tolist())})
            # costIV: theta followed by the (target) initial values
            arg = theta_arg(s, tp, th_eval) + [x0_iv[states.index(k)] for k in (ts if ts is not None else states)]
            ambiguous = (ts is None and tp is not None and len(arg) == len(params))
            if ambiguous:
                tags.append("costIV-skipped:length-equals-num_param")
            else:
                c_iv = obj.costIV(arg)
                check("costIV", c_iv, tr_iv, W, "costIV(theta, x0)")
            if case.get("rejected_inputs"):
                rejected_inputs(obj, cls, y, sg, check, theta_arg(s, tp, th_eval), None if ambiguous else arg)
        except Exception as exc:
            if unsupported(exc):
                tags.append("unsupported:%s:%s" % (gv, type(exc).__name__))
                continue
            if type(exc).__name__ == "IntegrationError" and any(scipy_lsoda_refuses(rhs, th_, x_, s["t0"], s["times"])
                                                                for th_, x_ in ((th_true, s["x0"]), (th_eval, s["x0"]), (th_eval, x0_iv))):
                tags.append("unjudged:scipy-lsoda-refuses-this-instance")
                continue
            viol.append({"what": "%sLoss evaluation raised %s: %s" % (cls, type(exc).__name__, str(exc)[:200]),
                         "signature": sg("cost") + ":raises:" + type(exc).__name__, "detail": json.dumps(case)[:1500]})
    return {"nontrivial": evaluated > 0, "mismatches": mism, "violations": viol, "tags": sorted(set(tags)),
            "sample": {"model": s["model"].get("name", "random"), "obs": obs, "states": states, "target_param": tp,
                       "weights": case["weights"][0], "times": s["times"], "worst_error_over_tolerance": max(margins)}}


# --------------------------------------------------------------------------- history cases (losshist.py)

HIST_JUDGED = ["cost", "residual", "costIV", "residualIV"]


def judge_history(ev):
    """cost / costIV / residual / residualIV against the reference FOR THE VALUES THE OBJECT CURRENTLY HOLDS.
    The Lean model (Loss.cost, cost_is_loss) is a pure function of (theta, x0, data, layout): after any history of
    calls the result may depend on nothing but the current values."""
    d, spec, fn = ev["d"], ev["spec"], ev["fn"]
    cls = spec["cls"]
    yhat = ev["ctx"].traj(ev["th"], ev["x0"])[:, d["idx"]]
    out = []
    if fn in ("cost", "costIV"):
        ref = LC.ref_cost(cls, d["y"], yhat, d["W"], d["spread"])
        tol = cost_tol(cls, d["y"], yhat, d["W"], d["spread"])
        got = ev["got"]
        if not np.isscalar(got) and np.size(got) != 1:
            return [{"what": "%s of %sLoss is not a number" % (fn, cls), "class": "not-scalar", "detail": repr(got)[:200]}]
        got = float(np.asarray(got, float).ravel()[0])
        if not np.isfinite(got) or abs(got - ref) > tol:
            out.append({"what": "%s of %sLoss is not the %s loss of the reference trajectory for the values the object holds" % (fn, cls, cls),
                        "detail": "got %r expected %r (tolerance %g)" % (got, ref, tol)})
    else:
        exp = (d["y"] - yhat) * d["W"]
        res = np.asarray(ev["got"], float)
        if res.size == exp.size:
            res = res.reshape(exp.shape)
        if not residual_close(res, exp, d["W"], yhat):
            out.append({"what": "%s of %sLoss is not (y - reference) * w for the values the object holds" % (fn, cls),
                        "detail": "got %s expected %s" % (np.asarray(res).tolist(), exp.tolist())})
    return out


def run_history(case):
    r = LH.execute(case, judge_history, HIST_JUDGED)
    r["sample"] = {"kind": "history", "family": case["family"], "ops": [(o.get("fn") or o["op"]) for o in case["ops"]]}
    return r


def run_case(case):
    if case["kind"] == "broadcast":
        return run_broadcast(case)
    if case["kind"] == "history":
        return run_history(case)
    return run_loss(case)
