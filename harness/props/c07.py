"""
C07 - the gradient handed to optimisers is the derivative of cost  (PARTIAL: the variational-equation theorem
"integrating the sensitivity system yields dx/dtheta" is assumed).

Proof side (Pygom/Props/C07.lean): `sens_index_spec` (selected column for observed state j and free variable
k is idx_j + (p_k+1) nS, resp. idx_j + (s_k+1+nP) nS), `grad_is_chain_rule` / `gradIV_is_chain_rule`
(HasDerivAt of the cost in the k-th free variable, in the order supplied, given HasDerivAt of the predictions
and of the kernels), `grad_is_chain_rule_partial` + `grad_order_counterexample` for the tree with `np.sort`.

Tie: (i) `_getTargetParamIndex`, `_getTargetParamSensIndex`, `_getTargetStateSensIndex`, `sens_to_grad` of the
real objects against the Lean driver (`sensIndex`, `sensToGrad`) exactly, on integer arrays; (ii) DIRECT ORACLE
(no Lean, no pygom kernels / integrator): `sensitivity`, `gradient`, `sensitivityIV`, `jac` against
Richardson-extrapolated central differences of (a) the reference cost of C06 (independent DOP853 trajectory at
1e-12 + scipy.stats log-densities) and (b) pygom's own `cost` / `costIV`; (iii) HISTORY cases (losshist.py, oracle (a)):
scripts of calls of all eleven entry points on one or two loss objects - sensitivity / gradient / jac / sensitivityIV /
jacIV / diff_loss / diff_lossIV judged against the reference derivative for the values the object currently holds (the
state machine `Held` / `step` of Pygom/Props/C06.lean); observations, x0, grid, weights, spreads in float and int containers;
(iv) ROUND C families, same oracle (a)+(b): TIME-DEPENDENT models (losscommon.TD_CATALOGUE: a parameter that acts only during a
window of time - bump / squared bump / box (Piecewise) / Heaviside difference / trapezoid (Max, Min) / ramp or step after a threshold
time / early window from t0 - in an SIR import rate, a lock-down factor, a vaccination campaign (4 states), a LINEAR dosing chain; a
parameter multiplying a state that is exactly zero until the window opens; a declared state that never changes), observation times
after the window has closed, the reference integrated piecewise between the non-smooth time points (which do not depend on the
parameters: the solution is smooth in the free variables at every fixed time); and SELECTIONS run through systematically:
state_name / target_param / target_state each as all-in-non-declared-order, all-in-declared-order, default None, subset in
non-declared order, on catalogue, time-dependent and random models; boundary values: a weight exactly 0 / exactly 1 for one observed
state, weights that differ between the states, a single observation time, a parameter exactly 0 at the evaluation point; `jacIV`
(with target_state) judged in every gradient case next to `jac`.  A disagreement with the first difference level is CONFIRMED on two
finer Richardson levels before it is reported (`finer`).
"""
import json
import random

import numpy as np

from . import losscommon as LC
from . import losshist as LH

PROP = "C07"
LEAN = {"module": "Pygom.Props.C07",
        "required": ["Pygom.C07.sens_index_spec", "Pygom.C07.sens_index_spec_IV", "Pygom.C07.grad_is_chain_rule",
                     "Pygom.C07.gradIV_is_chain_rule", "Pygom.C07.grad_is_chain_rule_partial",
                     "Pygom.C07.grad_order_counterexample", "Pygom.C07.model_variant"]}
BUDGET = {"quick": {"cases": 420, "exact": 40, "per_batch": 12, "history": 448, "timedep": 144, "select": 144, "large": 10, "scaled": 12},
          "thorough": {"cases": 6000, "exact": 300, "per_batch": 20, "history": 4800, "timedep": 1440, "select": 1440, "large": 100, "scaled": 120}}
RULE = ("random bounded models and catalogue models as in C06; theta, x0, grids; 1-3 observed states in any order; target_param "
        "subsets in any order; target_state subsets in any order; five loss classes (non-unit weights for Square and Normal "
        "only, whose cost uses them); integrator methods lsoda / vode / ivode / dopri5 / dop853 on a share of cases; plus "
        "batches of crafted integer arrays for the index helpers and sens_to_grad.  A gradient case is non-trivial when it has "
        ">= 2 free variables or >= 2 observed states and at least one class was evaluated; an exact batch always is.  HISTORY cases "
        "(losshist.py): scripts of 6-14 operations on one or two loss objects - every ordered pair (e1 in sensitivity / gradient / "
        "jac / sensitivityIV / jacIV / diff_loss / diff_lossIV, e2 in those seven and cost / residual / costIV / residualIV) as 'e1 at "
        "(A,X); e2 at another theta and/or x0; e1 again; restore; e1 again; e1 with theta=None', random walks, the user "
        "re-assigning model.parameters, two loss objects on one model object, two model instances with the same names, "
        "copy.deepcopy of a loss object; all four combinations of target_param / target_state; t0 != 0; theta as list / tuple / "
        "ndarray / numpy scalars; y, x0, t, weights, spread as float or int containers (integer observations for every class).  "
        "A history case is non-trivial when at least two calls were judged against the reference derivative for the values the "
        "object currently holds.  ROUND C gradient cases (same non-triviality rule as gradient cases; two loss classes per case, Square "
        "always): `timedep` - every (model, window shape) pair of losscommon.TD_CATALOGUE x TD_SHAPES in turn (6 models, 8 shapes: "
        "parameter acting only inside a time window, after a threshold time, from t0 until a closing time; a parameter multiplying a "
        "state that is exactly zero until the window opens; linear dosing chain; a declared state that never changes), >= 1 observation "
        "time after the window has closed, the windowed parameter always free, all states observed in a non-declared order / a subset "
        "in non-declared order / any; `select` - (state_name, target_param, target_state) through all-permuted / all-declared / None / "
        "subset-permuted (3 x 4 x 4 combinations in turn) on time-dependent, catalogue and random models; boundary values (tags "
        "boundary:*): weight exactly 0 or exactly 1 for one observed state, weights differing between states (per-state vector or n x p "
        "matrix), one observation time (one observed state: several states with one time are rejected by the unchanged constructor), "
        "a parameter exactly 0 at the evaluation point; jac and jacIV judged in every gradient case (tags select:*, td-model:*, td-shape:*).  "
        "ROUND D gradient cases: `large` (10 quick) - losscommon.LARGE_CATALOGUE in turn (staged progression chains 11 x 10, 12 x 9, 14 x 8, "
        "10 x 11 with death and inflow; 4-patch SIR with coupling 12 x 9: num_state x num_param = 104 .. 112), a late stage / another patch "
        "observed, free variables: all parameters + 3 initial values / 3-5 parameters + all initial values / 2-4 parameters + 2 initial "
        "values (non-declared order); sensitivity, gradient, jac, jacIV, sensitivityIV judged as everywhere; `scaled` (12 quick) - head-count "
        "models (SIR N = 1e6 / 1e8, SIR_norm beta = 5e-9), finite-difference steps relative to the variable, comparison relative per entry down "
        "to the natural size of the entry (cost / |variable| for gradients, max |prediction| / |variable| for Jacobians), every other case "
        "with weights of 1/N (tags family:large, family:scaled, num_state*num_param=*).  A fifth of the history scripts run on a time-dependent "
        "model with the clock of the loss object moved away from zero (losshist.py).")
ASSUMPTIONS = ["integrating the variational (forward sensitivity) system yields the derivative of the flow in the parameters and the "
               "initial values (classical, not in Mathlib): hypothesis `hsens` of grad_is_chain_rule; validated per case against "
               "finite differences of an independent reference",
               "the kernels' diff_loss is the derivative of their loss (C14): hypothesis `hkernel` of grad_is_chain_rule",
               "with non-unit weights only the Square and Normal costs use the weights; the identity is checked with unit weights "
               "for Poisson, Gamma, NegBinom",
               "finite differences: Richardson extrapolation of central differences with steps h, h/2, h = 2e-3 max(|u|, 0.05) on the "
               "1e-12 reference (tolerance 1e-4 (1+|fd|)) and h = 1e-2 max(|u|, 0.05) on pygom's own cost (tolerance 1e-3 (1+|fd|) "
               "+ 1e-7 scale / h, scale = sum of absolute per-entry loss terms: pygom integrates at 1e-10)",
               "a disagreement between the code and the first finite-difference level (steps h, h/2) is reported only after two finer "
               "Richardson levels (h/4, h/8) and (h/16, h/32) of the reference agree with each other to a tenth of the tolerance and still "
               "disagree with the code (tag fd-refined:*): on stiff trajectories (FitzHugh) the first level can be outside its asymptotic range",
               "time-dependent catalogue: the non-smooth time points of the window shapes do not depend on parameters or initial values, so "
               "the reference solution at a fixed time is a smooth function of the free variables; the reference integrates piecewise between "
               "those points (ref_traj_td); pygom integrates across them with its own error control (observed agreement ~1e-7)",
               "history cases: the Lean model takes the gradient and the Jacobian as pure functions of (theta, x0, data, layout); the loss "
               "object is read as holding the parameter values and initial values it was last given through ANY entry point (constructor, "
               "cost, costIV, sensitivityIV, ...), parameters outside target_param are the model object's current values "
               "(specification state machine in losshist.py); diff_loss is judged through the contract sens_to_grad uses: "
               "weight x diff_loss = d(per-entry loss term)/d(prediction)"]
TRUSTED = ["harness generator and reference: scipy.integrate.solve_ivp(DOP853), scipy.stats log-densities, Richardson differences",
           "right-hand side of the reference: Lean driver `assemble` output (C01) compiled by losscommon.compile_rhs; hand-written "
           "for catalogue models and for the time-dependent catalogue (losscommon.TD_CATALOGUE, window shapes as plain Python max / min / "
           "comparisons)", "Lean driver JSON codec"]

METHODS = ["lsoda", "vode", "ivode", "dopri5", "dop853"]
SPREAD_RANGE = {"Normal": (0.3, 2.0), "Gamma": (1.0, 5.0), "NegBinom": (0.5, 5.0)}


# --------------------------------------------------------------------------- cases

def _grad_case(r, want_order=None, want_tp=None):
    s = LC.gen_setup(r, want_order=want_order)
    n, p = len(s["times"]), len(s["obs"])
    tp, ts = LC.gen_targets(r, s["params"], s["states"], p_tp=0.6, p_ts=0.5)
    if want_tp == "not-ascending" and len(s["params"]) >= 2:
        k = r.randint(2, len(s["params"]))
        tp = sorted(r.sample(s["params"], k), key=s["params"].index, reverse=True)
    spreads = {}
    for cls, (lo, hi) in SPREAD_RANGE.items():
        k, v = LC.gen_shaped(r, n, p, lo, hi, allow_none=False)
        if r.random() < 0.15:
            k, v = "default", None
        spreads[cls] = [k, v]
    w = list(LC.gen_shaped(r, n, p, 0.5, 2.0))
    if r.random() < 0.4:
        w = ["none", None]
    return {"kind": "grad", "setup": s, "weights": w, "spreads": spreads, "target_param": tp, "target_state": ts,
            "noise_seed": r.getrandbits(32), "style": r.randrange(30),
            "methods": (METHODS if r.random() < 0.15 else []), "full_output": r.random() < 0.3}


def _non_identity_perm(r, names):
    names = list(names)
    if len(names) < 2:
        return names
    while True:
        out = r.sample(names, len(names))
        if out != names:
            return out


def _subset_not_ascending(r, names):
    """a selection of >= 2 (when possible) of the names, NOT in the declared order"""
    names = list(names)
    if len(names) < 2:
        return names
    k = r.randint(2, len(names))
    sub = sorted(r.sample(names, k), key=names.index, reverse=True)
    if k >= 3 and r.random() < 0.5:
        sub = sub[1:] + sub[:1]
    return sub


def _boundary(r, case, force=None):
    """round-c boundary values, written into the case (tags boundary:*): a weight exactly 0 / exactly 1 for one observed state,
    weights that differ between the states, a single observation time, a parameter exactly 0 at the point of evaluation"""
    s = case["setup"]
    n, p = len(s["times"]), len(s["obs"])
    b = []
    u = r.random()
    if p > 1 and (force == "weights" or u < 0.45):
        w = [round(r.uniform(0.5, 2.0), 3) for _ in range(p)]
        k = r.randrange(p)
        mode = r.choice(["zero", "one", "distinct"])
        if mode == "zero":
            w[k] = 0.0
        elif mode == "one":
            w[k] = 1.0
        b.append("weight-%s-for-one-state" % mode)
        if r.random() < 0.5:
            case["weights"] = ["per-state", w]
        else:
            case["weights"] = ["matrix", [[round(v * r.choice([1.0, 1.0, 0.5, 2.0]), 3) for v in w] for _ in range(n)]]
    if r.random() < 0.15:
        k = r.randrange(len(s["params"]))
        s["theta_eval"][k] = 0.0
        b.append("parameter-exactly-zero")
    case["boundary"] = b
    return case


def _restrict_classes(r, case):
    case["classes"] = ["Square", r.choice(["Normal", "Poisson", "Gamma", "NegBinom"])]
    return case


def _finish_case(r, s, tp, ts):
    n, p = len(s["times"]), len(s["obs"])
    spreads = {}
    for cls, (lo, hi) in SPREAD_RANGE.items():
        k, v = LC.gen_shaped(r, n, p, lo, hi, allow_none=False)
        if r.random() < 0.15:
            k, v = "default", None
        spreads[cls] = [k, v]
    w = list(LC.gen_shaped(r, n, p, 0.5, 2.0))
    if n == 1 and w[0] in ("per-state", "per-obs", "scalar-list"):
        w = ["matrix", [[round(r.uniform(0.5, 2.0), 3) for _ in range(p)]]]       # unambiguous shape for a single observation time
    if n == 1:
        for cls in spreads:
            if spreads[cls][0] in ("per-state", "per-obs", "scalar-list"):
                spreads[cls] = ["scalar", round(r.uniform(*SPREAD_RANGE[cls]), 3)]
    return {"kind": "grad", "setup": s, "weights": w, "spreads": spreads, "target_param": tp, "target_state": ts,
            "noise_seed": r.getrandbits(32), "style": r.randrange(30), "methods": (METHODS if r.random() < 0.08 else []),
            "full_output": r.random() < 0.3}


def _td_case(r, i):
    """TIME-DEPENDENT models (losscommon.TD_CATALOGUE): every (model, window shape) pair in turn; observation times after the
    window has closed; the windowed parameter is always among the free parameters"""
    names = sorted(LC.TD_CATALOGUE)
    shapes = sorted(LC.TD_SHAPES)
    name = names[i % len(names)]
    shape = shapes[(i // len(names)) % len(shapes)]
    n_times = 1 if r.random() < 0.08 else None
    s = LC.gen_setup_td(r, name=name, shape=shape, n_times=n_times)
    c = LC.TD_CATALOGUE[name]
    states, params = s["states"], s["params"]
    mode = (i // (len(names) * len(shapes))) % 4
    if mode == 0:
        s["obs"] = _non_identity_perm(r, states)                      # full selection, permuted
    elif mode == 1:
        s["obs"] = _subset_not_ascending(r, states)
    tp, ts = LC.gen_targets(r, params, states, p_tp=0.5, p_ts=0.5)
    if tp is not None and c["windowed"] is not None and c["windowed"] not in tp:
        tp[r.randrange(len(tp))] = c["windowed"]
        tp = list(dict.fromkeys(tp))
    if name == "SIR_constN" and "N" not in s["obs"] and r.random() < 0.6:
        s["obs"] = s["obs"][:2] + ["N"]                               # an observed state that never changes
    if n_times == 1:
        # a single observation time: the unchanged pygom accepts it for ONE observed state only (with several states the
        # (1, p) weight matrix is flattened and the constructor stops with "Input weight not of the same size as y")
        s["obs"] = [r.choice(s["obs"])]
    case = _finish_case(r, s, tp, ts)
    case["family"] = "timedep"
    return _restrict_classes(r, _boundary(r, case))


def _select_case(r, i):
    """FULL SELECTIONS IN PERMUTED ORDER, systematically: (state_name, target_param, target_state) each run through
    all-in-non-declared-order / all-in-declared-order (explicit list) / default None / subset in non-declared order"""
    src = i % 4
    if src == 0:
        s = LC.gen_setup_td(r, shape=r.choice(sorted(LC.TD_SHAPES)))
    elif src == 3:
        s = LC.gen_setup(r, catalogue_share=0.0)
    else:
        s = LC.gen_setup(r, catalogue_share=1.0)
    states, params = s["states"], s["params"]
    j = i // 4
    om, pm, sm = j % 3, (j // 3) % 4, (j // 12) % 4
    s["obs"] = [_non_identity_perm(r, states), list(states), _subset_not_ascending(r, states)][om]
    tp = [None, _non_identity_perm(r, params), list(params), _subset_not_ascending(r, params)][pm]
    ts = [None, _non_identity_perm(r, states), _subset_not_ascending(r, states), list(states)][sm]
    case = _finish_case(r, s, tp, ts)
    case["family"] = "select"
    case["select"] = {"obs": ["all-permuted", "all-declared", "subset-permuted"][om],
                      "target_param": ["none", "all-permuted", "all-declared", "subset-permuted"][pm],
                      "target_state": ["none", "all-permuted", "subset-permuted", "all-declared"][sm]}
    return _restrict_classes(r, _boundary(r, case, force="weights" if om == 0 and r.random() < 0.6 else None))


def _large_case(r, i):
    """LARGE models (losscommon.LARGE_CATALOGUE: num_state x num_param between 104 and 112 - staged progression chains with per-stage
    rates, a 4-patch SIR with coupling): whatever algorithm an entry point chooses by the SIZE of the model, what it returns must be the
    derivative of the cost.  The free variables are kept few where the finite-difference oracle would be slow (the model stays large)."""
    names = sorted(LC.LARGE_CATALOGUE)
    s = LC.gen_setup_large(r, name=names[i % len(names)])
    states, params = s["states"], s["params"]
    late = [k for k in states[len(states) // 2:]]
    if not any(o in late for o in s["obs"]):
        s["obs"][r.randrange(len(s["obs"]))] = r.choice([k for k in late if k not in s["obs"]])     # a late stage / another patch: every rate upstream matters
    mode = (i // len(names)) % 3
    if mode == 0:
        tp, ts = None, _subset_not_ascending(r, r.sample(states, 3))
    elif mode == 1:
        tp, ts = _subset_not_ascending(r, r.sample(params, r.randint(3, 5))), None
    else:
        tp, ts = _subset_not_ascending(r, r.sample(params, r.randint(2, 4))), _subset_not_ascending(r, r.sample(states, 2))
    case = _finish_case(r, s, tp, ts)
    case["family"] = "large"
    case["methods"] = []
    return _restrict_classes(r, case)


def _scaled_case(r, i):
    """HEAD COUNTS (losscommon.SCALED_CATALOGUE: N = 1e6 / 1e8, a mass-action rate of 5e-9 per person): finite-difference steps relative
    to the variable (a parameter of 5e-9 must not be stepped by 1e-4), every comparison relative per entry down to the natural size of
    the entry (cost / |variable|, |prediction| / |variable|); half of the cases with weights of 1e-6 .. 1e-8 (counts normalised in the
    loss) and sigma of the size of the counts, so that the cost is of order one while the states are of order N"""
    names = sorted(LC.SCALED_CATALOGUE)
    s = LC.gen_setup_scaled(r, name=names[i % len(names)])
    states, params = s["states"], s["params"]
    free = [k for k in params if k not in s["fixed_params"]]
    tp = _non_identity_perm(r, free) if r.random() < 0.5 else list(free)
    ts = [None, _subset_not_ascending(r, states), _non_identity_perm(r, states)][(i // len(names)) % 3]
    case = _finish_case(r, s, tp, ts)
    case["family"] = "scaled"
    case["methods"] = []
    if i % 2 == 1:
        N = LC.SCALED_CATALOGUE[s["model"]["name"]]["x0"][0][1]
        sc = lambda v, c: (None if v is None else [sc(x, c) for x in v] if isinstance(v, list) else float("%.6g" % (v * c)))
        case["weights"] = ["scalar", float("%.3g" % (r.uniform(0.5, 2.0) / N))] if case["weights"][0] == "none" else [case["weights"][0], sc(case["weights"][1], 1.0 / N)]
        case["extreme"] = True
    else:
        if case["spreads"]["Normal"][0] != "default":
            N = LC.SCALED_CATALOGUE[s["model"]["name"]]["x0"][0][1]
            sc = lambda v, c: ([sc(x, c) for x in v] if isinstance(v, list) else float("%.6g" % (v * c)))
            case["spreads"]["Normal"][1] = sc(case["spreads"]["Normal"][1], 0.05 * N)
    return _restrict_classes(r, case)


def _exact_case(r, per_batch):
    items = []
    for _ in range(per_batch):
        s = LC.gen_setup(r, catalogue_share=1.0)
        q = len(s["obs"])
        tp, ts = LC.gen_targets(r, s["params"], s["states"], p_tp=0.7, p_ts=0.7)
        n = len(s["times"])
        nout = r.randint(1, 4)
        bad = r.random() < 0.15
        cols = q * nout + (1 if (bad and q > 1) else 0)
        rows = n + (1 if (bad and q == 1) else 0)
        sens = [[r.randint(-5, 5) for _ in range(cols)] for _ in range(rows)]
        dl = [[r.randint(-4, 4) for _ in range(q)] for _ in range(n)]
        w = [[r.randint(0, 3) for _ in range(q)] for _ in range(n)]
        w[0][0] = 1
        items.append({"setup": s, "target_param": tp, "target_state": ts, "sens": sens, "dl": dl, "w": w})
    return {"kind": "exact", "items": items}


def make_cases(rng, tier, budget):
    cases = []
    for i in range(budget["cases"]):
        r = random.Random(rng.getrandbits(64))
        cases.append(_grad_case(r, want_order=["ascending", "not-ascending", None][i % 3],
                                want_tp=["not-ascending", None][(i // 3) % 2]))
    for i in range(budget["exact"]):
        r = random.Random(rng.getrandbits(64))
        cases.append(_exact_case(r, budget["per_batch"]))
    shift = 8 * rng.randrange(1000)                 # the systematic part (pairs of entry points) starts somewhere else for every seed
    for i in range(budget.get("history", 0)):
        r = random.Random(rng.getrandbits(64))
        cases.append(LH.gen_history(r, i + shift, HIST_JUDGED))
    shift2 = rng.randrange(1000)                    # drawn AFTER everything above: the earlier families are unchanged
    for i in range(budget.get("timedep", 0)):
        r = random.Random(rng.getrandbits(64))
        cases.append(_td_case(r, i + shift2))
    for i in range(budget.get("select", 0)):
        r = random.Random(rng.getrandbits(64))
        cases.append(_select_case(r, i + shift2))
    for i in range(budget.get("large", 0)):         # round d, drawn after everything above
        cases.append(_large_case(random.Random(rng.getrandbits(64)), i + shift2))
    for i in range(budget.get("scaled", 0)):
        cases.append(_scaled_case(random.Random(rng.getrandbits(64)), i + shift2))
    return cases


def search_cases(rng, tier, budget):
    return ([_grad_case(random.Random(rng.getrandbits(64))) for _ in range(budget["cases"] * 2)] +
            [LH.gen_history(random.Random(rng.getrandbits(64)), i, HIST_JUDGED) for i in range(budget.get("history", 0) * 2)] +
            [_td_case(random.Random(rng.getrandbits(64)), i) for i in range(budget.get("timedep", 0) * 2)] +
            [_select_case(random.Random(rng.getrandbits(64)), i) for i in range(budget.get("select", 0) * 2)] +
            [_large_case(random.Random(rng.getrandbits(64)), i) for i in range(budget.get("large", 0) * 2)])


# --------------------------------------------------------------------------- exact batches

def _catch(f):
    try:
        return {"ok": f()}
    except AttributeError as exc:
        return {"missing": str(exc)[:100]}
    except Exception as exc:
        return {"err": type(exc).__name__}


def run_exact(case):
    from .. import leanio
    import pygom
    mism, viol, tags = [], [], []
    for it in case["items"]:
        s = it["setup"]
        states, params, obs = s["states"], s["params"], s["obs"]
        tp, ts = it["target_param"], it["target_state"]
        model, rhs, err = LC.build_model(s)
        LC.set_params(model, params, s["theta_true"])
        n, q = len(s["times"]), len(obs)
        y = np.ones((n, q))
        obj = LC.make_loss("Square", [s["theta_true"][params.index(k)] for k in (tp or params)], model, s["x0"], s["t0"], s["times"], y, obs,
                           ("matrix", it["w"]), ("default", None), tp=tp, ts=ts, style=1)
        lr = leanio.driver().call({"op": "sensIndex", "states": states, "params": params, "obs": obs, "target_param": tp, "target_state": ts})
        cur = lr["current"]
        # index helpers (private: compared when they exist)
        pi = _catch(lambda: [int(v) for v in obj._getTargetParamIndex()])
        ps = _catch(lambda: [int(v) for v in obj._getTargetParamSensIndex()])
        ss = _catch(lambda: [int(v) for v in obj._getTargetStateSensIndex()])
        for name, got, exp in (("_getTargetParamIndex", pi, {"ok": lr["paramIndex"]}), ("_getTargetParamSensIndex", ps, {"ok": cur["paramSens"]}),
                               ("_getTargetStateSensIndex", ss, cur["stateSens"] if isinstance(cur["stateSens"], dict) else {"ok": cur["stateSens"]})):
            if "missing" in got:
                tags.append("private-helper-missing:" + name)
                continue
            if got != exp:
                mism.append({"what": name, "detail": "states=%s params=%s obs=%s target_param=%s target_state=%s python=%s lean(%s)=%s" % (
                    states, params, obs, tp, ts, got, lr["variant"], exp)})
        # direct oracle for the index lists (the property's layout, supplied order)
        sidx = [states.index(o) for o in obs]
        pidx = [params.index(k) for k in (tp or params)]
        tidx = [states.index(k) for k in (ts or states)]
        nS, nP = len(states), len(params)
        exp_p = [j + (i + 1) * nS for i in pidx for j in sidx]
        exp_s = [j + (i + 1 + nP) * nS for i in tidx for j in sidx]
        oc = LC.order_class(states, obs) if q > 1 else "single"
        if "ok" in ps and ps["ok"] != exp_p:
            viol.append({"what": "_getTargetParamSensIndex is not [idx_j + (p_k+1) nS] parameter-major in the order supplied",
                         "signature": "sens-index:param:obs-%s:target_param-%s" % (oc, "all" if tp is None else LC.order_class(params, tp)),
                         "detail": "obs=%s target_param=%s got %s expected %s" % (obs, tp, ps["ok"], exp_p)})
        if "err" in ss or ("ok" in ss and ss["ok"] != exp_s):
            viol.append({"what": "_getTargetStateSensIndex is not [idx_j + (s_k+1+nP) nS] state-major in the order supplied",
                         "signature": "sens-index:state:%s" % (ss.get("err") or ("obs-%s:target_state-%s" % (oc, "all" if ts is None else LC.order_class(states, ts)))),
                         "detail": "obs=%s target_state=%s got %s expected %s" % (obs, ts, ss, exp_s)})
        # sens_to_grad on integer arrays
        sens = np.array(it["sens"], float)
        dl = np.array(it["dl"], float)
        dl_arg = dl[:, 0] if q == 1 else dl
        got = _catch(lambda: [float(v) for v in obj.sens_to_grad(sens.copy(), dl_arg.copy())])
        lg = leanio.driver().call({"op": "sensToGrad", "numS": q, "sens": it["sens"], "dl": it["dl"], "w": it["w"]})
        from fractions import Fraction
        exp = {"ok": [float(Fraction(v)) for v in lg["ok"]]} if "ok" in lg else {"err": lg["err"]}
        tags.append("sens_to_grad:" + ("ok" if "ok" in got else got.get("err", "missing")))
        if got != exp:
            mism.append({"what": "sens_to_grad", "detail": "q=%d sens=%s dl=%s w=%s python=%s lean=%s" % (q, it["sens"], it["dl"], it["w"], got, exp)})
        if "ok" in got and sens.shape[0] == n and sens.shape[1] % q == 0:
            nout = sens.shape[1] // q
            ref = [sum(it["dl"][i][a] * it["w"][i][a] * it["sens"][i][a + b * q] for i in range(n) for a in range(q)) for b in range(nout)]
            if got["ok"] != [float(v) for v in ref]:
                viol.append({"what": "sens_to_grad is not sum_i sum_a diff_loss[i][a] * w[i][a] * sens[i][a + b*num_s]", "signature": "sens_to_grad:contraction",
                             "detail": "got %s expected %s" % (got["ok"], ref)})
    return {"nontrivial": True, "mismatches": mism, "violations": viol, "tags": sorted(set(tags)),
            "sample": {"kind": "exact", "first": {k: case["items"][0][k] for k in ("target_param", "target_state")}}}


# --------------------------------------------------------------------------- gradient cases

def richardson(vals, h):
    """vals = (f(+h), f(-h), f(+h/2), f(-h/2)) -> (extrapolated derivative, |D(h/2) - D(h)|)"""
    d1 = (vals[0] - vals[1]) / (2 * h)
    d2 = (vals[2] - vals[3]) / h
    return (4 * d2 - d1) / 3.0, np.abs(d2 - d1)


def fd_ladder(f, u0, k, h0, scale, rel=1e-3, levels=4):
    """derivative of the scalar f in coordinate k by central differences + Richardson on a ladder of step sizes
    h0, h0/4, h0/16, ...: returns (estimate, error bound, step) of the FIRST level whose estimate agrees with the next
    finer one to rel/4 (+ the integrator-noise floor 1e-7*scale/h); (estimate, inf, step) when no two levels agree.
    A single pair of step sizes is not enough on strongly non-linear costs (FitzHugh, c ~ 3): two coarse
    difference quotients can agree with each other to 1% and both be 50% off."""
    def level(h):
        vals = []
        for d in (h, -h, h / 2, -h / 2):
            uu = list(u0); uu[k] += d
            vals.append(float(f(uu)))
        return richardson(vals, h)[0]
    h = h0
    prev = level(h)
    for _ in range(levels - 1):
        h2 = h / 4.0
        cur = level(h2)
        noise = 1e-7 * scale / h2
        if abs(cur - prev) <= 0.25 * rel * (1 + abs(cur)) + noise:
            return cur, abs(cur - prev), h2
        prev, h = cur, h2
    return prev, float("inf"), h


def classify(site, cls, case, states, params, got, fd):
    m = case["setup"]["model"]
    td = m["src"] == "td" and m["shape"] != LC.TD_AUTONOMOUS
    if td:
        # is it exactly the component of the parameter that acts only during the time window?
        wp = LC.TD_CATALOGUE[m["name"]]["windowed"]
        fp = list(case["target_param"]) if case["target_param"] is not None else list(params)
        g, f = np.asarray(got, float).ravel(), np.asarray(fd, float).ravel()
        if wp in fp and g.shape == f.shape and g.size >= len(fp) and not site.startswith("jac"):
            bad = np.abs(g - f) > 1e-3 * (1 + np.abs(f))
            if bad[fp.index(wp)] and int(bad.sum()) == 1:
                return "%s:%s:wrong-value:component-of-the-time-windowed-parameter" % (site, cls)
    return (_classify(site, cls, case, states, params, got, fd, order_label=not td and m["src"] != "large") + (":time-dependent-model" if td else "") +
            {"large": ":large-model", "scaled": ":head-count-model"}.get(m["src"], ""))


def _classify(site, cls, case, states, params, got, fd, order_label=True):
    s = case["setup"]
    tp, ts, obs = case["target_param"], case["target_state"], s["obs"]
    got = np.asarray(got, float); fd = np.asarray(fd, float)
    if got.shape == fd.shape and got.size > 1 and np.allclose(np.sort(got), np.sort(fd), rtol=1e-3, atol=1e-5):
        if tp is not None and len(tp) > 1 and LC.order_class(params, tp) == "not-ascending":
            return "gradient-order:target_param-not-ascending"
        if ts is not None and len(ts) > 1 and LC.order_class(states, ts) == "not-ascending":
            return "gradient-order:target_state-not-ascending"
    if order_label and len(obs) > 1 and LC.order_class(states, obs) == "not-ascending":
        return "gradient:observed-states-not-ascending"
    return "%s:%s:wrong-value:%d-state%s%s%s" % (site, cls, len(obs), "s" if len(obs) > 1 else "",
                                                ":target_param" if tp is not None else "", ":weights=" + case["weights"][0] if case["weights"][0] != "none" else "")


def run_grad(case):
    s = case["setup"]
    mism, viol, tags = [], [], []
    try:
        model, rhs, err = LC.build_model_any(s)
    except Exception as exc:
        if s["model"]["src"] != "td":
            raise
        # a model text the tree under test cannot build (the unchanged tree builds every entry of TD_CATALOGUE)
        return {"nontrivial": False, "mismatches": [], "tags": ["build_error:td"],
                "violations": [{"what": "time-dependent model %s/%s cannot be built: %s: %s" % (s["model"]["name"], s["model"]["shape"], type(exc).__name__, str(exc)[:200]),
                                "signature": "build:time-dependent-model:raises:%s" % type(exc).__name__, "detail": json.dumps(s["model"])}]}
    if err:
        return {"nontrivial": False, "mismatches": [{"what": "build", "detail": err}], "violations": [], "tags": ["build_error"]}
    ref_traj = lambda th_, x0_, t0_, times_, **kw_: LC.ref_traj_any(s, rhs, th_, x0_, t0_, times_, **kw_)
    states, params, obs = s["states"], s["params"], s["obs"]
    tp, ts = case["target_param"], case["target_state"]
    n, q = len(s["times"]), len(obs)
    idx = [states.index(o) for o in obs]
    fp = list(tp) if tp is not None else list(params)          # free parameters, in the order supplied
    fs = list(ts) if ts is not None else list(states)          # free initial values, in the order supplied
    oc = LC.order_class(states, obs) if q > 1 else "single"
    if s["model"]["src"] == "td":
        tags += ["td-model:" + s["model"]["name"], "td-shape:" + s["model"]["shape"]]
    if s["model"]["src"] in ("large", "scaled"):
        tags += ["%s-model:%s" % (s["model"]["src"], s["model"]["name"]), "num_state*num_param=%d" % (len(states) * len(params))]
    if case.get("extreme"):
        tags.append("extreme-weights")
    fd_floor = s.get("fd_floor", 0.05)             # absolute floor of the finite-difference step (0 for head-count models: steps relative to the variable)
    scale_free = s.get("fd_floor") is not None     # comparisons relative per entry down to the natural size of the entry
    if case.get("family"):
        tags.append("family:" + case["family"])
    tags += ["boundary:" + b for b in case.get("boundary", [])]
    if n == 1:
        tags.append("boundary:single-observation-time")
    if q == len(states) and q > 1:
        tags.append("select:all-states-observed:" + ("declared-order" if obs == states else "permuted"))
    if tp is not None and len(tp) == len(params) and len(tp) > 1:
        tags.append("select:target_param-all:" + ("declared-order" if tp == params else "permuted"))
    if ts is not None and len(ts) == len(states) and len(ts) > 1:
        tags.append("select:target_state-all:" + ("declared-order" if ts == states else "permuted"))
    tags += ["src:" + s["model"]["src"], "q=%d" % q, "order:" + oc, "weights:" + case["weights"][0],
             "target_param:" + ("all" if tp is None else LC.order_class(params, tp) if len(tp) > 1 else "one"),
             "target_state:" + ("all" if ts is None else LC.order_class(states, ts) if len(ts) > 1 else "one")]
    th_base = list(s["theta_true"])
    u0 = [s["theta_eval"][params.index(k)] for k in fp] + [s["x0_eval"][states.index(k)] for k in fs]
    r = len(fp)

    def full(u, with_x0):
        th = list(th_base)
        for k, v in zip(fp, u[:r]):
            th[params.index(k)] = v
        x0 = list(s["x0"])
        if with_x0:
            for k, v in zip(fs, u[r:]):
                x0[states.index(k)] = v
        return th, x0

    bx = LC.box_any(s)
    tr_true = ref_traj(th_base, s["x0"], s["t0"], s["times"], **bx)
    if tr_true is None:
        return {"nontrivial": False, "mismatches": mism, "violations": viol, "tags": tags + ["reference-failed-or-outside-box"]}
    data = LC.make_data(s, tr_true, LC.CLASSES, "perturbed", case["noise_seed"])

    def fd_trajs(u, with_x0, ks, hrel):
        """reference trajectories at u and at u +- h e_k, u +- h/2 e_k"""
        out = {}
        th, x0 = full(u, with_x0)
        base = ref_traj(th, x0, s["t0"], s["times"], **bx)
        if base is None:
            return None, None, None
        hs = {}
        for k in ks:
            h = hrel * max(abs(u[k]), fd_floor)
            hs[k] = h
            pts = []
            for d in (h, -h, h / 2, -h / 2):
                uu = list(u); uu[k] += d
                th, x0 = full(uu, with_x0)
                t = ref_traj(th, x0, s["t0"], s["times"], **bx)
                if t is None:
                    return None, None, None
                pts.append(t)
            out[k] = pts
        return base, out, hs

    _finer = {}

    def finer(with_x0, k):
        """CONFIRMATION of a disagreement before it is reported: two more Richardson levels for coordinate k, steps (h/4, h/8)
        and (h/16, h/32) -> (derivative of the reference trajectory from the finer level, the two sets of four trajectories) or None.
        The first level (h, h/2) can be outside the asymptotic range on stiff / strongly non-linear trajectories (FitzHugh, c ~ 3):
        its two difference quotients then agree to 1% and are both 10% off; nothing is reported unless the two finer levels
        agree with each other to a tenth of the tolerance and still disagree with the code."""
        key = (with_x0, k)
        if key not in _finer:
            u = list(u0) if with_x0 else list(u0[:r])
            h = (h_iv if with_x0 else h_p)[k]
            lv = []
            for hh in (h / 4, h / 16):
                pts = []
                for d in (hh, -hh, hh / 2, -hh / 2):
                    uu = list(u); uu[k] += d
                    th, x0 = full(uu, with_x0)
                    t = ref_traj(th, x0, s["t0"], s["times"], **bx)
                    if t is None:
                        pts = None
                        break
                    pts.append(t)
                lv.append((pts, hh))
            _finer[key] = None if any(p_ is None for p_, _ in lv) else lv
        return _finer[key]

    base_p, tr_p, h_p = fd_trajs(u0[:r], False, range(r), 2e-3)
    base_iv, tr_iv, h_iv = fd_trajs(u0, True, range(len(u0)), 2e-3)
    if base_p is None or base_iv is None:
        return {"nontrivial": False, "mismatches": mism, "violations": viol, "tags": tags + ["reference-failed-or-outside-box"]}
    lowest = min([t[:, idx].min() for pts in list(tr_p.values()) + list(tr_iv.values()) for t in pts] + [base_p[:, idx].min(), base_iv[:, idx].min()])

    W_all = LC.expand(case["weights"][0], case["weights"][1], n, q)
    evaluated = 0
    margins = [0.0]
    ambiguous_iv = (ts is None and tp is not None and len(u0) == len(params))
    for cls in case.get("classes", LC.CLASSES):
        if cls not in data or (cls in LC.NEEDS_POSITIVE and lowest < 0.02):
            tags.append("skipped:%s:trajectory-not-positive" % cls)
            continue
        weighted = cls in ("Square", "Normal")
        weights = case["weights"] if weighted else ["none", None]
        W = W_all if weighted else np.ones((n, q))
        y = data[cls]
        spread = None
        if cls in LC.SPREAD_KW:
            skind, sval = case["spreads"][cls]
            default = {"Normal": 1.0, "Gamma": 2.0, "NegBinom": 1.0}[cls]
            spread = LC.expand(skind, sval if skind != "default" else default, n, q)
        cost_of = lambda t: LC.ref_cost(cls, y, t[:, idx], W, spread)
        scale = float(np.sum(np.abs(LC.ref_terms(cls, y, base_p[:, idx], W, spread))))

        def ref_grad(trs, hs, ks):
            g, e = [], []
            for k in ks:
                d, er = richardson([cost_of(t) for t in trs[k]], hs[k])
                g.append(d); e.append(er)
            return np.array(g), np.array(e)

        def raise_sig(site, exc):
            en = type(exc).__name__
            if site == "sensitivityIV" and ts is not None and en == "TypeError":
                return "sensitivityIV:target_state-raises"
            if q == 1 and weights[0] == "per-obs" and en == "ValueError" and "broadcast" in str(exc):
                return "weights:per-obs-vector:single-state-raises"
            if cls == "Gamma" and q == 1 and en == "ValueError" and "aligned" in str(exc):
                return "GammaLoss:single-state-raises"
            return "%s:%sLoss:raises:%s" % (site, cls, en)

        try:
            LC.set_params(model, params, th_base)
            obj = LC.make_loss(cls, u0[:r], model, s["x0"], s["t0"], s["times"], y, obs, weights,
                               case["spreads"].get(cls, ["default", None]), tp=tp, ts=ts, style=case["style"])
        except Exception as exc:
            viol.append({"what": "%sLoss constructor raised %s: %s" % (cls, type(exc).__name__, str(exc)[:200]),
                         "signature": "constructor:%sLoss:raises:%s" % (cls, type(exc).__name__), "detail": json.dumps(case)[:1500]})
            continue
        evaluated += 1

        def refine_grad(with_x0):
            """finer reference derivative of the COST in coordinate k"""
            def f(k, cell=None):
                lv = finer(with_x0, k)
                if lv is None:
                    return None
                (p1, h1), (p2, h2) = lv
                return richardson([cost_of(t) for t in p1], h1)[0], richardson([cost_of(t) for t in p2], h2)[0]
            return f

        def refine_jac(with_x0):
            """finer reference derivative of observed state a at time i in coordinate b; flat index = i*(q*nv) + a + b*q"""
            nv = len(u0) if with_x0 else r
            def f(flat):
                i, col = divmod(flat, q * nv)
                b, a = divmod(col, q)
                lv = finer(with_x0, b)
                if lv is None:
                    return None
                (p1, h1), (p2, h2) = lv
                return (richardson([t[i, idx[a]] for t in p1], h1)[0], richardson([t[i, idx[a]] for t in p2], h2)[0])
            return f

        def nat(kind, with_x0):
            """natural size of the entries (scale-free cases): gradient entry k ~ cost / |u_k|, Jacobian entry (i, a + b q) ~ max |yhat| / |u_b|"""
            if not scale_free:
                return 1.0
            u = np.abs(np.array(u0 if with_x0 else u0[:r], float))
            if kind == "grad":
                return scale / u
            return np.tile(np.repeat(float(np.max(np.abs(base_p[:, idx]))) / u, q), n)

        def compare(site, got, fd, fd_err, tol_extra=0.0, rel=1e-4, refine=None, floor=1.0):
            got = np.asarray(got, float).ravel()
            if got.shape != fd.shape:
                viol.append({"what": "%s of %sLoss has %d entries for %d free variables" % (site, cls, got.size, fd.size),
                             "signature": "%s:%s:length" % (site, cls), "detail": "got %s fd %s" % (got.tolist(), fd.tolist())})
                return
            ok_fd = fd_err <= 1e-2 * (floor + np.abs(fd))           # the difference quotient itself must have converged
            tol = rel * (floor + np.abs(fd)) + tol_extra
            bad = (np.abs(got - fd) > tol) & ok_fd
            if np.any(bad) and refine is not None:
                # confirm on two finer levels before anything is reported (see `finer`)
                fd, ok_fd = np.array(fd, float), np.array(ok_fd, bool)
                for j in np.nonzero(bad)[0][:64]:
                    rr = refine(int(j))
                    if rr is None:
                        ok_fd[j] = False
                        continue
                    r1, r2 = rr
                    fd[j] = r2
                    ok_fd[j] = abs(r2 - r1) <= 0.1 * rel * ((floor if np.isscalar(floor) else floor[j]) + abs(r2))
                for j in np.nonzero(bad)[0][64:]:
                    ok_fd[j] = False
                tags.append("fd-refined:" + site.split("/")[0])
                tol = rel * (floor + np.abs(fd)) + tol_extra
                bad = (np.abs(got - fd) > tol) & ok_fd
            if not np.all(ok_fd):
                tags.append("fd-not-converged:" + site.split("/")[0])
            margins.append(float(np.max(np.where(ok_fd, np.abs(got - fd) / tol, 0.0))) if got.size else 0.0)
            if np.any(bad):
                viol.append({"what": "%s of %sLoss is not the derivative of the cost in the free variables, in the order supplied" % (site, cls),
                             "signature": classify(site.split("/")[0], cls, case, states, params, got, fd),
                             "detail": "got %s finite-difference %s (tolerance %s) obs=%s states=%s free params=%s free states=%s" % (
                                 got.tolist(), fd.tolist(), np.asarray(tol).tolist(), obs, states, fp, fs if "IV" in site else None)})

        # ---- parameters only
        g_ref, g_err = ref_grad(tr_p, h_p, range(r))
        g_sens = None
        for site, call in (("sensitivity", lambda: obj.sensitivity(u0[:r])), ("gradient", lambda: obj.gradient(u0[:r]))):
            try:
                g = call()
                if site == "sensitivity":
                    g_sens = g
                compare(site + "/reference-cost", g, g_ref, g_err, refine=refine_grad(False), floor=nat("grad", False))
            except Exception as exc:
                viol.append({"what": "%s of %sLoss raised %s: %s" % (site, cls, type(exc).__name__, str(exc)[:200]),
                             "signature": raise_sig(site, exc), "detail": json.dumps({k: case[k] for k in ("target_param", "target_state", "weights")}) + " obs=%s" % obs})
        if g_sens is not None:
            # (b) pygom's own cost
            try:
                gb, eb, hb = [], [], []
                for k in range(r):
                    d_, e_, h = fd_ladder(obj.cost, list(u0[:r]), k, 1e-2 * max(abs(u0[k]), fd_floor), scale)
                    gb.append(d_); eb.append(e_); hb.append(h)
                compare("sensitivity/own-cost", g_sens, np.array(gb), np.array(eb), tol_extra=1e-7 * scale / np.array(hb), rel=1e-3, floor=nat("grad", False))
            except Exception as exc:
                viol.append({"what": "cost of %sLoss raised %s during differencing" % (cls, type(exc).__name__), "signature": "cost:%sLoss:raises:%s" % (cls, type(exc).__name__), "detail": str(exc)[:300]})
            if case["full_output"]:
                try:
                    gfo = obj.sensitivity(u0[:r], full_output=True)[0]
                    compare("sensitivity(full_output)/reference-cost", gfo, g_ref, g_err, refine=refine_grad(False), floor=nat("grad", False))
                except Exception as exc:
                    viol.append({"what": "sensitivity(full_output=True) of %sLoss raised %s: %s" % (cls, type(exc).__name__, str(exc)[:200]),
                                 "signature": "sensitivity-full_output:%sLoss:raises:%s" % (cls, type(exc).__name__), "detail": ""})
            for m in case["methods"]:
                try:
                    gm = obj.sensitivity(u0[:r], method=m)
                    tags.append("method:" + m)
                    # a named integrator steps across the kinks of a time-windowed rate at its own error control: vode was seen
                    # 1.4e-4 off on a late-step window (thorough tier, seed 11) while the default method is within 1e-6
                    compare("sensitivity(method=%s)/reference-cost" % m, gm, g_ref, g_err, refine=refine_grad(False),
                            rel=(1e-3 if s["model"].get("src") == "td" else 1e-4))
                except Exception as exc:
                    viol.append({"what": "sensitivity(method=%s) of %sLoss raised %s: %s" % (m, cls, type(exc).__name__, str(exc)[:200]),
                                 "signature": "sensitivity-method:%s:%sLoss:raises:%s" % (m, cls, type(exc).__name__), "detail": ""})
        # jac: columns a + b*q  <->  d yhat[:, a] / d free parameter b
        if cls == "Square":
            try:
                J = np.asarray(obj.jac(u0[:r]), float)
                Jref = np.zeros((n, q * r)); Jerr = np.zeros((n, q * r))
                for b in range(r):
                    d_, e_ = richardson([t[:, idx] for t in tr_p[b]], h_p[b])
                    for a in range(q):
                        Jref[:, a + b * q] = d_[:, a]; Jerr[:, a + b * q] = e_[:, a]
                if J.shape != Jref.shape:
                    viol.append({"what": "jac has shape %s, expected %s" % (J.shape, Jref.shape), "signature": "jac:shape", "detail": ""})
                else:
                    compare("jac/reference-trajectory", J.ravel(), Jref.ravel(), Jerr.ravel(), refine=refine_jac(False), floor=nat("jac", False))
            except Exception as exc:
                viol.append({"what": "jac raised %s: %s" % (type(exc).__name__, str(exc)[:200]), "signature": "jac:raises:%s" % type(exc).__name__, "detail": ""})
        # ---- parameters and initial values
        if ambiguous_iv:
            tags.append("IV-skipped:length-equals-num_param")
            continue
        gi_ref, gi_err = ref_grad(tr_iv, h_iv, range(len(u0)))
        # jacIV: columns a + b*q  <->  d yhat[:, a] / d free variable b  (free parameters in the order of target_param, then the
        # free initial values in the order of target_state)
        if cls == "Square":
            try:
                nv = len(u0)
                J = np.asarray(obj.jacIV(list(u0)), float)
                Jref = np.zeros((n, q * nv)); Jerr = np.zeros((n, q * nv))
                for b in range(nv):
                    d_, e_ = richardson([t[:, idx] for t in tr_iv[b]], h_iv[b])
                    for a in range(q):
                        Jref[:, a + b * q] = d_[:, a]; Jerr[:, a + b * q] = e_[:, a]
                if J.shape != Jref.shape:
                    viol.append({"what": "jacIV has shape %s, expected %s" % (J.shape, Jref.shape), "signature": "jacIV:shape", "detail": ""})
                else:
                    compare("jacIV/reference-trajectory", J.ravel(), Jref.ravel(), Jerr.ravel(), refine=refine_jac(True), floor=nat("jac", True))
            except Exception as exc:
                viol.append({"what": "jacIV raised %s: %s" % (type(exc).__name__, str(exc)[:200]),
                             "signature": ("jacIV:target_state-raises" if ts is not None and isinstance(exc, TypeError) else "jacIV:raises:%s" % type(exc).__name__), "detail": ""})
        try:
            gi = obj.sensitivityIV(list(u0))
            compare("sensitivityIV/reference-cost", gi, gi_ref, gi_err, refine=refine_grad(True), floor=nat("grad", True))
            gb, eb, hb = [], [], []
            for k in range(len(u0)):
                d_, e_, h = fd_ladder(obj.costIV, list(u0), k, 1e-2 * max(abs(u0[k]), fd_floor), scale)
                gb.append(d_); eb.append(e_); hb.append(h)
            compare("sensitivityIV/own-costIV", gi, np.array(gb), np.array(eb), tol_extra=1e-7 * scale / np.array(hb), rel=1e-3, floor=nat("grad", True))
        except Exception as exc:
            viol.append({"what": "sensitivityIV of %sLoss raised %s: %s" % (cls, type(exc).__name__, str(exc)[:200]),
                         "signature": raise_sig("sensitivityIV", exc), "detail": json.dumps({k: case[k] for k in ("target_param", "target_state", "weights")}) + " obs=%s" % obs})
    nontrivial = evaluated > 0 and (len(u0) >= 2 or q >= 2)
    return {"nontrivial": nontrivial, "mismatches": mism, "violations": viol, "tags": sorted(set(tags)),
            "sample": {"model": s["model"].get("name", "random"), "obs": obs, "states": states, "target_param": tp, "target_state": ts,
                       "weights": case["weights"][0], "worst_error_over_tolerance": max(margins)}}


# --------------------------------------------------------------------------- history cases (losshist.py)

HIST_JUDGED = ["sensitivity", "gradient", "jac", "sensitivityIV", "jacIV", "diff_loss", "diff_lossIV"]


def _fd_points(ev, with_x0):
    """reference trajectories at the current values and at +-h, +-h/2 in every free variable of the object (parameters in
    the order of target_param, then - for the IV entry points - initial values in the order of target_state);
    None when one of them does not exist"""
    ctx, spec = ev["ctx"], ev["spec"]
    s = ctx.s
    fp = spec["tp"] if spec["tp"] is not None else s["params"]
    fs = (spec["ts"] if spec["ts"] is not None else s["states"]) if with_x0 else []
    th, x0 = ev["th"], ev["x0"]
    out, hs = [], []
    for kind, name in [("p", k) for k in fp] + [("s", k) for k in fs]:
        j = s["params"].index(name) if kind == "p" else s["states"].index(name)
        u = th[j] if kind == "p" else x0[j]
        h = 2e-3 * max(abs(u), 0.05)
        pts = []
        for dlt in (h, -h, h / 2, -h / 2):
            th2, x2 = list(th), list(x0)
            if kind == "p":
                th2[j] = u + dlt
            else:
                x2[j] = u + dlt
            t = ctx.traj(th2, x2)
            if t is None:
                return None, None
            pts.append(t)
        out.append(pts); hs.append(h)
    return out, hs


def judge_history(ev):
    """sensitivity / gradient / jac / sensitivityIV / jacIV / diff_loss / diff_lossIV against finite differences of the
    independent reference FOR THE VALUES THE OBJECT CURRENTLY HOLDS.  In the Lean model (Sens.sensToGrad,
    grad_is_chain_rule) the gradient is a pure function of (theta, x0, data, layout): whatever was called before, and with
    whatever arguments, may not matter."""
    d, spec, fn, ctx = ev["d"], ev["spec"], ev["fn"], ev["ctx"]
    cls = spec["cls"]
    y, W, spread, idx = d["y"], d["W"], d["spread"], d["idx"]
    n, q = d["n"], d["p"]
    base = ctx.traj(ev["th"], ev["x0"])
    out = []

    def cmp(got, fd, fd_err, what, rel=1e-4):
        got = np.asarray(got, float).ravel()
        if got.shape != fd.shape:
            out.append({"what": "%s of %sLoss has %d entries, expected %d" % (fn, cls, got.size, fd.size), "class": "length",
                        "detail": "got %s reference %s" % (got.tolist()[:20], fd.tolist()[:20])})
            return
        ok_fd = fd_err <= 1e-2 * (1 + np.abs(fd))
        if not np.all(ok_fd):
            ev["tags"].append("fd-not-converged:history")
        tol = rel * (1 + np.abs(fd))
        bad = ((np.abs(got - fd) > tol) | ~np.isfinite(got)) & ok_fd
        if np.any(bad):
            out.append({"what": what, "detail": "got %s reference %s (tolerance %s)" % (got.tolist()[:24], fd.tolist()[:24], np.asarray(tol).tolist()[:24])})

    if fn in ("diff_loss", "diff_lossIV"):
        # contract used by sens_to_grad:  gradient = sum_i  diff_loss[i] * w[i] * d yhat[i]/d theta
        yhat = base[:, idx]
        h = 1e-3 * (yhat if cls in LC.NEEDS_POSITIVE else np.maximum(np.abs(yhat), 1e-2))
        f = lambda v: LC.ref_terms(cls, y, v, W, spread)
        fd, err = richardson([f(yhat + h), f(yhat - h), f(yhat + h / 2), f(yhat - h / 2)], h)
        got = np.asarray(ev["got"], float)
        if got.size == fd.size:
            got = got.reshape(fd.shape) * W
        cmp(got, fd.ravel(), err.ravel(), "weight x %s of %sLoss is not the derivative of the per-entry loss terms in the prediction, at the values the object holds" % (fn, cls))
        return out
    iv = fn in ("sensitivityIV", "jacIV")
    trs, hs = _fd_points(ev, iv)
    if trs is None:
        ev["tags"].append("unjudged:reference-failed-or-outside-domain")
        return None
    if cls in LC.NEEDS_POSITIVE and min(t[:, idx].min() for pts in trs for t in pts) < 0.02:
        ev["tags"].append("unjudged:reference-failed-or-outside-domain")
        return None
    if fn in ("jac", "jacIV"):
        nv = len(trs)
        Jref = np.zeros((n, q * nv)); Jerr = np.zeros((n, q * nv))
        for b in range(nv):
            d_, e_ = richardson([t[:, idx] for t in trs[b]], hs[b])
            for a in range(q):
                Jref[:, a + b * q] = d_[:, a]; Jerr[:, a + b * q] = e_[:, a]
        J = np.asarray(ev["got"], float)
        if J.shape != Jref.shape:
            out.append({"what": "%s has shape %s, expected %s" % (fn, J.shape, Jref.shape), "class": "shape", "detail": ""})
        else:
            cmp(J, Jref.ravel(), Jerr.ravel(), "%s is not the derivative of the reference trajectory in the free variables (column a + b q = observed state a, free variable b) "
                "at the values the object holds" % fn)
        return out
    cost_of = lambda t: LC.ref_cost(cls, y, t[:, idx], W, spread)
    g, e = [], []
    for pts, h in zip(trs, hs):
        d_, er = richardson([cost_of(t) for t in pts], h)
        g.append(d_); e.append(er)
    cmp(ev["got"], np.array(g), np.array(e), "%s of %sLoss is not the derivative of the reference cost in the free variables, in the order supplied, at the values the object holds" % (fn, cls))
    return out


def run_history(case):
    r = LH.execute(case, judge_history, HIST_JUDGED)
    r["sample"] = {"kind": "history", "family": case["family"], "ops": [(o.get("fn") or o["op"]) for o in case["ops"]]}
    return r


def run_case(case):
    if case["kind"] == "exact":
        return run_exact(case)
    if case["kind"] == "history":
        return run_history(case)
    return run_grad(case)
