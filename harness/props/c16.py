"""
C16 - seeded serial simulations are reproducible (serial only: every call is made with parallel=False).

Proof: Pygom/Props/C16.lean about the executable model Pygom/Seed.lean, in which every stochastic entry point is a
function World -> Output x World threading ONE stream (run_many_threads_stream, stream_segments,
segment_determines_run, draw_schedule*, history_irrelevant*, foreign_source_breaks_counterexample, mean_is_mean,
different_first_wait_different_path, different_streams_same_output_counterexample).

Tie (correspondence), on every case:
  * a Recorder wraps, for the duration of a real run, every sampling function of numpy's GLOBAL generator
    (np.random.exponential/poisson/gamma/uniform/...), the rvs of the frozen scipy distributions and the samplers of the
    (sampler, args) tuples handed to the model, np.random.seed/set_state, and every other source of randomness
    (np.random.RandomState, default_rng, Generator, bit generators, the `random` module);
  * the recorded sequence (kind, parameter, value) must equal the request schedule of the Lean model, which is run on the
    recorded values: per _jump the parameter redraw, then per loop iteration `stepS` from the observed pre-state (C04's
    per-step replay, stream threaded through all iterations of all n jumps); for random-parameter runs `simulateParam`
    itself with the integrator replaced by reference integrations at the parameter vectors the stream yields;
  * replaying the recorded calls on a fresh RandomState(seed) must reproduce every value bit for bit AND end in the
    state the global generator is in after the run (nothing else consumed it, nothing else served a draw);
  * anything served by another source, a re-seed, or an unexpected call is a mismatch (-> failing-input search).

Direct oracle (no Lean), on every case: same np.random.seed(s) => bitwise identical outputs (every returned piece), on
a fresh model, on the same model again, inside call sequences (seed; A; B twice), after a different earlier run followed
by re-seeding, with full_output False/True; different seeds => different raw outputs when the recorded run makes a
coincidence less likely than 1e-12; Y == mean(Y_all) to 1e-12 of the largest term (exact rational reference mean), for
both random-parameter input forms, both entry points, n = 1..6.
"""
import contextlib
import io
import math
import random
import sys
from fractions import Fraction

import numpy as np

from .. import leanio, pymodel
from . import stoch_common as SC

PROP = "C16"
LEAN = {"module": "Pygom.Props.C16",
        "required": ["Pygom.C16.run_many_threads_stream", "Pygom.C16.solve_stochast_threads_stream",
                     "Pygom.C16.simulate_param_threads_stream", "Pygom.C16.same_stream_same_outputs",
                     "Pygom.C16.history_irrelevant", "Pygom.C16.history_irrelevant_param",
                     "Pygom.C16.stream_segments", "Pygom.C16.segment_determines_run",
                     "Pygom.C16.draw_schedule_step", "Pygom.C16.draw_schedule_jump", "Pygom.C16.draw_schedule",
                     "Pygom.C16.draw_schedule_param", "Pygom.C16.jump_is_c04_run", "Pygom.C16.never_starved",
                     "Pygom.C16.history_irrelevant_solve_stochast", "Pygom.C16.solve_determ_fixed_no_draws",
                     "Pygom.C16.mean_over_n_plus_one_counterexample",
                     "Pygom.C16.no_foreign_requests_primary_only", "Pygom.C16.foreign_source_breaks_counterexample",
                     "Pygom.C16.foreign_retry_breaks_counterexample", "Pygom.C16.mean_is_mean",
                     "Pygom.C16.first_wait_is_min_of_draws", "Pygom.C16.different_first_wait_different_path",
                     "Pygom.C16.different_streams_same_output_counterexample"]}
BUDGET = {"quick": {"stoch": 500, "param": 300},
          "thorough": {"stoch": 4000, "param": 3000, "max_steps": 1000, "steps": [30, 80, 200, 400]}}
RULE = ("serial calls only (parallel=False). STOCH cases: bounded-rate event models of the shared generator (1-5 states, 1-5 events, "
        "all API routes, derived parameters), integer initial states, x {exact, adaptive tau, fixed tau with steps large enough to be "
        "rejected by the limits}, n = 1..6 iterations, horizon as number / one-element list / grid (list, tuple, array), 30% with "
        "stochastic parameters (frozen scipy distribution, (sampler, args) tuple with tuple or dict arguments, mixed with numbers, "
        "partial dicts, dict order shuffled). PARAM cases: the same models integrated deterministically by simulate_param / "
        "solve_determ with a random-parameter dict (frozen / tuple / mixed), n = 1..6, full_output both ways. Every choice, "
        "including the numpy seeds, derives from the case seed. A STOCH case is non-trivial when the traced call recorded >= 5 "
        "accepted steps; a PARAM case when the integrations made with different draws differ.")
ASSUMPTIONS = ["'different seeds change the outputs' is runtime: numpy maps different seeds to streams whose first consumed draws differ; "
               "checked on raw (scalar-horizon) stochastic output with >= 20 recorded events and a coincidence probability < 1e-12 "
               "computed from the recorded run (a continuous draw, or the product of the Poisson pmfs of the recorded counts), and "
               "on random-parameter runs whose integrations depend on the drawn values",
               "numpy's generator is a deterministic function of its state (its law is C05's concern)",
               "the integrator is a deterministic function of (parameters, initial values, times) (C02)",
               "IEEE double vs exact rational arithmetic: Poisson means / exponential scales compared to 1e-11 / 1e-12 relative, "
               "Y against the exact rational mean to 1e-12 of the largest term"]
TRUSTED = ["harness generator, Recorder (wrappers of numpy.random, scipy frozen rvs, samplers, RandomState/default_rng/random) and "
           "C04's tracer (evaluator / _jump wrappers)", "Lean driver JSON codec",
           "a step / rate cap installed on the model's rate evaluator in every run (deterministic in the path)"]
CASE_TIMEOUT = 240

NP_SAMPLERS = ["beta", "binomial", "bytes", "chisquare", "choice", "dirichlet", "exponential", "f", "gamma", "geometric", "gumbel",
               "hypergeometric", "laplace", "logistic", "lognormal", "logseries", "multinomial", "multivariate_normal",
               "negative_binomial", "noncentral_chisquare", "noncentral_f", "normal", "pareto", "permutation", "poisson", "power",
               "rand", "randint", "randn", "random", "random_integers", "random_sample", "ranf", "rayleigh", "sample", "shuffle",
               "standard_cauchy", "standard_exponential", "standard_gamma", "standard_normal", "standard_t", "triangular", "uniform",
               "vonmises", "wald", "weibull", "zipf"]
NP_SOURCES = ["default_rng", "Generator", "MT19937", "PCG64", "PCG64DXSM", "Philox", "SFC64", "SeedSequence"]
PY_RANDOM = ["random", "uniform", "gauss", "normalvariate", "expovariate", "randint", "randrange", "choice", "choices", "sample",
             "shuffle", "betavariate", "gammavariate", "lognormvariate", "paretovariate", "triangular", "vonmisesvariate",
             "weibullvariate", "getrandbits", "randbytes", "binomialvariate", "seed", "setstate", "Random", "SystemRandom"]


# ----------------------------------------------------------------------------- recorder
def _from_symbolic(frame):
    """the `random` module used from inside sympy / mpmath (numeric equality tests while an expression is compiled) is not a
    draw of the simulation"""
    name = frame.f_globals.get("__name__", "") if frame is not None else ""
    return name.startswith("sympy") or name.startswith("mpmath")


class Recorder:
    """records every call into numpy's global generator and every use of another source while active"""

    def __init__(self):
        self.events = []       # top level, in order: np / param / seed events
        self.foreign = []      # other sources constructed or used
        self._ctx = None       # the param event being served (its np calls are its `inner`)
        self._saved = []
        self.end_state = None

    # -- installation
    def _patch(self, obj, name, new):
        self._saved.append((obj, name, getattr(obj, name)))
        setattr(obj, name, new)

    def __enter__(self):
        import random as pyrandom
        rec = self
        self.events, self.foreign, self._ctx = [], [], None     # draws made while the inputs were handed to the model are not part of the run
        for name in NP_SAMPLERS:
            if hasattr(np.random, name):
                self._patch(np.random, name, self._np_wrapper(name, getattr(np.random, name)))
        for name in ("seed", "set_state"):
            orig = getattr(np.random, name)

            def w(*a, _o=orig, _n=name, **k):
                rec.events.append({"k": "seed", "fn": _n, "arg": a[0] if a and isinstance(a[0], (int, np.integer)) else None})
                return _o(*a, **k)
            self._patch(np.random, name, w)
        orig_rs = np.random.RandomState

        class RecordingRandomState(orig_rs):          # a subclass: isinstance(x, np.random.RandomState) keeps working
            def __init__(self, *a, **k):
                rec.foreign.append("np.random.RandomState(%s)" % ("" if not a and not k else "..."))
                super().__init__(*a, **k)
        self._patch(np.random, "RandomState", RecordingRandomState)
        self._patch(np.random.mtrand, "RandomState", RecordingRandomState)
        for name in NP_SOURCES:
            if hasattr(np.random, name):
                orig = getattr(np.random, name)
                if isinstance(orig, type):
                    try:
                        sub = type("Recording" + name, (orig,), {"__init__": self._init_recorder("np.random." + name, orig)})
                        self._patch(np.random, name, sub)
                    except TypeError:
                        pass
                else:
                    def f(*a, _o=orig, _n=name, **k):
                        rec.foreign.append("np.random.%s()" % _n)
                        return _o(*a, **k)
                    self._patch(np.random, name, f)
        for name in PY_RANDOM:
            if hasattr(pyrandom, name):
                orig = getattr(pyrandom, name)
                if isinstance(orig, type):
                    try:
                        sub = type("Recording" + name, (orig,), {"__init__": self._init_recorder("random." + name, orig)})
                        self._patch(pyrandom, name, sub)
                    except TypeError:
                        pass
                else:
                    def f(*a, _o=orig, _n=name, **k):
                        if not _from_symbolic(sys._getframe(1)):
                            rec.foreign.append("random.%s()" % _n)
                        return _o(*a, **k)
                    self._patch(pyrandom, name, f)
        return self

    def _init_recorder(self, label, orig):
        rec = self

        def __init__(self_, *a, **k):
            if not (label.startswith("random.") and _from_symbolic(sys._getframe(1))):
                rec.foreign.append(label + "(...)")
            try:
                orig.__init__(self_, *a, **k)
            except TypeError:
                orig.__init__(self_)
        return __init__

    def __exit__(self, *exc):
        for obj, name, orig in reversed(self._saved):
            setattr(obj, name, orig)
        self._saved = []
        return False

    def _np_wrapper(self, name, orig):
        rec = self

        def w(*a, **k):
            v = orig(*a, **k)
            ev = {"k": "np", "fn": name, "args": a, "kwargs": dict(k), "value": np.array(v, copy=True)}
            if rec._ctx is not None:
                rec._ctx["inner"].append(ev)
            else:
                rec.events.append(ev)
            return v
        return w

    # -- stochastic-parameter inputs handed to the model
    def wrap_frozen(self, key, frozen):
        rec = self
        orig = frozen.rvs

        def rvs(*a, **k):
            ev = {"k": "param", "key": key, "form": "frozen", "inner": [], "args": a, "kwargs": dict(k), "orig": orig}
            rec.events.append(ev)
            outer, rec._ctx = rec._ctx, ev
            try:
                v = orig(*a, **k)
            finally:
                rec._ctx = outer
            ev["raw"] = np.array(v, copy=True)
            return v
        frozen.rvs = rvs
        return frozen

    def wrap_sampler(self, key, sampler):
        rec = self

        def sample(*a, **k):
            ev = {"k": "param", "key": key, "form": "tuple", "inner": [], "args": a, "kwargs": dict(k)}
            rec.events.append(ev)
            outer, rec._ctx = rec._ctx, ev
            try:
                v = sampler(*a, **k)
            finally:
                rec._ctx = outer
            ev["raw"] = np.array(v, copy=True)
            return v
        return sample

    # -- views
    def stream(self):
        """[(kind, parameter, value)] of the top-level events after the harness's own seed"""
        out = []
        for ev in self.events:
            if ev["k"] == "seed":
                out.append(("seed", ev["fn"], ev["arg"]))
            elif ev["k"] == "param":
                raw = np.asarray(ev["raw"], float).ravel()
                out.append(("param", ev["key"], float(raw[0]) if raw.size == 1 else None))
            else:
                a, k = ev["args"], ev["kwargs"]
                val = np.asarray(ev["value"]).ravel()
                one = val.size == 1 and k.get("size", a[-1] if len(a) > 1 else None) in (1, None)
                if ev["fn"] == "exponential" and one:
                    out.append(("expo", float(k.get("scale", a[0] if a else 1.0)), float(val[0])))
                elif ev["fn"] == "poisson" and one:
                    out.append(("pois", float(k.get("lam", a[0] if a else 1.0)), int(val[0])))
                else:
                    out.append(("other:" + ev["fn"], None, None))
        return out


def shadow_account(rec, seed, end_state):
    """replay every recorded call on a fresh RandomState(seed): values must agree bit for bit and the final state must be
    the global generator's.  returns list of problems (strings)"""
    sh = np.random.RandomState(seed)
    bad = []

    def replay_np(ev):
        try:
            v = getattr(sh, ev["fn"])(*ev["args"], **ev["kwargs"])
        except Exception as exc:   # noqa
            bad.append("cannot replay np.random.%s: %s" % (ev["fn"], exc))
            return
        if np.asarray(v).tobytes() != np.asarray(ev["value"]).tobytes():
            bad.append("np.random.%s%s returned %s, a generator seeded with %s gives %s at this point"
                       % (ev["fn"], tuple(ev["args"]), np.asarray(ev["value"]).ravel()[:3], seed, np.asarray(v).ravel()[:3]))

    started = False
    for ev in rec.events:
        if ev["k"] == "seed":
            if started:
                bad.append("np.random.%s called during the run" % ev["fn"])
            started = True
            continue
        if len(bad) > 3:
            break
        if ev["k"] == "np":
            replay_np(ev)
        else:
            if ev["form"] == "frozen":
                if ev["kwargs"].get("random_state") is not None or len(ev["args"]) > 1:
                    bad.append("frozen distribution of %s sampled with an explicit random_state" % ev["key"])
                    continue
                v = ev["orig"](*ev["args"], **dict(ev["kwargs"], random_state=sh))
                if np.asarray(v).tobytes() != np.asarray(ev["raw"]).tobytes():
                    bad.append("rvs of %s returned %s, a generator seeded with %s gives %s at this point"
                               % (ev["key"], np.asarray(ev["raw"]).ravel()[:3], seed, np.asarray(v).ravel()[:3]))
            else:
                for inner in ev["inner"]:
                    replay_np(inner)
    if not bad and end_state is not None:
        a, b = sh.get_state(), end_state
        if not (a[0] == b[0] and np.array_equal(a[1], b[1]) and a[2] == b[2] and a[3] == b[3] and (a[3] == 0 or a[4] == b[4])):
            bad.append("the global generator is not in the state the recorded calls lead to (something else consumed or reset it)")
    return bad


# ----------------------------------------------------------------------------- stochastic-parameter dicts
def _scaled(v, f):
    return float(v) * f


def gen_pdict(rng, names, base, form):
    """JSON description of a parameter dict with at least one distribution-valued entry (dict order = list order)"""
    names = list(names)
    rng.shuffle(names)
    if len(names) > 1 and rng.random() < 0.3:
        names = names[:rng.randint(1, len(names) - 1)]        # partial dict: the other parameters keep their values
    out = []
    for i, name in enumerate(names):
        v = float(base[name])
        if i > 0 and rng.random() < 0.3:
            out.append({"name": name, "kind": "fixed", "value": v * rng.choice([1.0, 0.5, 2.0])})
            continue
        f = form if form in ("frozen", "tuple") else rng.choice(["frozen", "tuple"])
        if f == "frozen":
            d = rng.choice(["gamma", "gamma", "uniform", "lognorm", "norm", "expon", "beta", "triang"])
            if d == "gamma":
                e = {"dist": "gamma", "args": [100.0, 0.0, v / 100.0]}
            elif d == "uniform":
                e = {"dist": "uniform", "args": [0.8 * v, 0.4 * v]}
            elif d == "lognorm":
                e = {"dist": "lognorm", "args": [0.1, 0.0, v]}
            elif d == "norm":
                e = {"dist": "norm", "args": [v, 0.05 * v]}
            elif d == "expon":
                e = {"dist": "expon", "args": [0.0, v]}
            elif d == "beta":
                e = {"dist": "beta", "args": [20.0, 20.0, 0.0, 2.0 * v]}
            else:
                e = {"dist": "triang", "args": [0.5, 0.8 * v, 0.4 * v]}
            out.append(dict({"name": name, "kind": "frozen"}, **e))
        else:
            s = rng.choice(["rgamma", "rgamma", "rnorm", "runif", "rexp", "hunif"])
            as_dict = rng.random() < 0.4
            if s == "rgamma":
                e = {"sampler": "rgamma", "kwargs": {"shape": 100.0, "rate": 100.0 / v}} if as_dict else {"sampler": "rgamma", "args": [100.0, 100.0 / v]}
            elif s == "rnorm":
                e = {"sampler": "rnorm", "kwargs": {"mean": v, "sd": 0.05 * v}} if as_dict else {"sampler": "rnorm", "args": [v, 0.05 * v]}
            elif s == "runif":
                e = {"sampler": "runif", "kwargs": {"min": 0.8 * v, "max": 1.2 * v}} if as_dict else {"sampler": "runif", "args": [0.8 * v, 1.2 * v]}
            elif s == "rexp":
                e = {"sampler": "rexp", "args": [1.0 / v]}
            else:
                e = {"sampler": "hunif", "args": [0.8 * v, 1.2 * v]}
            out.append(dict({"name": name, "kind": "tuple"}, **e))
    if not any(e["kind"] != "fixed" for e in out):
        return gen_pdict(rng, names, base, form)
    return out


def hunif(n, lo, hi):
    """a user-written sampler: scalar from numpy's global generator"""
    return np.random.uniform(lo, hi)


def build_pdict(desc, rec=None):
    """the real dict handed to `model.parameters` (fresh objects every time); with `rec` the inputs are recording proxies"""
    import scipy.stats as st
    from pygom import utilR
    d = {}
    for e in desc:
        if e["kind"] == "fixed":
            d[e["name"]] = float(e["value"])
        elif e["kind"] == "frozen":
            fz = getattr(st, e["dist"])(*e["args"])
            d[e["name"]] = rec.wrap_frozen(e["name"], fz) if rec is not None else fz
        else:
            smp = hunif if e["sampler"] == "hunif" else getattr(utilR, e["sampler"])
            if rec is not None:
                smp = rec.wrap_sampler(e["name"], smp)
            d[e["name"]] = (smp, dict(e["kwargs"])) if "kwargs" in e else (smp, tuple(e["args"]))
    return d


# ----------------------------------------------------------------------------- cases
def make_cases(rng, tier, budget):
    cases = []
    n_st, n_pa = budget["stoch"], budget["param"]
    while len([c for c in cases if c["kind"] == "stoch"]) < n_st:
        r = random.Random(rng.getrandbits(64))
        base = SC.gen_sim_case(r, max_x0=25)
        if base is None:
            continue
        mode = r.choice(["exact", "exact", "tau_adaptive", "tau_fixed", "tau_fixed"])
        c = dict(base)
        c["kind"] = "stoch"
        c["sim"] = SC.sim_settings(r, base, mode, big_tau=(mode == "tau_fixed" and r.random() < 0.7), steps=[5, 10, 20] if mode == "tau_adaptive" else budget.get("steps", [20, 30, 50, 80]))
        t0, T = c["sim"]["t0"], c["sim"]["T"]
        c["n"] = r.randint(1, 6)
        c["A"] = {"time": r.choice(["float", "float", "float", "list1", "int", "grid"]), "n": c["n"], "exact": mode == "exact"}
        if c["A"]["time"] == "int":
            c["sim"]["T"] = T = float(max(int(t0) + 1, int(math.ceil(T))))
        k = r.randint(3, 7)
        c["grid"] = [t0 + (T - t0) * i / (k - 1) for i in range(k)]
        c["grid_kind"] = r.choice(["list", "tuple", "array"])
        # a second, different call for the history sequences
        c["B"] = {"time": "grid" if c["A"]["time"] != "grid" else "float", "n": r.randint(1, 3), "exact": r.random() < 0.5}
        c["seed2"] = r.randrange(2 ** 31)
        c["seed3"] = r.randrange(2 ** 31)
        c["pdict"] = gen_pdict(r, base["meta"]["params"], base["params"], r.choice(["frozen", "tuple", "mixed"])) if r.random() < 0.3 else None
        c["max_steps"] = budget.get("max_steps", SC.MAX_STEPS)
        cases.append(c)
    while len([c for c in cases if c["kind"] == "param"]) < n_pa:
        r = random.Random(rng.getrandbits(64))
        base = SC.gen_sim_case(r, max_x0=25)
        if base is None:
            continue
        c = dict(base)
        c["kind"] = "param"
        c["sim"] = SC.sim_settings(r, base, "exact", steps=[20, 40])
        t0, T = c["sim"]["t0"], c["sim"]["T"]
        k = r.randint(2, 8)
        c["grid"] = [t0 + (T - t0) * (i + 1) / k for i in range(k)]
        c["form"] = r.choice(["frozen", "tuple", "mixed"])
        c["pdict"] = gen_pdict(r, base["meta"]["params"], base["params"], c["form"])
        c["n"] = r.randint(1, 6)
        c["A"] = {"entry": r.choice(["simulate_param", "solve_determ"]), "n": c["n"]}
        c["B"] = {"entry": r.choice(["simulate_param", "solve_determ"]), "n": r.randint(1, 3)}
        c["seed2"] = r.randrange(2 ** 31)
        c["seed3"] = r.randrange(2 ** 31)
        cases.append(c)
    return cases


def search_cases(rng, tier, budget):
    b = dict(budget)
    b["stoch"], b["param"] = budget["stoch"] * 3, budget["param"] * 3
    return make_cases(rng, tier, b)


# ----------------------------------------------------------------------------- helpers
def same(a, b):
    """bitwise identity of two returned pieces (arrays, numbers, nested lists/tuples of them)"""
    if isinstance(a, (list, tuple)) or isinstance(b, (list, tuple)):
        if not (isinstance(a, (list, tuple)) and isinstance(b, (list, tuple))) or len(a) != len(b):
            return False
        return all(same(x, y) for x, y in zip(a, b))
    a, b = np.asarray(a), np.asarray(b)
    return a.shape == b.shape and a.dtype == b.dtype and a.tobytes() == b.tobytes()


def brief(o):
    if isinstance(o, (list, tuple)):
        return "[" + ", ".join(brief(x) for x in o[:3]) + (", ..." if len(o) > 3 else "") + "]"
    a = np.asarray(o)
    return "array%s%s" % (a.shape, a.ravel()[:4].tolist())


WARNED = []     # warnings raised by the runs of the current case (integration failures: lsoda "excess work", overflow)


def quiet(f, *a, **k):
    import warnings
    buf = io.StringIO()
    with contextlib.redirect_stdout(buf), warnings.catch_warnings(record=True) as w:
        warnings.simplefilter("always")
        try:
            return f(*a, **k), None
        except Exception as exc:   # compared between runs, judged by the caller
            return None, exc
        finally:
            WARNED.extend(str(x.category.__name__) for x in w)


@contextlib.contextmanager
def caps(model, exact, max_steps):
    """the same deterministic cut for explosive paths that C04's tracer installs (so that a traced and an untraced run of one
    seed are cut at the same place): the first evaluator of a loop iteration raises SimulationError once a _jump has made
    `max_steps` iterations, the rate evaluator raises it when the total rate exceeds the cap; _jump catches it and returns
    the path so far.  A function of the path alone."""
    from pygom.model._model_errors import SimulationError
    first = "vMat" if exact else "pureOdeVector"
    orig_first, orig_rate, orig_jump = getattr(model, first), model.eventRateVector, model._jump
    cnt = [0]

    def first_w(state, t):
        cnt[0] += 1
        if cnt[0] > max_steps:
            raise SimulationError("harness: step cap reached")
        return orig_first(state, t)

    def rate_w(state, t):
        v = orig_rate(state, t)
        if float(np.sum(np.abs(v))) > SC.RATE_CAP:
            raise SimulationError("harness: rate cap reached")
        return v

    def jump_w(*a, **k):
        cnt[0] = 0
        return orig_jump(*a, **k)
    setattr(model, first, first_w)
    model.eventRateVector = rate_w
    model._jump = jump_w
    try:
        yield
    finally:
        setattr(model, first, orig_first)
        model.eventRateVector = orig_rate
        try:
            del model._jump
        except AttributeError:
            pass


def time_arg(case, which):
    k = case[which]["time"]
    T = case["sim"]["T"]
    if k == "grid":
        g = case["grid"]
        return {"list": list(g), "tuple": tuple(g), "array": np.array(g, float)}[case["grid_kind"]]
    if k == "list1":
        return [T]
    if k == "int":
        return int(T)
    return T


def fresh_stoch_model(case, rec=None):
    model = SC.build_model(case)
    if case.get("pdict"):
        model.parameters = build_pdict(case["pdict"], rec)
    x0 = np.array(case["x0"], float)
    t0 = case["sim"]["t0"]
    for name in SC.EVALUATORS:                 # compile now (sympy), outside every recorded run
        getattr(model, name)(x0, t0)
    return model


def stoch_call(model, case, which, seed, full=True, reseed=True):
    with caps(model, case[which]["exact"], case.get("max_steps", SC.MAX_STEPS)):
        if reseed:
            np.random.seed(seed)
        return quiet(model.solve_stochast, time_arg(case, which), case[which]["n"], parallel=False, exact=case[which]["exact"], full_output=full)


def pidx(model, name):
    return [str(p) for p in model.param_list].index(name)


def spec_json(model, desc):
    return [[pidx(model, e["name"]), SC.q(e["value"]) if e["kind"] == "fixed" else None] for e in desc]


def req_close(lean_req, obs, model):
    kind, par = lean_req[0], lean_req[1]
    if kind != obs[0]:
        return False
    if kind == "param":
        return int(par) == pidx(model, obs[1])
    return SC.close(Fraction(par), obs[1], rel=1e-11, abs_=1e-300)


# ----------------------------------------------------------------------------- STOCH
def run_stoch(case):
    spec, meta, sim = case["spec"], case["meta"], case["sim"]
    tags, mism, viol = [], [], []
    A, B = case["A"], case["B"]
    exact = A["exact"]
    n = A["n"]
    seed = sim["np_seed"]
    nS, nE = len(meta["states"]), len(meta["procs"])
    modek = "exact" if exact else "tau"
    form = "raw" if A["time"] != "grid" else "grid"
    pform = "fixed-params" if not case.get("pdict") else "stoch-params"
    tags += ["stoch", "mode:" + sim["mode"], "time:" + A["time"], "n=%d" % n, pform, "nS=%d" % nS, "nE=%d" % nE]
    sig = lambda what, extra="": "C16:solve_stochast:%s:%s:%s:%s%s" % (what, modek, form, pform, extra)

    def mm(what, detail):
        mism.append({"what": what, "detail": detail if len(mism) < 4 else ""})

    # ---------------- traced run (model <-> code), which is also run 1 of the oracle
    rec = Recorder()
    mA = fresh_stoch_model(case, rec)
    cur0 = [float(v) for v in mA._paramValue]
    lr = SC.lean_lims(spec)
    with rec:
        tr = SC.traced_run(mA, time_arg(case, "A"), exact, seed, iterations=n, max_steps=case.get("max_steps", SC.MAX_STEPS))
        end_state = np.random.get_state()
    if tr.error is not None:
        tags.append("raised:" + type(tr.error).__name__)
    O1 = tr.result
    stream = rec.stream()
    if not stream or stream[0][0] != "seed":
        mm("recorder", "the harness's own seed call was not recorded first")
    body = stream[1:]
    for f in sorted(set(rec.foreign)):
        mm("foreign-source", "%s was constructed / used %d times during solve_stochast" % (f, rec.foreign.count(f)))
    for s_ in body:
        if s_[0] == "seed":
            mm("reseed", "np.random.%s called during solve_stochast" % s_[1])
        elif s_[0].startswith("other:"):
            mm("unexpected-draw", "np.random.%s called during solve_stochast" % s_[0][6:])
    for b in shadow_account(rec, seed, end_state)[:3]:
        mm("global-generator-accounting", b)

    accepted = 0
    logp = 0.0
    continuous = False
    if tr.error is None and len(tr.jumps) == n:
        jumps_json, per_jump_its = [], []
        ok_shape = True
        for p in range(n):
            jr = tr.jumps[p]
            J = jr["J"]
            if J.ndim == 1:
                J = J.reshape(0, nE)
            jr["J"] = J
            jlog = tr.log[jr["log"][0]:jr["log"][1]]
            if case.get("pdict"):
                # a parameter sampler that is itself rexp/... is seen by C04's tracer too: those draws precede the loop
                k0 = 0
                while k0 < len(jlog) and jlog[k0][0] != "fn":
                    k0 += 1
                jlog = jlog[k0:]
            its = SC.segment(jlog, exact)
            SC.tie_steps(mA, case, jr, its, lr["lims"], mism, tags)         # C04's per-step replay
            its = [it for it in its if it.get("complete")]
            per_jump_its.append(its)
            accepted += len(jr["T"]) - 1
            if jr["truncated"]:
                tags.append("truncated")
            steps = []
            for it in its:
                rates = np.asarray(it["rates"], float).ravel()
                if not np.all(np.isfinite(rates)):
                    ok_shape = False
                    break
                st = {"x": SC.qs(it["x"]), "t": SC.q(it["t"]), "rates": SC.qs(rates), "vcols": SC.vcols(it["V"], nS, len(rates))}
                if not exact:
                    st.update({"pure": SC.qs(it["pure"]), "mu": SC.qs(it["mu"]) if "mu" in it else None,
                               "sigma2": SC.qs(it["sigma2"]) if "sigma2" in it else None})
                    if it["retry"]:
                        tags.append("tau_rejected")
                steps.append(st)
            jumps_json.append({"steps": steps})
        if ok_shape:
            react = np.asarray(mA._lambdaMat, int) if getattr(mA, "_lambdaMat", None) is not None else None
            req = {"op": "seed_stochast", "exact": exact, "lims": lr["lims"],
                   "react": [[int(react[i, j]) for i in range(nS)] for j in range(nE)] if (react is not None and not exact) else None,
                   "epsilon": SC.q(getattr(mA, "_epsilon", 0.03)), "pre_tau": SC.q(mA.pre_tau) if mA.pre_tau is not None else None,
                   "spec": spec_json(mA, case["pdict"]) if case.get("pdict") else None, "cur": [SC.q(v) for v in cur0],
                   "stream": [SC.q(v[2]) if v[2] is not None else "0" for v in body], "jumps": jumps_json}
            r = leanio.driver().call(req)
            sched = []
            for jp in r["jumps"]:
                sched += jp["param_reqs"]
                for stp in jp["steps"]:
                    sched += stp["reqs"]
            if len(sched) != len(body) or r["left"] != 0:
                mm("schedule:length", "the Lean model requests %d draws for the observed path, %d were recorded (%d left over); first recorded %s ; first requested %s"
                   % (len(sched), len(body), r["left"], [b[:2] for b in body[:4]], sched[:4]))
            else:
                for i, (lq, ob) in enumerate(zip(sched, body)):
                    if not req_close(lq, ob, mA):
                        mm("schedule:request", "draw %d: model requests %s, recorded (%s, %r)" % (i, lq, ob[0], ob[1]))
                        break
            # outcome of every iteration against the recorded path (threaded stream)
            for p, (jp, its) in enumerate(zip(r["jumps"], per_jump_its)):
                X, T, J = tr.jumps[p]["X"], tr.jumps[p]["T"], tr.jumps[p]["J"]
                for k_, (stp, it) in enumerate(zip(jp["steps"], its)):
                    appended = k_ < len(T) - 1
                    if appended != (stp["out"] == "next"):
                        if not (np.any(np.ravel(it.get("pure", 0.0)))):
                            mm("threaded-replay:append/stop", "jump %d iteration %d: model %s, code %s" % (p, k_, stp["out"], "appended" if appended else "stopped"))
                        break
                    if appended:
                        if [int(c) for c in stp["counts"]] != [int(c) for c in np.asarray(J[k_]).ravel()]:
                            mm("threaded-replay:counts", "jump %d iteration %d: model %s code %s" % (p, k_, stp["counts"], np.asarray(J[k_]).tolist()))
                            break
                        if not SC.same_vec(stp["x"], X[k_ + 1], 1e-9) or not SC.close(Fraction(stp["t"]), T[k_ + 1]):
                            mm("threaded-replay:state/time", "jump %d iteration %d" % (p, k_))
                            break
            # parameter vector after the call
            if case.get("pdict"):
                after = [float(v) for v in mA._paramValue]
                if [Fraction(v) for v in r["cur"]] != [Fraction(v) for v in after]:
                    mm("params-after-call", "model %s code %s" % ([float(Fraction(v)) for v in r["cur"]], after))
        # coincidence probability of the recorded run (for the different-seed oracle)
        # (a recorded waiting time is continuous and is part of the returned times; with fixed parameters a second run follows
        # the same path with probability prod pmf(count; mean); with stochastic parameters its means differ: pmf(k; m) <= pmf(k; k))
        for kind, par, val in body:
            if kind == "expo":
                continuous = True
            elif kind == "pois" and par > 0:
                m_ = float(val) if case.get("pdict") else par
                if m_ > 0:
                    logp += val * math.log(m_) - m_ - math.lgamma(val + 1)
    elif tr.error is None:
        mm("trace:jumps", "%d _jump calls recorded for %d iterations" % (len(tr.jumps), n))

    # ---------------- direct oracle (no Lean)
    def check_same(name, got, want, what):
        if (got[1] is None) != (want[1] is None) or (got[1] is not None and type(got[1]) is not type(want[1])):
            viol.append({"what": "%s: one run raised, the other did not" % name, "signature": sig(what, ":raise"),
                         "detail": "%r vs %r" % (got[1], want[1])})
            return False
        if got[1] is None and not same(got[0], want[0]):
            viol.append({"what": "%s: outputs differ after the same np.random.seed" % name, "signature": sig(what),
                         "detail": "seed %s: %s  vs  %s" % (seed, brief(got[0]), brief(want[0]))})
            return False
        return True

    O1p = (O1, tr.error)
    mB = fresh_stoch_model(case)
    O2 = stoch_call(mB, case, "A", seed)
    check_same("traced run vs fresh model", O2, O1p, "same-seed-differs")
    O3 = stoch_call(mB, case, "A", seed)
    check_same("same model, second time", O3, O2, "same-seed-differs-second-call")
    # full_output=False returns the states of the same run
    O5 = stoch_call(mB, case, "A", seed, full=False)
    if O2[1] is None and O5[1] is None and not same(list(O5[0]), list(O2[0][0])):
        viol.append({"what": "full_output=False does not return the states of the full_output=True run of the same seed",
                     "signature": sig("full-output-differs"), "detail": "%s vs %s" % (brief(O5[0]), brief(O2[0][0]))})
    # different seed
    O4 = stoch_call(mB, case, "A", case["seed2"])
    rule = (form == "raw" and tr.error is None and accepted >= 20 and (continuous or logp < math.log(1e-12))
            and not any(j["truncated"] for j in tr.jumps))
    if rule:
        tags.append("different-seed-checked")
        if O4[1] is None and O2[1] is None and same(O4[0], O2[0]):
            viol.append({"what": "two different seeds give identical outputs", "signature": sig("different-seed-same"),
                         "detail": "seeds %s and %s, %d recorded events: %s" % (seed, case["seed2"], accepted, brief(O2[0]))})
    # histories: seed; A; B   twice on the same model, then on a fresh model after a different earlier run
    def seq(model, first_seed):
        a = stoch_call(model, case, "A", first_seed)
        b = stoch_call(model, case, "B", None, reseed=False)        # continues the stream where A left it
        return a, b
    a1, b1 = seq(mB, seed)
    a2, b2 = seq(mB, seed)
    check_same("seed; A; B (A, first time)", a1, O2, "history:A-after-earlier-runs")
    if check_same("seed; A; B repeated (A)", a2, a1, "history:sequence-A"):
        check_same("seed; A; B repeated (B)", b2, b1, "history:sequence-B")
    mC = fresh_stoch_model(case)
    stoch_call(mC, case, "B", case["seed3"])                       # a different earlier run
    a3, b3 = seq(mC, seed)                                          # ... followed by re-seeding
    if check_same("fresh model after a different earlier run (A)", a3, a1, "history:after-different-run-A"):
        check_same("fresh model after a different earlier run (B)", b3, b1, "history:after-different-run-B")
    return {"nontrivial": accepted >= 5 and tr.error is None, "mismatches": mism, "violations": viol, "tags": tags,
            "sample": {"kind": "stoch", "spec": spec, "x0": case["x0"], "params": case["params"], "sim": sim, "A": A, "B": B,
                       "pdict": case.get("pdict"), "recorded_draws": len(body), "accepted_steps": accepted}}


# ----------------------------------------------------------------------------- PARAM
def fresh_param_model(case, rec=None):
    model = pymodel.build(case["spec"], backend="lambda")
    model.parameters = {k: float(v) for k, v in case["params"].items()}
    model.initial_values = (np.array(case["x0"], float), np.float64(case["sim"]["t0"]))
    quiet(model.integrate, np.array(case["grid"], float))      # compile now (sympy), outside every recorded run
    model.parameters = build_pdict(case["pdict"], rec)
    return model


def param_call(model, case, which, seed, full=True):
    np.random.seed(seed)
    f = getattr(model, case[which]["entry"])
    return quiet(f, np.array(case["grid"], float), case[which]["n"], parallel=False, full_output=full)


def exact_mean(Yall):
    arrs = [np.asarray(y, float) for y in Yall]
    shp = arrs[0].shape
    out = np.empty(shp, dtype=object)
    for idx in np.ndindex(*shp):
        out[idx] = sum(Fraction(float(a[idx])) for a in arrs) / len(arrs)
    return out


def run_param(case):
    del WARNED[:]
    r = _run_param(case)
    bad = sorted(set(w for w in WARNED if w in ("ODEintWarning", "RuntimeWarning")))
    if bad:
        # the property presupposes a deterministic integrator: an integration that fails (finite-time explosion of a generated
        # model, overflow) makes scipy's lsoda return garbage that differs from call to call - such cases are left out
        return {"nontrivial": False, "mismatches": [], "violations": [], "tags": [t for t in r["tags"] if t in ("param",)] + ["unstable-integration-skipped"] + ["warned:" + b for b in bad]}
    return r


def _run_param(case):
    spec, meta = case["spec"], case["meta"]
    tags, mism, viol = [], [], []
    A, B = case["A"], case["B"]
    n = A["n"]
    seed = case["sim"]["np_seed"]
    forms = sorted(set(e["kind"] for e in case["pdict"] if e["kind"] != "fixed"))
    formk = "+".join(forms)
    tags += ["param", "entry:" + A["entry"], "form:" + formk, "n=%d" % n,
             "partial-dict" if len(case["pdict"]) < len(meta["params"]) else "full-dict"]
    if any(e["kind"] == "fixed" for e in case["pdict"]):
        tags.append("dict-with-numbers")
    sig = lambda what, entry=A["entry"]: "C16:%s:%s:%s" % (entry, what, formk)

    def mm(what, detail):
        mism.append({"what": what, "detail": detail if len(mism) < 4 else ""})

    # the property presupposes a deterministic integrator: an integration that blows up (finite-time explosion of a generated
    # model) makes scipy's lsoda return garbage that differs from call to call - such models are left out
    bound = 1e4 * (1.0 + max(abs(float(v)) for v in case["x0"]))
    m0 = pymodel.build(case["spec"], backend="lambda")
    m0.initial_values = (np.array(case["x0"], float), np.float64(case["sim"]["t0"]))
    m0.parameters = {k: 1.3 * float(v) for k, v in case["params"].items()}
    try:
        from ..runner import time_limit, CaseTimeout
        with time_limit(5):
            sol0, err0 = quiet(m0.integrate, np.array(case["grid"], float))
    except CaseTimeout:
        sol0, err0 = None, "slow"
    if err0 is not None or not np.all(np.isfinite(sol0)) or float(np.max(np.abs(sol0))) > bound:
        return {"nontrivial": False, "mismatches": [], "violations": [], "tags": tags + ["unstable-integration-skipped"]}

    # solve_determ of a model whose parameters are NOT stochastic: one plain integration, no draw (solve_determ_fixed_no_draws)
    recF = Recorder()
    with recF:
        np.random.seed(seed)
        st0 = np.random.get_state()
        solF, errF = quiet(m0.solve_determ, np.array(case["grid"], float), n, parallel=False, full_output=True)
        st1 = np.random.get_state()
    if errF is None:
        if len(recF.stream()) != 1 or recF.foreign or not (np.array_equal(st0[1], st1[1]) and st0[2] == st1[2]):
            mm("fixed-params:draws", "solve_determ with fixed parameters drew from a generator: %s %s" % (recF.stream()[1:4], recF.foreign[:3]))
        ref_, _e = quiet(m0.integrate, np.array(case["grid"], float))
        if isinstance(solF, tuple) or not same(solF, ref_):
            mm("fixed-params:result", "solve_determ with fixed parameters is not integrate(t)")
        tags.append("fixed-params-solve_determ")

    rec = Recorder()
    mA = fresh_param_model(case, rec)
    cur0 = [float(v) for v in mA._paramValue]
    names = [str(p) for p in mA.param_list]
    with rec:
        np.random.seed(seed)
        O1 = quiet(getattr(mA, A["entry"]), np.array(case["grid"], float), n, parallel=False, full_output=True)
        end_state = np.random.get_state()
    if O1[1] is not None:
        tags.append("raised:" + type(O1[1]).__name__)
        return {"nontrivial": False, "mismatches": mism, "violations": viol, "tags": tags}
    Y, Yall = O1[0]
    Yall = [np.asarray(y, float) for y in Yall]
    Y = np.asarray(Y, float)
    finite = bool(np.all(np.isfinite(Y)) and all(np.all(np.isfinite(y)) for y in Yall))
    if not finite or max(float(np.max(np.abs(y))) for y in Yall) > bound:
        return {"nontrivial": False, "mismatches": [], "violations": [], "tags": tags + ["unstable-integration-skipped"]}
    stream = rec.stream()
    body = stream[1:]
    for f in sorted(set(rec.foreign)):
        mm("foreign-source", "%s was constructed / used %d times during %s" % (f, rec.foreign.count(f), A["entry"]))
    for s_ in body:
        if s_[0] == "seed":
            mm("reseed", "np.random.%s called during %s" % (s_[1], A["entry"]))
        elif s_[0] != "param":
            mm("unexpected-draw", "%s recorded during %s" % (s_[0], A["entry"]))
    for b in shadow_account(rec, seed, end_state)[:3]:
        mm("global-generator-accounting", b)

    # ---- the Lean model on the recorded values; integrator = reference integrations at the parameter vectors the stream yields
    sensitive = False
    rand_entries = [e for e in case["pdict"] if e["kind"] != "fixed"]
    kk = len(rand_entries)
    if finite and all(s_[0] == "param" and s_[2] is not None for s_ in body) and kk and len(body) % kk == 0:
        vals = [s_[2] for s_ in body]
        passes = [vals[i:i + kk] for i in range(0, len(vals), kk)]
        table, vecs = [], []
        mref = pymodel.build(case["spec"], backend="lambda")
        mref.initial_values = (np.array(case["x0"], float), np.float64(case["sim"]["t0"]))
        vec = list(cur0)
        for ps in passes:
            it = iter(ps)
            for e in case["pdict"]:
                vec[names.index(e["name"])] = float(e["value"]) if e["kind"] == "fixed" else next(it)
            vecs.append(list(vec))
            mref.parameters = {nm: float(v) for nm, v in zip(names, vec)}
            sol, err = quiet(mref.integrate, np.array(case["grid"], float))
            if err is not None or not np.all(np.isfinite(sol)):
                table = None
                break
            table.append({"params": [SC.q(v) for v in vec], "sol": [SC.qs(row) for row in np.asarray(sol, float)]})
        if table is not None:
            r = leanio.driver().call({"op": "seed_param", "spec": spec_json(mA, case["pdict"]), "cur": [SC.q(v) for v in cur0],
                                      "n": n, "stream": [SC.q(v) for v in vals], "table": table})
            if len(r["reqs"]) != len(body) or r["left"] != 0:
                mm("schedule:length", "the Lean model makes %d requests (n+1 = %d passes over %d distributions), %d were recorded"
                   % (len(r["reqs"]), n + 1, kk, len(body)))
            else:
                for i, (lq, ob) in enumerate(zip(r["reqs"], body)):
                    if not req_close(lq, ob, mA):
                        mm("schedule:request", "draw %d: model requests %s, recorded %s" % (i, lq, ob[:2]))
                        break
                if r["missing"]:
                    mm("params-per-run", "the parameter vectors of the Lean model are not those of the dict applied to the recorded draws")
                else:
                    LY = [np.array([[float(Fraction(v)) for v in row] for row in s_]) for s_ in r["Yall"]]
                    if len(LY) != len(Yall) or any(a.shape != b.shape or not np.allclose(a, b, rtol=1e-9, atol=1e-12) for a, b in zip(LY, Yall)):
                        mm("Y_all", "the returned list is not the integrations at the parameter values of passes 2..n+1 of the recorded stream")
                    else:
                        tol_ok = True
                        for i, row in enumerate(r["Y"]):
                            for j, v in enumerate(row):
                                big = max(abs(float(y[i, j])) for y in Yall)
                                if Y.shape != Yall[0].shape or abs(Fraction(v) - Fraction(float(Y[i, j]))) > Fraction(1e-9) * Fraction(big) + Fraction(1e-300):
                                    tol_ok = False
                        if not tol_ok:
                            mm("Y", "the reported mean is not the Lean model's mean of the list")
                after = [float(v) for v in mA._paramValue]
                if [Fraction(v) for v in r["cur"]] != [Fraction(v) for v in after]:
                    mm("params-after-call", "model %s code %s" % ([float(Fraction(v)) for v in r["cur"]], after))
            sols = [np.array([[float(Fraction(v)) for v in row] for row in t_["sol"]]) for t_ in table]
            sensitive = any(not np.array_equal(sols[0], s_) for s_ in sols[1:])
    elif finite:
        mm("schedule:shape", "%d recorded events for %d distribution-valued entries: %s" % (len(body), kk, [b[:2] for b in body[:6]]))

    # ---------------- direct oracle (no Lean)
    def check_same(name, got, want, what, entry=A["entry"]):
        if (got[1] is None) != (want[1] is None):
            viol.append({"what": "%s: one run raised, the other did not" % name, "signature": sig(what + ":raise", entry), "detail": "%r vs %r" % (got[1], want[1])})
            return False
        if got[1] is None and not same(got[0], want[0]):
            viol.append({"what": "%s: outputs differ after the same np.random.seed" % name, "signature": sig(what, entry),
                         "detail": "seed %s: Y %s vs %s ; Y_all[0] %s vs %s" % (seed, brief(got[0][0]), brief(want[0][0]), brief(got[0][1][0]), brief(want[0][1][0]))})
            return False
        return True

    def check_mean(out, entry, nn):
        if out[1] is not None:
            return
        Yo, Yl = np.asarray(out[0][0], float), [np.asarray(y, float) for y in out[0][1]]
        if len(Yl) != nn:
            viol.append({"what": "Y_all has %d elements for %d iterations" % (len(Yl), nn), "signature": sig("yall-length", entry), "detail": ""})
            return
        if any(y.shape != Yo.shape for y in Yl):
            viol.append({"what": "Y and Y_all have different shapes", "signature": sig("shape", entry), "detail": "%s vs %s" % (Yo.shape, [y.shape for y in Yl])})
            return
        if not (np.all(np.isfinite(Yo)) and all(np.all(np.isfinite(y)) for y in Yl)):
            return
        ref = exact_mean(Yl)
        for idx in np.ndindex(*Yo.shape):
            big = max(abs(float(y[idx])) for y in Yl)
            if abs(Fraction(float(Yo[idx])) - ref[idx]) > Fraction(1e-12) * Fraction(big):
                viol.append({"what": "the reported mean trajectory is not the mean of the runs returned alongside it",
                             "signature": sig("mean", entry),
                             "detail": "entry %s: Y=%r, mean(Y_all)=%r (n=%d, terms %s)" % (idx, float(Yo[idx]), float(ref[idx]), nn, [float(y[idx]) for y in Yl])})
                return

    check_mean(O1, A["entry"], n)
    mB = fresh_param_model(case)
    O2 = param_call(mB, case, "A", seed)
    check_same("traced run vs fresh model", O2, O1, "same-seed-differs")
    O3 = param_call(mB, case, "A", seed)
    check_same("same model, second time", O3, O2, "same-seed-differs-second-call")
    O5 = param_call(mB, case, "A", seed, full=False)
    if O5[1] is None and O2[1] is None and not same(O5[0], O2[0][0]):
        viol.append({"what": "full_output=False does not return the mean of the full_output=True run of the same seed",
                     "signature": sig("full-output-differs"), "detail": "%s vs %s" % (brief(O5[0]), brief(O2[0][0]))})
    O4 = param_call(mB, case, "A", case["seed2"])
    check_mean(O4, A["entry"], n)
    if sensitive and finite:
        tags.append("different-seed-checked")
        if O4[1] is None and O2[1] is None and same(O4[0][1], O2[0][1]):
            viol.append({"what": "two different seeds give identical runs", "signature": sig("different-seed-same"),
                         "detail": "seeds %s and %s: Y_all[0] %s" % (seed, case["seed2"], brief(O2[0][1][0]))})

    def seq(model, first_seed):
        a = param_call(model, case, "A", first_seed)
        f = getattr(model, B["entry"])
        b = quiet(f, np.array(case["grid"], float), B["n"], parallel=False, full_output=True)
        return a, b
    a1, b1 = seq(mB, seed)
    a2, b2 = seq(mB, seed)
    check_mean(b1, B["entry"], B["n"])
    check_same("seed; A; B (A, first time)", a1, O2, "history:A-after-earlier-runs")
    if check_same("seed; A; B repeated (A)", a2, a1, "history:sequence-A"):
        check_same("seed; A; B repeated (B)", b2, b1, "history:sequence-B", B["entry"])
    mC = fresh_param_model(case)
    param_call(mC, case, "B", case["seed3"])
    a3, b3 = seq(mC, seed)
    if check_same("fresh model after a different earlier run (A)", a3, a1, "history:after-different-run-A"):
        check_same("fresh model after a different earlier run (B)", b3, b1, "history:after-different-run-B", B["entry"])
    return {"nontrivial": bool(sensitive and finite), "mismatches": mism, "violations": viol, "tags": tags,
            "sample": {"kind": "param", "spec": spec, "x0": case["x0"], "params": case["params"], "pdict": case["pdict"],
                       "A": A, "B": B, "grid": case["grid"], "recorded_draws": len(body)}}


def run_case(case):
    r = run_stoch(case) if case["kind"] == "stoch" else run_param(case)
    r["tags"] = sorted(set(r["tags"]))
    return r
