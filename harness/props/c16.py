"""
C16 - seeded serial simulations are reproducible (serial only: every call is made with parallel=False).

Proof: Pygom/Props/C16.lean about the executable model Pygom/Seed.lean, in which every stochastic entry point is a
function World -> Output x World threading ONE stream (run_many_threads_stream, stream_segments,
segment_determines_run, draw_schedule*, history_irrelevant*, foreign_source_breaks_counterexample, mean_is_mean,
different_first_wait_different_path, different_streams_same_output_counterexample).

Tie (correspondence), on every case:
  * a Recorder wraps, for the duration of a real run, every sampling function of numpy's GLOBAL generator
    (np.random.exponential/poisson/gamma/uniform/...), the rvs of the frozen scipy distributions and the samplers of the
    (sampler, args) tuples handed to the model, np.random.seed/set_state, and every other source of randomness
    (np.random.RandomState, default_rng, Generator, bit generators, the `random` module);
  * the recorded sequence (kind, parameter, value) must equal the request schedule of the Lean model, which is run on the
    recorded values: per _jump the parameter redraw, then per loop iteration `stepS` from the observed pre-state (C04's
    per-step replay, stream threaded through all iterations of all n jumps); for random-parameter runs `simulateParam`
    itself with the integrator replaced by reference integrations at the parameter vectors the stream yields;
  * replaying the recorded calls on a fresh RandomState(seed) must reproduce every value bit for bit AND end in the
    state the global generator is in after the run (nothing else consumed it, nothing else served a draw);
  * anything served by another source, a re-seed, or an unexpected call is a mismatch (-> failing-input search).

Direct oracle (no Lean), on every case: same np.random.seed(s) => bitwise identical outputs (every returned piece), on
a fresh model, on the same model again, inside call sequences (seed; A; B twice), after a different earlier run followed
by re-seeding, with full_output False/True; different seeds => different raw outputs when the recorded run makes a
coincidence less likely than 1e-12; Y == mean(Y_all) to 1e-12 of the largest term (exact rational reference mean), for
both random-parameter input forms, both entry points, n = 1..6.

Histories and forms (second seeded round; the quantifier of the property is over inputs AND histories):
  * STOCH cases hand the initial state / time over in every accepted form (list / tuple / ndarray, int / float / int32, numpy
    scalar kinds for t0) and compare every result with the harness's OWN COPY of the earlier one; every returned object is kept
    and compared with its copy again at the end (`result-overwritten`); an object the caller handed in that was written to is a
    tag (`input-modified:*`), wrong values that follow from it are what is judged;
  * HIST cases (both entry families): one reference instance makes "seed; target call"; other instances go through HISTORIES
    (other initial values / parameters / tau configuration / stochastic dicts assigned and replaced by plain numbers or the
    other way round / other grids, iteration counts, entry points / integrate on another grid / a stochastic run / a sibling
    instance simulated in between / deepcopy) that END IN THE TARGET CONFIGURATION, then "seed; target call" twice: the outputs
    must be those of the reference (values) and of each other (bitwise), whatever preceded; the setter of `parameters` is tied
    to the Lean setter model (`Seed.setParams`, driver op `seed_setter`) after every assignment of a history;
  * SESSION cases: the operation lists of stoch_common.gen_session run by stoch_common.run_session; a call repeated with the
    first call's configuration, initial values, horizon and seed, and a fresh instance given a call's configuration and seed,
    must reproduce the result (here a VIOLATION: it is the property's statement).
The Lean side: `history_irrelevant*` (a previous run leaves nothing but parameter values at positions the dict re-assigns),
`setter_*` / `history_irrelevant_cleared` / `history_irrelevant_session` (what the setter records depends on the last
assignments only; plain numbers clear the record; two objects with the same record and the same values outside it give the
same outputs from the same stream).  Parallel runs (parallel=True) are outside this property: see C05 for their law.

Samplers, boundaries, secondary paths (third seeded round):
  * the (sampler, args) entries draw through EVERY R-style sampler of pygom.utilR with `seed` left at its default - rexp, rgamma, rnorm,
    runif directly, rchisq, rbeta, rpois, rbinom, rnbinom through thin wrappers (`*_w`: the variate put on the scale of a rate; rbeta
    returns an array also for n = 1 and the unchanged tree rejects an array-valued parameter) - and a user-written one (`hunif`).  Two
    of three PARAM cases and every second HIST-param case take their first entry from R_FUNCTIONS in turn: every run of the check
    uses each of them about 20 times; STOCH / HIST-stoch dicts draw them at random.  A draw that does not pass through a function of
    the numpy.random MODULE (scipy calls the methods of the global RandomState object: rbeta) is replayed on the shadow generator by
    its documented meaning (SAMPLER_REF); a RandomState / Generator constructed during a run is a `foreign-source` mismatch as before,
    and the direct oracle (same seed, same outputs) is what reports the violation;
  * SAMPLERS cases: each of the nine helpers on its own (n = 1 and n > 1): same global seed -> same variates, those of RandomState(seed)
    under the documented parameterisation, the global generator consumed, no generator constructed, another seed -> another continuous
    variate.  A failure is a mismatch + tag `sampler-not-reproducible:<name>` (the mechanism; the property speaks about simulations);
    on the unchanged tree all nine are reproducible (tags `sampler-reproducible:<name>`);
  * grids and horizons at the boundaries: STOCH grids starting after t0 / of one point (ndarray) / with a repeated time / with t0 twice,
    3 % horizons AT t0; PARAM / HIST-param output times of one point (also as a bare number), starting at t0, with a repeated time;
    tags `grid_shape:*`, `horizon-at-t0`; dicts mixing frozen, tuple and plain-number entries (`pdict:frozen+tuple+number`), dicts that
    draw a parameter no rate uses (`pdict:draws-a-parameter-no-rate-uses`, 59 % of the generated models have such a parameter);
  * a tree whose solve_stochast hands `_jump` a keyword the tracer's wrapper does not know cannot be traced: mismatch
    `trace:jump-signature`, and the direct oracle goes on without the traced run (its TypeError is the harness's, not pygom's).
"""
import copy
import contextlib
import io
import math
import random
import sys
from fractions import Fraction

import numpy as np

from .. import leanio, pymodel
from . import stoch_common as SC

PROP = "C16"
LEAN = {"module": "Pygom.Props.C16",
        "required": ["Pygom.C16.run_many_threads_stream", "Pygom.C16.solve_stochast_threads_stream",
                     "Pygom.C16.simulate_param_threads_stream", "Pygom.C16.same_stream_same_outputs",
                     "Pygom.C16.history_irrelevant", "Pygom.C16.history_irrelevant_param",
                     "Pygom.C16.stream_segments", "Pygom.C16.segment_determines_run",
                     "Pygom.C16.draw_schedule_step", "Pygom.C16.draw_schedule_jump", "Pygom.C16.draw_schedule",
                     "Pygom.C16.draw_schedule_param", "Pygom.C16.jump_is_c04_run", "Pygom.C16.never_starved",
                     "Pygom.C16.history_irrelevant_solve_stochast", "Pygom.C16.solve_determ_fixed_no_draws",
                     "Pygom.C16.setter_all_clears", "Pygom.C16.setter_random_dict_records", "Pygom.C16.setter_number_dict",
                     "Pygom.C16.setter_number_dict_covering", "Pygom.C16.run_keeps_record", "Pygom.C16.history_irrelevant_cleared",
                     "Pygom.C16.history_irrelevant_session", "Pygom.C16.setter_last_assignments_decide",
                     "Pygom.C16.stale_record_redraws_counterexample",
                     "Pygom.C16.mean_over_n_plus_one_counterexample",
                     "Pygom.C16.no_foreign_requests_primary_only", "Pygom.C16.foreign_source_breaks_counterexample",
                     "Pygom.C16.foreign_retry_breaks_counterexample", "Pygom.C16.mean_is_mean",
                     "Pygom.C16.first_wait_is_min_of_draws", "Pygom.C16.different_first_wait_different_path",
                     "Pygom.C16.different_streams_same_output_counterexample"]}
BUDGET = {"quick": {"stoch": 330, "param": 168, "mean": 24, "hist_stoch": 120, "hist_param": 120, "session": 60, "samplers": 4},
          "thorough": {"stoch": 3200, "param": 2340, "mean": 60, "hist_stoch": 1200, "hist_param": 1200, "session": 600, "max_steps": 1000,
                       "steps": [30, 80, 200, 400], "samplers": 40}}
RULE = ("serial calls only (parallel=False). STOCH cases: bounded-rate event models of the shared generator (1-5 states, 1-5 events, "
        "all API routes, derived parameters), integer initial states, x {exact, adaptive tau, fixed tau with steps large enough to be "
        "rejected by the limits}, n = 1..6 iterations, horizon as number / one-element list / grid (list, tuple, array), 30% with "
        "stochastic parameters (frozen scipy distribution, (sampler, args) tuple with tuple or dict arguments, mixed with numbers, "
        "partial dicts, dict order shuffled). PARAM cases: the same models integrated deterministically by simulate_param / "
        "solve_determ with a random-parameter dict (frozen / tuple / mixed), n = 1..6, full_output both ways. Every choice, "
        "including the numpy seeds, derives from the case seed. A STOCH case is non-trivial when the traced call recorded >= 5 "
        "accepted steps; a PARAM case when the integrations made with different draws differ. Forms: x0 as list / tuple / ndarray of "
        "int / float / int32 (bare number for one state), t0 as numpy float64 / int64 / float32 (Python numbers 4%: rejected by the "
        "unchanged tree, tagged), horizon also as numpy float / one-element tuple, n as int / numpy int64, grids as array / list / tuple; "
        "the second and third instance of a PARAM case were integrated on the same grid / another grid / never. HIST cases: one "
        "reference instance, two instances with 1 and 2-3 histories (kinds in HIST_STOCH_KINDS / HIST_PARAM_KINDS) each ending in the "
        "target configuration and followed by 'seed; target call' twice; non-trivial when the reference call recorded >= 5 events "
        "(stoch) / the runs differ from each other (param). SESSION cases: stoch_common.gen_session (2-4 runs, 60% exact, 30% grids, "
        "fresh reference for half of the runs, repeat of the first call); non-trivial with >= 2 calls and >= 5 accepted steps. "
        "(sampler, args) entries: rexp / rgamma / rnorm / runif of pygom.utilR directly, rchisq / rbeta / rpois / rbinom / rnbinom through "
        "scaling wrappers, a user-written sampler; first entry of 2 of 3 PARAM cases and of every second HIST-param case taken from these "
        "nine in turn. SAMPLERS cases: the nine helpers on their own, n in {1, 3}, always non-trivial. Boundaries: STOCH grids from t0 "
        "(50%) / after t0 / one point / repeated time / t0 twice, 3% horizons at t0; PARAM output times after t0 / from t0 / repeated / one "
        "point (also as a bare number). MEAN cases: a generated model never used before, 1-3 output times, one random-parameter call with "
        "99 / 100 / 101 / 130 / 250 / 257 iterations (each count with each entry point twice per quick run), judged by Y == exact mean of "
        "the returned runs, one run per iteration, and 'seed; the same call with full_output=False' giving that mean again; non-trivial "
        "when the runs differ. Boolean options: STOCH call A and SESSION calls hand `exact` / `full_output` over as bool / 1, 0 / numpy.bool_.")
ASSUMPTIONS = ["'different seeds change the outputs' is runtime: numpy maps different seeds to streams whose first consumed draws differ; "
               "checked on raw (scalar-horizon) stochastic output with >= 20 recorded events and a coincidence probability < 1e-12 "
               "computed from the recorded run (a continuous draw, or the product of the Poisson pmfs of the recorded counts), and "
               "on random-parameter runs whose integrations depend on the drawn values (with integer-valued samplers - rpois, rbinom, "
               "rnbinom - in the dict: only when they depend on a continuously drawn value, two seeds give the same integer variate with "
               "positive probability)",
               "numpy's generator is a deterministic function of its state (its law is C05's concern)",
               "the integrator is a deterministic function of (parameters, initial values, times) (C02)",
               "IEEE double vs exact rational arithmetic: Poisson means / exponential scales compared to 1e-11 / 1e-12 relative, "
               "Y against the exact rational mean to 1e-12 of the largest term"]
TRUSTED = ["harness generator, Recorder (wrappers of numpy.random, scipy frozen rvs, samplers, RandomState/default_rng/random) and "
           "C04's tracer (evaluator / _jump wrappers)", "Lean driver JSON codec",
           "a step / rate cap installed on the model's rate evaluator in every run (deterministic in the path)"]
CASE_TIMEOUT = 240

NP_SAMPLERS = ["beta", "binomial", "bytes", "chisquare", "choice", "dirichlet", "exponential", "f", "gamma", "geometric", "gumbel",
               "hypergeometric", "laplace", "logistic", "lognormal", "logseries", "multinomial", "multivariate_normal",
               "negative_binomial", "noncentral_chisquare", "noncentral_f", "normal", "pareto", "permutation", "poisson", "power",
               "rand", "randint", "randn", "random", "random_integers", "random_sample", "ranf", "rayleigh", "sample", "shuffle",
               "standard_cauchy", "standard_exponential", "standard_gamma", "standard_normal", "standard_t", "triangular", "uniform",
               "vonmises", "wald", "weibull", "zipf"]
NP_SOURCES = ["default_rng", "Generator", "MT19937", "PCG64", "PCG64DXSM", "Philox", "SFC64", "SeedSequence"]
PY_RANDOM = ["random", "uniform", "gauss", "normalvariate", "expovariate", "randint", "randrange", "choice", "choices", "sample",
             "shuffle", "betavariate", "gammavariate", "lognormvariate", "paretovariate", "triangular", "vonmisesvariate",
             "weibullvariate", "getrandbits", "randbytes", "binomialvariate", "seed", "setstate", "Random", "SystemRandom"]


# ----------------------------------------------------------------------------- recorder
def _from_symbolic(frame):
    """the `random` module used from inside sympy / mpmath (numeric equality tests while an expression is compiled) is not a
    draw of the simulation"""
    name = frame.f_globals.get("__name__", "") if frame is not None else ""
    return name.startswith("sympy") or name.startswith("mpmath")


class Recorder:
    """records every call into numpy's global generator and every use of another source while active"""

    def __init__(self):
        self.events = []       # top level, in order: np / param / seed events
        self.foreign = []      # other sources constructed or used
        self._ctx = None       # the param event being served (its np calls are its `inner`)
        self._saved = []
        self.end_state = None

    # -- installation
    def _patch(self, obj, name, new):
        self._saved.append((obj, name, getattr(obj, name)))
        setattr(obj, name, new)

    def __enter__(self):
        import random as pyrandom
        rec = self
        self.events, self.foreign, self._ctx = [], [], None     # draws made while the inputs were handed to the model are not part of the run
        for name in NP_SAMPLERS:
            if hasattr(np.random, name):
                self._patch(np.random, name, self._np_wrapper(name, getattr(np.random, name)))
        for name in ("seed", "set_state"):
            orig = getattr(np.random, name)

            def w(*a, _o=orig, _n=name, **k):
                rec.events.append({"k": "seed", "fn": _n, "arg": a[0] if a and isinstance(a[0], (int, np.integer)) else None})
                return _o(*a, **k)
            self._patch(np.random, name, w)
        orig_rs = np.random.RandomState

        class RecordingRandomState(orig_rs):          # a subclass: isinstance(x, np.random.RandomState) keeps working
            def __init__(self, *a, **k):
                rec.foreign.append("np.random.RandomState(%s)" % ("" if not a and not k else "..."))
                super().__init__(*a, **k)
        self._patch(np.random, "RandomState", RecordingRandomState)
        self._patch(np.random.mtrand, "RandomState", RecordingRandomState)
        for name in NP_SOURCES:
            if hasattr(np.random, name):
                orig = getattr(np.random, name)
                if isinstance(orig, type):
                    try:
                        sub = type("Recording" + name, (orig,), {"__init__": self._init_recorder("np.random." + name, orig)})
                        self._patch(np.random, name, sub)
                    except TypeError:
                        pass
                else:
                    def f(*a, _o=orig, _n=name, **k):
                        rec.foreign.append("np.random.%s()" % _n)
                        return _o(*a, **k)
                    self._patch(np.random, name, f)
        for name in PY_RANDOM:
            if hasattr(pyrandom, name):
                orig = getattr(pyrandom, name)
                if isinstance(orig, type):
                    try:
                        sub = type("Recording" + name, (orig,), {"__init__": self._init_recorder("random." + name, orig)})
                        self._patch(pyrandom, name, sub)
                    except TypeError:
                        pass
                else:
                    def f(*a, _o=orig, _n=name, **k):
                        if not _from_symbolic(sys._getframe(1)):
                            rec.foreign.append("random.%s()" % _n)
                        return _o(*a, **k)
                    self._patch(pyrandom, name, f)
        return self

    def _init_recorder(self, label, orig):
        rec = self

        def __init__(self_, *a, **k):
            if not (label.startswith("random.") and _from_symbolic(sys._getframe(1))):
                rec.foreign.append(label + "(...)")
            try:
                orig.__init__(self_, *a, **k)
            except TypeError:
                orig.__init__(self_)
        return __init__

    def __exit__(self, *exc):
        for obj, name, orig in reversed(self._saved):
            setattr(obj, name, orig)
        self._saved = []
        return False

    def _np_wrapper(self, name, orig):
        rec = self

        def w(*a, **k):
            v = orig(*a, **k)
            ev = {"k": "np", "fn": name, "args": a, "kwargs": dict(k), "value": np.array(v, copy=True)}
            if rec._ctx is not None:
                rec._ctx["inner"].append(ev)
            else:
                rec.events.append(ev)
            return v
        return w

    # -- stochastic-parameter inputs handed to the model
    def wrap_frozen(self, key, frozen):
        rec = self
        orig = frozen.rvs

        def rvs(*a, **k):
            ev = {"k": "param", "key": key, "form": "frozen", "inner": [], "args": a, "kwargs": dict(k), "orig": orig}
            rec.events.append(ev)
            outer, rec._ctx = rec._ctx, ev
            try:
                v = orig(*a, **k)
            finally:
                rec._ctx = outer
            ev["raw"] = np.array(v, copy=True)
            return v
        frozen.rvs = rvs
        return frozen

    def wrap_sampler(self, key, sampler, name=None):
        rec = self

        def sample(*a, **k):
            ev = {"k": "param", "key": key, "form": "tuple", "inner": [], "args": a, "kwargs": dict(k), "sampler": name}
            rec.events.append(ev)
            outer, rec._ctx = rec._ctx, ev
            try:
                v = sampler(*a, **k)
            finally:
                rec._ctx = outer
            ev["raw"] = np.array(v, copy=True)
            return v
        return sample

    # -- views
    def stream(self):
        """[(kind, parameter, value)] of the top-level events after the harness's own seed"""
        out = []
        for ev in self.events:
            if ev["k"] == "seed":
                out.append(("seed", ev["fn"], ev["arg"]))
            elif ev["k"] == "param":
                raw = np.asarray(ev["raw"], float).ravel()
                out.append(("param", ev["key"], float(raw[0]) if raw.size == 1 else None))
            else:
                a, k = ev["args"], ev["kwargs"]
                val = np.asarray(ev["value"]).ravel()
                one = val.size == 1 and k.get("size", a[-1] if len(a) > 1 else None) in (1, None)
                if ev["fn"] == "exponential" and one:
                    out.append(("expo", float(k.get("scale", a[0] if a else 1.0)), float(val[0])))
                elif ev["fn"] == "poisson" and one:
                    out.append(("pois", float(k.get("lam", a[0] if a else 1.0)), int(val[0])))
                else:
                    out.append(("other:" + ev["fn"], None, None))
        return out


def shadow_account(rec, seed, end_state):
    """replay every recorded call on a fresh RandomState(seed): values must agree bit for bit and the final state must be
    the global generator's.  returns list of problems (strings)"""
    sh = np.random.RandomState(seed)
    bad = []

    def replay_np(ev):
        try:
            v = getattr(sh, ev["fn"])(*ev["args"], **ev["kwargs"])
        except Exception as exc:   # noqa
            bad.append("cannot replay np.random.%s: %s" % (ev["fn"], exc))
            return
        if np.asarray(v).tobytes() != np.asarray(ev["value"]).tobytes():
            bad.append("np.random.%s%s returned %s, a generator seeded with %s gives %s at this point"
                       % (ev["fn"], tuple(ev["args"]), np.asarray(ev["value"]).ravel()[:3], seed, np.asarray(v).ravel()[:3]))

    started = False
    for ev in rec.events:
        if ev["k"] == "seed":
            if started:
                bad.append("np.random.%s called during the run" % ev["fn"])
            started = True
            continue
        if len(bad) > 3:
            break
        if ev["k"] == "np":
            replay_np(ev)
        else:
            if ev["form"] == "frozen":
                if ev["kwargs"].get("random_state") is not None or len(ev["args"]) > 1:
                    bad.append("frozen distribution of %s sampled with an explicit random_state" % ev["key"])
                    continue
                v = ev["orig"](*ev["args"], **dict(ev["kwargs"], random_state=sh))
                if np.asarray(v).tobytes() != np.asarray(ev["raw"]).tobytes():
                    bad.append("rvs of %s returned %s, a generator seeded with %s gives %s at this point"
                               % (ev["key"], np.asarray(ev["raw"]).ravel()[:3], seed, np.asarray(v).ravel()[:3]))
            elif ev.get("sampler") in SAMPLER_REF and not ev["inner"]:
                v = SAMPLER_REF[ev["sampler"]](sh, *ev["args"], **ev["kwargs"])
                if np.asarray(v).tobytes() != np.asarray(ev["raw"]).tobytes():
                    bad.append("sampler %s of %s returned %s, a generator seeded with %s gives %s at this point"
                               % (ev["sampler"], ev["key"], np.asarray(ev["raw"]).ravel()[:3], seed, np.asarray(v).ravel()[:3]))
            else:
                for inner in ev["inner"]:
                    replay_np(inner)
    if not bad and end_state is not None:
        a, b = sh.get_state(), end_state
        if not (a[0] == b[0] and np.array_equal(a[1], b[1]) and a[2] == b[2] and a[3] == b[3] and (a[3] == 0 or a[4] == b[4])):
            bad.append("the global generator is not in the state the recorded calls lead to (something else consumed or reset it)")
    return bad


# ----------------------------------------------------------------------------- stochastic-parameter dicts
def _scaled(v, f):
    return float(v) * f


# pygom's own R-style samplers as the sampler of a (sampler, args) entry, `seed` left at its default (the documented meaning: numpy's
# global generator).  rexp / rgamma / rnorm / runif take the parameter's scale directly; the others go through a thin wrapper that
# puts the variate on the scale of a rate (and, for rbeta, takes the number out of the one-element array rbeta returns for n = 1:
# the unchanged tree rejects an array-valued parameter when it integrates)
R_DIRECT = ["rexp", "rgamma", "rnorm", "runif"]
R_WRAPPED = ["rchisq_w", "rbeta_w", "rpois_w", "rbinom_w", "rnbinom_w"]
R_FUNCTIONS = R_DIRECT + R_WRAPPED                   # cycled over the PARAM / HIST cases: every run of the check uses every one of them
TUPLE_SAMPLERS = ["rgamma", "rgamma", "rnorm", "runif", "rexp", "hunif"] + R_WRAPPED


def sampler_entry(rng, s, v):
    as_dict = rng.random() < 0.4
    if s == "rgamma":
        return {"sampler": "rgamma", "kwargs": {"shape": 100.0, "rate": 100.0 / v}} if as_dict else {"sampler": "rgamma", "args": [100.0, 100.0 / v]}
    if s == "rnorm":
        return {"sampler": "rnorm", "kwargs": {"mean": v, "sd": 0.05 * v}} if as_dict else {"sampler": "rnorm", "args": [v, 0.05 * v]}
    if s == "runif":
        return {"sampler": "runif", "kwargs": {"min": 0.8 * v, "max": 1.2 * v}} if as_dict else {"sampler": "runif", "args": [0.8 * v, 1.2 * v]}
    if s == "rexp":
        return {"sampler": "rexp", "args": [1.0 / v]}
    if s == "hunif":
        return {"sampler": "hunif", "args": [0.8 * v, 1.2 * v]}
    if s == "rchisq_w":                                # chi-square(50) * v / 50: mean v
        return {"sampler": s, "kwargs": {"df": 50, "scale": v / 50.0}} if as_dict else {"sampler": s, "args": [50, v / 50.0]}
    if s == "rbeta_w":                                 # Beta(20, 20) * 2v: mean v
        return {"sampler": s, "kwargs": {"shape1": 20.0, "shape2": 20.0, "scale": 2.0 * v}} if as_dict else {"sampler": s, "args": [20.0, 20.0, 2.0 * v]}
    if s == "rpois_w":                                 # Poisson(40) * v / 40
        return {"sampler": s, "kwargs": {"mu": 40.0, "scale": v / 40.0}} if as_dict else {"sampler": s, "args": [40.0, v / 40.0]}
    if s == "rbinom_w":                                # Binomial(40, 1/2) * v / 20
        return {"sampler": s, "kwargs": {"size": 40, "prob": 0.5, "scale": v / 20.0}} if as_dict else {"sampler": s, "args": [40, 0.5, v / 20.0]}
    if s == "rnbinom_w":                               # NegBinomial(20, 1/2) (mean 20) * v / 20
        return {"sampler": s, "kwargs": {"size": 20, "prob": 0.5, "scale": v / 20.0}} if as_dict else {"sampler": s, "args": [20, 0.5, v / 20.0]}
    raise ValueError("unknown sampler %r" % s)


def gen_pdict(rng, names, base, form, force=None):
    """JSON description of a parameter dict with at least one distribution-valued entry (dict order = list order).  `force`: the
    sampler of the first entry (a (sampler, args) tuple whatever `form` says)"""
    names = list(names)
    rng.shuffle(names)
    if len(names) > 1 and rng.random() < 0.3:
        names = names[:rng.randint(1, len(names) - 1)]        # partial dict: the other parameters keep their values
    out = []
    for i, name in enumerate(names):
        v = float(base[name])
        if i == 0 and force is not None:
            out.append(dict({"name": name, "kind": "tuple"}, **sampler_entry(rng, force, v)))
            continue
        if i > 0 and rng.random() < 0.3:
            out.append({"name": name, "kind": "fixed", "value": v * rng.choice([1.0, 0.5, 2.0])})
            continue
        f = form if form in ("frozen", "tuple") else rng.choice(["frozen", "tuple"])
        if f == "frozen":
            d = rng.choice(["gamma", "gamma", "uniform", "lognorm", "norm", "expon", "beta", "triang"])
            if d == "gamma":
                e = {"dist": "gamma", "args": [100.0, 0.0, v / 100.0]}
            elif d == "uniform":
                e = {"dist": "uniform", "args": [0.8 * v, 0.4 * v]}
            elif d == "lognorm":
                e = {"dist": "lognorm", "args": [0.1, 0.0, v]}
            elif d == "norm":
                e = {"dist": "norm", "args": [v, 0.05 * v]}
            elif d == "expon":
                e = {"dist": "expon", "args": [0.0, v]}
            elif d == "beta":
                e = {"dist": "beta", "args": [20.0, 20.0, 0.0, 2.0 * v]}
            else:
                e = {"dist": "triang", "args": [0.5, 0.8 * v, 0.4 * v]}
            out.append(dict({"name": name, "kind": "frozen"}, **e))
        else:
            out.append(dict({"name": name, "kind": "tuple"}, **sampler_entry(rng, rng.choice(TUPLE_SAMPLERS), v)))
    if not any(e["kind"] != "fixed" for e in out):
        return gen_pdict(rng, names, base, form, force)
    return out


def hunif(n, lo, hi):
    """a user-written sampler: scalar from numpy's global generator"""
    return np.random.uniform(lo, hi)


def rchisq_w(n, df, scale):
    from pygom import utilR
    return utilR.rchisq(n, df) * scale


def rbeta_w(n, shape1, shape2, scale):
    from pygom import utilR
    return utilR.rbeta(n, shape1, shape2)[0] * scale          # rbeta hands back an array also for n = 1; a parameter value is a number


def rpois_w(n, mu, scale):
    from pygom import utilR
    return utilR.rpois(n, mu) * scale


def rbinom_w(n, size, prob, scale):
    from pygom import utilR
    return utilR.rbinom(n, size, prob) * scale


def rnbinom_w(n, size, prob, scale):
    from pygom import utilR
    return utilR.rnbinom(n, size, prob) * scale


DISCRETE_SAMPLERS = ("rpois_w", "rbinom_w", "rnbinom_w")
LOCAL_SAMPLERS = {"hunif": hunif, "rchisq_w": rchisq_w, "rbeta_w": rbeta_w, "rpois_w": rpois_w, "rbinom_w": rbinom_w, "rnbinom_w": rnbinom_w}


def _ref_rbeta_w(sh, n, shape1, shape2, scale):
    import scipy.stats as st
    return st.beta.rvs(shape1, shape2, size=n, random_state=sh)[0] * scale


# samplers whose draws do not pass through a function of the numpy.random MODULE (scipy calls the methods of the global RandomState
# object directly): the accounting replays them by their documented meaning on the shadow generator instead of call by call
SAMPLER_REF = {"rbeta_w": _ref_rbeta_w}


def build_pdict(desc, rec=None):
    """the real dict handed to `model.parameters` (fresh objects every time); with `rec` the inputs are recording proxies"""
    import scipy.stats as st
    from pygom import utilR
    d = {}
    for e in desc:
        if e["kind"] == "fixed":
            d[e["name"]] = float(e["value"])
        elif e["kind"] == "frozen":
            fz = getattr(st, e["dist"])(*e["args"])
            d[e["name"]] = rec.wrap_frozen(e["name"], fz) if rec is not None else fz
        else:
            smp = LOCAL_SAMPLERS[e["sampler"]] if e["sampler"] in LOCAL_SAMPLERS else getattr(utilR, e["sampler"])
            if rec is not None:
                smp = rec.wrap_sampler(e["name"], smp, e["sampler"])
            d[e["name"]] = (smp, dict(e["kwargs"])) if "kwargs" in e else (smp, tuple(e["args"]))
    return d


def pdict_tags(case, desc=None):
    """tags for the evidence histogram: the samplers of a random-parameter dict, and whether it draws a parameter that no rate,
    ode term or derived parameter uses (the draw must be made all the same: the stream position of the later draws depends on it)"""
    from .. import exprs as E
    desc = desc if desc is not None else case.get("pdict")
    if not desc:
        return []
    out = ["sampler:" + e["sampler"] for e in desc if e["kind"] == "tuple"] + ["frozen:" + e["dist"] for e in desc if e["kind"] == "frozen"]
    used = set()
    for p_ in case["meta"].get("procs", []):
        used |= E.free_vars(p_["rate"])
    for o in case["meta"].get("odes", []):
        used |= E.free_vars(o["expr"])
    for d in case["spec"].get("derived", []):
        used |= E.free_vars(d[1])
    if any(e["kind"] != "fixed" and e["name"] not in used for e in desc):
        out.append("pdict:draws-a-parameter-no-rate-uses")
    kinds = set(e["kind"] for e in desc)
    if kinds == {"frozen", "tuple", "fixed"}:
        out.append("pdict:frozen+tuple+number")
    return out


# ----------------------------------------------------------------------------- cases
X0_FORMS = ["arr_int", "arr_int", "arr_f64", "arr_f64", "list_int", "list_float", "list_float", "tuple_int", "tuple_float", "arr_i32"]
T0_FORMS = ["np_f64"] * 6 + ["np_i64"] * 2 + ["np_f32"] * 2


def stoch_forms(r, c, py_t0=0.04):
    """the objects handed to `initial_values`: same numbers, another container / dtype (a Python number as initial time is
    rejected by the unchanged pygom in `_jump`: kept at a low rate, both runs then raise alike and nothing is judged)"""
    nS = len(c["x0"])
    c["sim"]["x0_form"] = r.choice(X0_FORMS + (["scalar"] * 3 if nS == 1 else []))
    c["sim"]["t0_form"] = r.choice(T0_FORMS) if r.random() >= py_t0 else r.choice(["py_float", "py_int"])


def make_cases(rng, tier, budget):
    cases = []
    n_st, n_pa = budget["stoch"], budget["param"]
    while len([c for c in cases if c["kind"] == "stoch"]) < n_st:
        r = random.Random(rng.getrandbits(64))
        base = SC.gen_sim_case(r, max_x0=25)
        if base is None:
            continue
        mode = r.choice(["exact", "exact", "tau_adaptive", "tau_fixed", "tau_fixed"])
        c = dict(base)
        c["kind"] = "stoch"
        c["sim"] = SC.sim_settings(r, base, mode, big_tau=(mode == "tau_fixed" and r.random() < 0.7), steps=[5, 10, 20] if mode == "tau_adaptive" else budget.get("steps", [20, 30, 50, 80]))
        t0, T = c["sim"]["t0"], c["sim"]["T"]
        c["n"] = r.randint(1, 6)
        c["A"] = {"time": r.choice(["float", "float", "np_f64", "list1", "tuple1", "int", "grid", "grid"]), "n": c["n"], "exact": mode == "exact",
                  "n_form": r.choice(["int", "int", "np_i64"])}
        stoch_forms(r, c)
        if c["A"]["time"] == "int":
            c["sim"]["T"] = T = float(max(int(t0) + 1, int(math.ceil(T))))
        if r.random() < 0.03:
            c["sim"]["T"] = T = float(t0)                  # a horizon AT the initial time: nothing to simulate, still the same answer twice
        k = r.randint(3, 7)
        g = [t0 + (T - t0) * i / (k - 1) for i in range(k)]
        c["grid_kind"] = r.choice(["list", "tuple", "array"])
        # grids at the boundaries: first point after t0, a single point (ndarray: a one-element list is a horizon), a time twice
        c["grid_shape"] = r.choice(["from_t0"] * 5 + ["after_t0", "after_t0", "one_point", "repeated", "t0_twice"])
        if c["grid_shape"] == "after_t0":
            g = g[1:]
        elif c["grid_shape"] == "one_point":
            g, c["grid_kind"] = [T], "array"
        elif c["grid_shape"] == "repeated":
            j = r.randrange(1, len(g))
            g = g[:j] + [g[j]] + g[j:]
        elif c["grid_shape"] == "t0_twice":
            g = [t0] + g
        c["grid"] = g
        # a second, different call for the history sequences
        c["B"] = {"time": "grid" if c["A"]["time"] != "grid" else "float", "n": r.randint(1, 3), "exact": r.random() < 0.5}
        c["seed2"] = r.randrange(2 ** 31)
        c["seed3"] = r.randrange(2 ** 31)
        c["pdict"] = gen_pdict(r, base["meta"]["params"], base["params"], r.choice(["frozen", "tuple", "mixed"]),
                               force=r.choice([None] + R_FUNCTIONS)) if r.random() < 0.3 else None
        c["max_steps"] = budget.get("max_steps", SC.MAX_STEPS)
        # the FORM of the boolean options of call A (drawn last): True / False, 1 / 0, numpy.bool_ - the unchanged tree tests truthiness
        c["A"]["exact_form"] = r.choice(["bool", "bool", "int", "np_bool"])
        c["A"]["full_form"] = r.choice(["bool", "bool", "int", "np_bool"])
        cases.append(c)
    while len([c for c in cases if c["kind"] == "param"]) < n_pa:
        r = random.Random(rng.getrandbits(64))
        base = SC.gen_sim_case(r, max_x0=25)
        if base is None:
            continue
        c = dict(base)
        c["kind"] = "param"
        c["sim"] = SC.sim_settings(r, base, "exact", steps=[20, 40])
        t0, T = c["sim"]["t0"], c["sim"]["T"]
        k = r.choice([1, 1] + list(range(2, 9)) * 2)
        g = [t0 + (T - t0) * (i + 1) / k for i in range(k)]
        # output times at the boundaries: one point (also handed over as a bare number), t0 itself first, a time twice
        c["grid_shape"] = "one_point" if k == 1 else r.choice(["after_t0"] * 4 + ["from_t0", "repeated"])
        if c["grid_shape"] == "from_t0":
            g = [t0] + g
        elif c["grid_shape"] == "repeated":
            j = r.randrange(len(g))
            g = g[:j] + [g[j]] + g[j:]
        c["grid"] = g
        c["form"] = r.choice(["frozen", "tuple", "mixed"])
        # two of three PARAM cases draw their first entry through one of pygom's own samplers, taken in turn (every run uses all of them)
        k_par = len([x for x in cases if x["kind"] == "param"])
        c["pdict"] = gen_pdict(r, base["meta"]["params"], base["params"], c["form"], force=R_FUNCTIONS[(k_par // 3 * 2 + k_par % 3) % len(R_FUNCTIONS)] if k_par % 3 else None)
        c["n"] = r.randint(1, 6)
        c["A"] = {"entry": r.choice(["simulate_param", "solve_determ"]), "n": c["n"], "n_form": r.choice(["int", "int", "np_i64"])}
        c["B"] = {"entry": r.choice(["simulate_param", "solve_determ"]), "n": r.randint(1, 3)}
        c["grid_form"] = r.choice(["array", "array", "list", "tuple"] + (["number", "number"] if c["grid_shape"] == "one_point" else []))
        c["prep"] = r.choice([["other", "none"], ["none", "other"], ["other", "same"], ["same", "other"], ["none", "same"]])
        c["seed2"] = r.randrange(2 ** 31)
        c["seed3"] = r.randrange(2 ** 31)
        cases.append(c)
    for _ in range(budget.get("samplers", 0)):
        cases.append(gen_samplers_case(random.Random(rng.getrandbits(64))))
    for kind, gen_ in (("hist_stoch", gen_hist_stoch), ("hist_param", gen_hist_param), ("session", gen_session_case), ("mean", gen_mean_case)):
        n = 0
        while n < budget.get(kind, 0):
            c = gen_(random.Random(rng.getrandbits(64)), budget, n)
            if c is not None:
                cases.append(c)
                n += 1
    return cases


def search_cases(rng, tier, budget):
    b = dict(budget)
    for k in ("stoch", "param", "hist_stoch", "hist_param", "session", "mean"):
        b[k] = budget.get(k, 0) * 3
    b["samplers"] = 0
    return make_cases(rng, tier, b)


# ----------------------------------------------------------------------------- helpers
def same(a, b):
    """bitwise identity of two returned pieces (arrays, numbers, nested lists/tuples of them)"""
    if isinstance(a, (list, tuple)) or isinstance(b, (list, tuple)):
        if not (isinstance(a, (list, tuple)) and isinstance(b, (list, tuple))) or len(a) != len(b):
            return False
        return all(same(x, y) for x, y in zip(a, b))
    a, b = np.asarray(a), np.asarray(b)
    return a.shape == b.shape and a.dtype == b.dtype and a.tobytes() == b.tobytes()


def brief(o):
    if isinstance(o, (list, tuple)):
        return "[" + ", ".join(brief(x) for x in o[:3]) + (", ..." if len(o) > 3 else "") + "]"
    a = np.asarray(o)
    return "array%s%s" % (a.shape, a.ravel()[:4].tolist())


WARNED = []     # warnings raised by the runs of the current case (integration failures: lsoda "excess work", overflow)


def quiet(f, *a, **k):
    import warnings
    buf = io.StringIO()
    with contextlib.redirect_stdout(buf), warnings.catch_warnings(record=True) as w:
        warnings.simplefilter("always")
        try:
            return f(*a, **k), None
        except Exception as exc:   # compared between runs, judged by the caller
            return None, exc
        finally:
            WARNED.extend(str(x.category.__name__) for x in w)


@contextlib.contextmanager
def caps(model, exact, max_steps):
    """the same deterministic cut for explosive paths that C04's tracer installs (so that a traced and an untraced run of one
    seed are cut at the same place): the first evaluator of a loop iteration raises SimulationError once a _jump has made
    `max_steps` iterations, the rate evaluator raises it when the total rate exceeds the cap; _jump catches it and returns
    the path so far.  A function of the path alone."""
    from pygom.model._model_errors import SimulationError
    first = "vMat" if exact else "pureOdeVector"
    orig_first, orig_rate, orig_jump = getattr(model, first), model.eventRateVector, model._jump
    cnt = [0]

    def first_w(state, t):
        cnt[0] += 1
        if cnt[0] > max_steps:
            raise SimulationError("harness: step cap reached")
        return orig_first(state, t)

    def rate_w(state, t):
        v = orig_rate(state, t)
        if float(np.sum(np.abs(v))) > SC.RATE_CAP:
            raise SimulationError("harness: rate cap reached")
        return v

    def jump_w(*a, **k):
        cnt[0] = 0
        return orig_jump(*a, **k)
    setattr(model, first, first_w)
    model.eventRateVector = rate_w
    model._jump = jump_w
    try:
        yield
    finally:
        setattr(model, first, orig_first)
        model.eventRateVector = orig_rate
        try:
            del model._jump
        except AttributeError:
            pass


def time_arg(case, which):
    k = case[which]["time"]
    T = case["sim"]["T"]
    if k == "grid":
        g = case["grid"]
        return {"list": list(g), "tuple": tuple(g), "array": np.array(g, float)}[case["grid_kind"]]
    if k == "list1":
        return [T]
    if k == "tuple1":
        return (T,)
    if k == "np_f64":
        return np.float64(T)
    if k == "int":
        return int(T)
    return T


def n_arg(call):
    return np.int64(call["n"]) if call.get("n_form") == "np_i64" else int(call["n"])


class Res:
    """what one call returned (.out), what it raised (.err), and the harness's OWN COPY of the output taken at that moment
    (.snap): later comparisons use the copy, and `Keeper.check` compares the object with its copy after everything else"""

    def __init__(self, pair, label=""):
        self.out, self.err = pair
        self.snap = copy.deepcopy(self.out)
        self.label = label

    def __getitem__(self, i):          # (out, err) pair, as before
        return (self.out, self.err)[i]


class Keeper:
    def __init__(self):
        self.kept = []

    def keep(self, pair, label=""):
        r = pair if isinstance(pair, Res) else Res(pair, label)
        self.kept.append(r)
        return r

    def check(self, viol, signature):
        for r in self.kept:
            if r.err is None and not same(r.out, r.snap):
                viol.append({"what": "a result returned earlier was changed by later calls on the model (%s)" % r.label,
                             "signature": signature, "detail": "returned %s, now reads %s" % (brief(r.snap), brief(r.out))})
                return False
        return True


def same_values(a, b):
    """equal shapes and values of two returned pieces (the dtype may follow the FORM of the initial state handed over)"""
    if isinstance(a, (list, tuple)) or isinstance(b, (list, tuple)):
        if not (isinstance(a, (list, tuple)) and isinstance(b, (list, tuple))) or len(a) != len(b):
            return False
        return all(same_values(x, y) for x, y in zip(a, b))
    a, b = np.asarray(a), np.asarray(b)
    return a.shape == b.shape and bool(np.array_equal(a, b))


def handed_modified(model, tags):
    """an object the caller handed in was written to: a side effect the property does not speak about (tag only)"""
    try:
        arg = getattr(model, "_verif_x0_arg", None)
        snap = getattr(model, "_verif_x0_snap", None)
        if arg is not None and snap is not None and not SC._same_obj(arg, snap):
            tags.append("input-modified:x0")
    except Exception:
        pass


def fresh_stoch_model(case, rec=None):
    model = SC.build_model(case)
    model._verif_x0_snap = copy.deepcopy(model._verif_x0_arg)
    if case.get("pdict"):
        model.parameters = build_pdict(case["pdict"], rec)
    x0 = np.array(case["x0"], float)
    t0 = case["sim"]["t0"]
    for name in SC.EVALUATORS:                 # compile now (sympy), outside every recorded run
        getattr(model, name)(x0, t0)
    return model


def stoch_call(model, case, which, seed, full=True, reseed=True):
    with caps(model, case[which]["exact"], case.get("max_steps", SC.MAX_STEPS)):
        if reseed:
            np.random.seed(seed)
        return Res(quiet(model.solve_stochast, time_arg(case, which), n_arg(case[which]), parallel=False,
                         exact=SC.flag_obj(case[which]["exact"], case[which].get("exact_form")), full_output=SC.flag_obj(full, case[which].get("full_form"))),
                   "%s, seed %s" % (which, seed))


def pidx(model, name):
    return [str(p) for p in model.param_list].index(name)


def spec_json(model, desc):
    return [[pidx(model, e["name"]), SC.q(e["value"]) if e["kind"] == "fixed" else None] for e in desc]


def req_close(lean_req, obs, model):
    kind, par = lean_req[0], lean_req[1]
    if kind != obs[0]:
        return False
    if kind == "param":
        return int(par) == pidx(model, obs[1])
    try:
        return SC.close(Fraction(par), obs[1], rel=1e-11, abs_=1e-300)
    except OverflowError:
        # scale 1/rate of a denormal rate: beyond the largest double in the exact model, +inf (or ~1e308) in the code
        return bool(np.isinf(obs[1]) or abs(obs[1]) > 1e300)


# ----------------------------------------------------------------------------- STOCH
def run_stoch(case):
    spec, meta, sim = case["spec"], case["meta"], case["sim"]
    tags, mism, viol = [], [], []
    A, B = case["A"], case["B"]
    exact = A["exact"]
    n = A["n"]
    seed = sim["np_seed"]
    nS, nE = len(meta["states"]), len(meta["procs"])
    modek = "exact" if exact else "tau"
    form = "raw" if A["time"] != "grid" else "grid"
    pform = "fixed-params" if not case.get("pdict") else "stoch-params"
    tags += ["stoch", "mode:" + sim["mode"], "time:" + A["time"], "n=%d" % n, pform, "nS=%d" % nS, "nE=%d" % nE] + pdict_tags(case)
    if "grid" in (A["time"], B["time"]): tags.append("grid_shape:%s" % case.get("grid_shape", "from_t0"))
    if float(sim["T"]) <= float(sim["t0"]): tags.append("horizon-at-t0")
    tags += ["exact_form:%s" % A.get("exact_form", "bool"), "full_output_form:%s" % A.get("full_form", "bool")]
    sig = lambda what, extra="": "C16:solve_stochast:%s:%s:%s:%s%s" % (what, modek, form, pform, extra)

    def mm(what, detail):
        mism.append({"what": what, "detail": detail if len(mism) < 4 else ""})

    # ---------------- traced run (model <-> code), which is also run 1 of the oracle
    rec = Recorder()
    mA = fresh_stoch_model(case, rec)
    cur0 = [float(v) for v in mA._paramValue]
    lr = SC.lean_lims(spec)
    with rec:
        tr = SC.traced_run(mA, time_arg(case, "A"), exact, seed, iterations=n_arg(A), max_steps=case.get("max_steps", SC.MAX_STEPS))
        end_state = np.random.get_state()
    if tr.error is not None:
        tags.append("raised:" + type(tr.error).__name__)
    # the tracer replaces `_jump` by a wrapper with the signature of the unchanged tree; a tree that passes `_jump` another keyword
    # cannot be traced: the tie is broken (mismatch), and the direct oracle below goes on without the traced run - the error is the
    # harness's, not pygom's
    tracer_blind = isinstance(tr.error, TypeError) and "rec_jump" in str(tr.error)
    if tracer_blind:
        mm("trace:jump-signature", "solve_stochast calls _jump with arguments the tracer does not know: %s" % str(tr.error)[:200])
        tags.append("tracer-blind:_jump-signature")
    O1 = tr.result
    stream = rec.stream()
    if not stream or stream[0][0] != "seed":
        mm("recorder", "the harness's own seed call was not recorded first")
    body = stream[1:]
    for f in sorted(set(rec.foreign)):
        mm("foreign-source", "%s was constructed / used %d times during solve_stochast" % (f, rec.foreign.count(f)))
    for s_ in body:
        if s_[0] == "seed":
            mm("reseed", "np.random.%s called during solve_stochast" % s_[1])
        elif s_[0].startswith("other:"):
            mm("unexpected-draw", "np.random.%s called during solve_stochast" % s_[0][6:])
    for b in shadow_account(rec, seed, end_state)[:3]:
        mm("global-generator-accounting", b)

    accepted = 0
    logp = 0.0
    continuous = False
    if tr.error is None and len(tr.jumps) == n:
        jumps_json, per_jump_its = [], []
        ok_shape = True
        for p in range(n):
            jr = tr.jumps[p]
            J = jr["J"]
            if J.ndim == 1:
                J = J.reshape(0, nE)
            jr["J"] = J
            jlog = tr.log[jr["log"][0]:jr["log"][1]]
            if case.get("pdict"):
                # a parameter sampler that is itself rexp/... is seen by C04's tracer too: those draws precede the loop
                k0 = 0
                while k0 < len(jlog) and jlog[k0][0] != "fn":
                    k0 += 1
                jlog = jlog[k0:]
            its = SC.segment(jlog, exact)
            SC.tie_steps(mA, case, jr, its, lr["lims"], mism, tags)         # C04's per-step replay
            its = [it for it in its if it.get("complete")]
            per_jump_its.append(its)
            accepted += len(jr["T"]) - 1
            if jr["truncated"]:
                tags.append("truncated")
            steps = []
            for it in its:
                rates = np.asarray(it["rates"], float).ravel()
                if not np.all(np.isfinite(rates)):
                    ok_shape = False
                    break
                st = {"x": SC.qs(it["x"]), "t": SC.q(it["t"]), "rates": SC.qs(rates), "vcols": SC.vcols(it["V"], nS, len(rates))}
                if not exact:
                    st.update({"pure": SC.qs(it["pure"]), "mu": SC.qs(it["mu"]) if "mu" in it else None,
                               "sigma2": SC.qs(it["sigma2"]) if "sigma2" in it else None})
                    if it["retry"]:
                        tags.append("tau_rejected")
                steps.append(st)
            jumps_json.append({"steps": steps})
        if ok_shape:
            react = np.asarray(mA._lambdaMat, int) if getattr(mA, "_lambdaMat", None) is not None else None
            req = {"op": "seed_stochast", "exact": exact, "lims": lr["lims"],
                   "react": [[int(react[i, j]) for i in range(nS)] for j in range(nE)] if (react is not None and not exact) else None,
                   "epsilon": SC.q(getattr(mA, "_epsilon", 0.03)), "pre_tau": SC.q(mA.pre_tau) if mA.pre_tau is not None else None,
                   "spec": spec_json(mA, case["pdict"]) if case.get("pdict") else None, "cur": [SC.q(v) for v in cur0],
                   "stream": [SC.q(v[2]) if v[2] is not None else "0" for v in body], "jumps": jumps_json}
            r = leanio.driver().call(req)
            sched = []
            for jp in r["jumps"]:
                sched += jp["param_reqs"]
                for stp in jp["steps"]:
                    sched += stp["reqs"]
            if len(sched) != len(body) or r["left"] != 0:
                mm("schedule:length", "the Lean model requests %d draws for the observed path, %d were recorded (%d left over); first recorded %s ; first requested %s"
                   % (len(sched), len(body), r["left"], [b[:2] for b in body[:4]], sched[:4]))
            else:
                for i, (lq, ob) in enumerate(zip(sched, body)):
                    if not req_close(lq, ob, mA):
                        mm("schedule:request", "draw %d: model requests %s, recorded (%s, %r)" % (i, lq, ob[0], ob[1]))
                        break
            # outcome of every iteration against the recorded path (threaded stream)
            for p, (jp, its) in enumerate(zip(r["jumps"], per_jump_its)):
                X, T, J = tr.jumps[p]["X"], tr.jumps[p]["T"], tr.jumps[p]["J"]
                for k_, (stp, it) in enumerate(zip(jp["steps"], its)):
                    appended = k_ < len(T) - 1
                    if appended != (stp["out"] == "next"):
                        if not (np.any(np.ravel(it.get("pure", 0.0)))):
                            mm("threaded-replay:append/stop", "jump %d iteration %d: model %s, code %s" % (p, k_, stp["out"], "appended" if appended else "stopped"))
                        break
                    if appended:
                        if [int(c) for c in stp["counts"]] != [int(c) for c in np.asarray(J[k_]).ravel()]:
                            mm("threaded-replay:counts", "jump %d iteration %d: model %s code %s" % (p, k_, stp["counts"], np.asarray(J[k_]).tolist()))
                            break
                        if not SC.same_vec(stp["x"], X[k_ + 1], 1e-9) or not SC.close(Fraction(stp["t"]), T[k_ + 1]):
                            mm("threaded-replay:state/time", "jump %d iteration %d" % (p, k_))
                            break
            # parameter vector after the call
            if case.get("pdict"):
                after = [float(v) for v in mA._paramValue]
                if [Fraction(v) for v in r["cur"]] != [Fraction(v) for v in after]:
                    mm("params-after-call", "model %s code %s" % ([float(Fraction(v)) for v in r["cur"]], after))
        # coincidence probability of the recorded run (for the different-seed oracle)
        # (a recorded waiting time is continuous and is part of the returned times; with fixed parameters a second run follows
        # the same path with probability prod pmf(count; mean); with stochastic parameters its means differ: pmf(k; m) <= pmf(k; k))
        for kind, par, val in body:
            if kind == "expo":
                continuous = True
            elif kind == "pois" and par > 0:
                m_ = float(val) if case.get("pdict") else par
                if m_ > 0:
                    logp += val * math.log(m_) - m_ - math.lgamma(val + 1)
    elif tr.error is None:
        mm("trace:jumps", "%d _jump calls recorded for %d iterations" % (len(tr.jumps), n))

    # ---------------- direct oracle (no Lean); every comparison is against the harness's own copy of the earlier result
    keeper = Keeper()

    def check_same(name, got, want, what):
        if (got.err is None) != (want.err is None) or (got.err is not None and type(got.err) is not type(want.err)):
            viol.append({"what": "%s: one run raised, the other did not" % name, "signature": sig(what, ":raise"),
                         "detail": "%r vs %r" % (got.err, want.err)})
            return False
        if got.err is None and not same(got.snap, want.snap):
            viol.append({"what": "%s: outputs differ after the same np.random.seed" % name, "signature": sig(what),
                         "detail": "seed %s, x0 handed over as %s, t0 as %s: %s  vs  %s" % (seed, sim.get("x0_form"), sim.get("t0_form"), brief(got.out), brief(want.snap))})
            return False
        return True

    call = lambda *a, **k: keeper.keep(stoch_call(*a, **k))
    O1p = keeper.keep((O1, tr.error), "traced run")
    if tr.error is not None and isinstance(tr.error, AttributeError) and "tolist" in str(tr.error) and sim.get("t0_form") in ("py_float", "py_int"):
        tags.append("rejected_form:t0:" + sim["t0_form"])
    mB = fresh_stoch_model(case)
    O2 = call(mB, case, "A", seed)
    if not tracer_blind:
        check_same("traced run vs fresh model", O2, O1p, "same-seed-differs")
    O3 = call(mB, case, "A", seed)
    check_same("same model, second time", O3, O2, "same-seed-differs-second-call")
    # full_output=False returns the states of the same run
    O5 = call(mB, case, "A", seed, full=False)
    if O2.err is None and O5.err is None and not same(list(O5.out), list(O2.snap[0])):
        viol.append({"what": "full_output=False does not return the states of the full_output=True run of the same seed",
                     "signature": sig("full-output-differs"), "detail": "%s vs %s" % (brief(O5.out), brief(O2.snap[0]))})
    # different seed
    O4 = call(mB, case, "A", case["seed2"])
    rule = (form == "raw" and tr.error is None and accepted >= 20 and (continuous or logp < math.log(1e-12))
            and not any(j["truncated"] for j in tr.jumps))
    if rule:
        tags.append("different-seed-checked")
        if O4.err is None and O2.err is None and same(O4.out, O2.snap):
            viol.append({"what": "two different seeds give identical outputs", "signature": sig("different-seed-same"),
                         "detail": "seeds %s and %s, %d recorded events: %s" % (seed, case["seed2"], accepted, brief(O2.snap))})
    # histories: seed; A; B   twice on the same model, then on a fresh model after a different earlier run
    def seq(model, first_seed):
        a = call(model, case, "A", first_seed)
        b = call(model, case, "B", None, reseed=False)        # continues the stream where A left it
        return a, b
    a1, b1 = seq(mB, seed)
    a2, b2 = seq(mB, seed)
    check_same("seed; A; B (A, first time)", a1, O2, "history:A-after-earlier-runs")
    if check_same("seed; A; B repeated (A)", a2, a1, "history:sequence-A"):
        check_same("seed; A; B repeated (B)", b2, b1, "history:sequence-B")
    mC = fresh_stoch_model(case)
    call(mC, case, "B", case["seed3"])                             # a different earlier run
    a3, b3 = seq(mC, seed)                                          # ... followed by re-seeding
    if check_same("fresh model after a different earlier run (A)", a3, a1, "history:after-different-run-A"):
        check_same("fresh model after a different earlier run (B)", b3, b1, "history:after-different-run-B")
    # the same numbers handed over in the plainest form (integer ndarray, numpy float64 time): the same path
    if sim.get("x0_form") not in (None, "arr_int") or sim.get("t0_form") not in (None, "np_f64"):
        mD = fresh_stoch_model(dict(case, sim=dict(sim, x0_form="arr_int", t0_form="np_f64")))
        O6 = call(mD, case, "A", seed)
        if O6.err is None and O2.err is None and not same_values(O6.out, O2.snap):
            viol.append({"what": "the same initial values handed over in another form give another path under the same seed",
                         "signature": sig("form-of-initial-values"),
                         "detail": "x0 as %s / t0 as %s: %s ; as integer ndarray / float64: %s" % (sim.get("x0_form"), sim.get("t0_form"), brief(O2.snap), brief(O6.out))})
        handed_modified(mD, tags)
    keeper.check(viol, sig("result-overwritten"))
    for m_ in (mA, mB, mC):
        handed_modified(m_, tags)
    tags += ["x0_form:" + str(sim.get("x0_form")), "t0_form:" + str(sim.get("t0_form"))]
    return {"nontrivial": accepted >= 5 and tr.error is None, "mismatches": mism, "violations": viol, "tags": tags,
            "sample": {"kind": "stoch", "spec": spec, "x0": case["x0"], "params": case["params"], "sim": sim, "A": A, "B": B,
                       "pdict": case.get("pdict"), "recorded_draws": len(body), "accepted_steps": accepted}}


# ----------------------------------------------------------------------------- PARAM
def other_grid(case):
    """a grid of another length (and another end) than the case's: what a model may have been integrated on before"""
    g = [float(v) for v in case["grid"]]
    t0 = float(case["sim"]["t0"])
    return [t0 + (g[-1] - t0) * (i + 1) / (len(g) + 2) * 0.75 for i in range(len(g) + 2)]


def fresh_param_model(case, rec=None, prep="same"):
    """`prep`: what the instance was used for before the dict is assigned - integrate on the case's grid ("same": also compiles
    outside a recorded run), on a grid of another length ("other"), or nothing at all ("none": never integrated)"""
    model = pymodel.build(case["spec"], backend="lambda")
    model.parameters = {k: float(v) for k, v in case["params"].items()}
    model.initial_values = (np.array(case["x0"], float), np.float64(case["sim"]["t0"]))
    if prep == "same":
        quiet(model.integrate, np.array(case["grid"], float))      # compile now (sympy), outside every recorded run
    elif prep == "other":
        quiet(model.integrate, np.array(other_grid(case), float))
    model.parameters = build_pdict(case["pdict"], rec)
    return model


def grid_arg(case, form=None):
    g = [float(v) for v in case["grid"]]
    form = form or case.get("grid_form") or "array"
    return {"array": lambda: np.array(g, float), "list": lambda: list(g), "tuple": lambda: tuple(g), "number": lambda: float(g[-1])}[form]()


def param_call(model, case, which, seed, full=True, reseed=True):
    if reseed:
        np.random.seed(seed)
    f = getattr(model, case[which]["entry"])
    return Res(quiet(f, grid_arg(case), n_arg(case[which]), parallel=False, full_output=full), "%s %s, seed %s" % (which, case[which]["entry"], seed))


def exact_mean(Yall):
    arrs = [np.asarray(y, float) for y in Yall]
    shp = arrs[0].shape
    out = np.empty(shp, dtype=object)
    for idx in np.ndindex(*shp):
        out[idx] = sum(Fraction(float(a[idx])) for a in arrs) / len(arrs)
    return out


def check_mean_of(out, entry, nn, viol, sig):
    """`Y == mean(Y_all)`: the reported mean trajectory against the exact rational mean of the runs returned alongside it, entry by
    entry, to 1e-12 of the largest term (numpy sums n doubles to within n * 1.1e-16 of it); for any number of runs"""
    if out[1] is not None:
        return
    Yo, Yl = np.asarray(out[0][0], float), [np.asarray(y, float) for y in out[0][1]]
    if len(Yl) != nn:
        viol.append({"what": "Y_all has %d elements for %d iterations" % (len(Yl), nn), "signature": sig("yall-length", entry), "detail": ""})
        return
    if any(y.shape != Yo.shape for y in Yl):
        viol.append({"what": "Y and Y_all have different shapes", "signature": sig("shape", entry), "detail": "%s vs %s" % (Yo.shape, [y.shape for y in Yl])})
        return
    if not (np.all(np.isfinite(Yo)) and all(np.all(np.isfinite(y)) for y in Yl)):
        return
    ref = exact_mean(Yl)
    for idx in np.ndindex(*Yo.shape):
        big = max(abs(float(y[idx])) for y in Yl)
        if abs(Fraction(float(Yo[idx])) - ref[idx]) > Fraction(1e-12) * Fraction(big):
            viol.append({"what": "the reported mean trajectory is not the mean of the runs returned alongside it",
                         "signature": sig("mean", entry),
                         "detail": "entry %s: Y=%r, mean(Y_all)=%r (n=%d, terms %s%s)" % (idx, float(Yo[idx]), float(ref[idx]), nn, [float(y[idx]) for y in Yl[:8]], " ..." if nn > 8 else "")})
            return


def run_param(case):
    del WARNED[:]
    r = _run_param(case)
    bad = sorted(set(w for w in WARNED if w in ("ODEintWarning", "RuntimeWarning")))
    if bad:
        # the property presupposes a deterministic integrator: an integration that fails (finite-time explosion of a generated
        # model, overflow) makes scipy's lsoda return garbage that differs from call to call - such cases are left out
        return {"nontrivial": False, "mismatches": [], "violations": [], "tags": [t for t in r["tags"] if t in ("param",)] + ["unstable-integration-skipped"] + ["warned:" + b for b in bad]}
    return r


def _run_param(case):
    spec, meta = case["spec"], case["meta"]
    tags, mism, viol = [], [], []
    A, B = case["A"], case["B"]
    n = A["n"]
    seed = case["sim"]["np_seed"]
    forms = sorted(set(e["kind"] for e in case["pdict"] if e["kind"] != "fixed"))
    formk = "+".join(forms)
    tags += ["param", "entry:" + A["entry"], "form:" + formk, "n=%d" % n,
             "partial-dict" if len(case["pdict"]) < len(meta["params"]) else "full-dict"]
    if any(e["kind"] == "fixed" for e in case["pdict"]):
        tags.append("dict-with-numbers")
    tags += pdict_tags(case) + ["grid_shape:%s" % case.get("grid_shape", "after_t0"), "grid_form:%s" % case.get("grid_form", "array")]
    sig = lambda what, entry=A["entry"]: "C16:%s:%s:%s" % (entry, what, formk)

    def mm(what, detail):
        mism.append({"what": what, "detail": detail if len(mism) < 4 else ""})

    # the property presupposes a deterministic integrator: an integration that blows up (finite-time explosion of a generated
    # model) makes scipy's lsoda return garbage that differs from call to call - such models are left out
    bound = 1e4 * (1.0 + max(abs(float(v)) for v in case["x0"]))
    m0 = pymodel.build(case["spec"], backend="lambda")
    m0.initial_values = (np.array(case["x0"], float), np.float64(case["sim"]["t0"]))
    m0.parameters = {k: 1.3 * float(v) for k, v in case["params"].items()}
    try:
        from ..runner import time_limit, CaseTimeout
        with time_limit(5):
            sol0, err0 = quiet(m0.integrate, np.array(case["grid"], float))
    except CaseTimeout:
        sol0, err0 = None, "slow"
    if err0 is not None or not np.all(np.isfinite(sol0)) or float(np.max(np.abs(sol0))) > bound:
        return {"nontrivial": False, "mismatches": [], "violations": [], "tags": tags + ["unstable-integration-skipped"]}

    # solve_determ of a model whose parameters are NOT stochastic: one plain integration, no draw (solve_determ_fixed_no_draws)
    recF = Recorder()
    with recF:
        np.random.seed(seed)
        st0 = np.random.get_state()
        solF, errF = quiet(m0.solve_determ, np.array(case["grid"], float), n, parallel=False, full_output=True)
        st1 = np.random.get_state()
    if errF is None:
        if len(recF.stream()) != 1 or recF.foreign or not (np.array_equal(st0[1], st1[1]) and st0[2] == st1[2]):
            mm("fixed-params:draws", "solve_determ with fixed parameters drew from a generator: %s %s" % (recF.stream()[1:4], recF.foreign[:3]))
        ref_, _e = quiet(m0.integrate, np.array(case["grid"], float))
        if isinstance(solF, tuple) or not same(solF, ref_):
            mm("fixed-params:result", "solve_determ with fixed parameters is not integrate(t)")
        tags.append("fixed-params-solve_determ")

    rec = Recorder()
    mA = fresh_param_model(case, rec)
    cur0 = [float(v) for v in mA._paramValue]
    names = [str(p) for p in mA.param_list]
    with rec:
        np.random.seed(seed)
        O1 = quiet(getattr(mA, A["entry"]), grid_arg(case), n_arg(A), parallel=False, full_output=True)
        end_state = np.random.get_state()
    if O1[1] is not None:
        tags.append("raised:" + type(O1[1]).__name__)
        return {"nontrivial": False, "mismatches": mism, "violations": viol, "tags": tags}
    Y, Yall = O1[0]
    Yall = [np.asarray(y, float) for y in Yall]
    Y = np.asarray(Y, float)
    finite = bool(np.all(np.isfinite(Y)) and all(np.all(np.isfinite(y)) for y in Yall))
    if not finite or max(float(np.max(np.abs(y))) for y in Yall) > bound:
        return {"nontrivial": False, "mismatches": [], "violations": [], "tags": tags + ["unstable-integration-skipped"]}
    stream = rec.stream()
    body = stream[1:]
    for f in sorted(set(rec.foreign)):
        mm("foreign-source", "%s was constructed / used %d times during %s" % (f, rec.foreign.count(f), A["entry"]))
    for s_ in body:
        if s_[0] == "seed":
            mm("reseed", "np.random.%s called during %s" % (s_[1], A["entry"]))
        elif s_[0] != "param":
            mm("unexpected-draw", "%s recorded during %s" % (s_[0], A["entry"]))
    for b in shadow_account(rec, seed, end_state)[:3]:
        mm("global-generator-accounting", b)

    # ---- the Lean model on the recorded values; integrator = reference integrations at the parameter vectors the stream yields
    sensitive, sensitive_cont = False, True
    rand_entries = [e for e in case["pdict"] if e["kind"] != "fixed"]
    kk = len(rand_entries)
    if finite and all(s_[0] == "param" and s_[2] is not None for s_ in body) and kk and len(body) % kk == 0:
        vals = [s_[2] for s_ in body]
        passes = [vals[i:i + kk] for i in range(0, len(vals), kk)]
        table, vecs = [], []
        mref = pymodel.build(case["spec"], backend="lambda")
        mref.initial_values = (np.array(case["x0"], float), np.float64(case["sim"]["t0"]))
        vec = list(cur0)
        for ps in passes:
            it = iter(ps)
            for e in case["pdict"]:
                vec[names.index(e["name"])] = float(e["value"]) if e["kind"] == "fixed" else next(it)
            vecs.append(list(vec))
            mref.parameters = {nm: float(v) for nm, v in zip(names, vec)}
            sol, err = quiet(mref.integrate, np.array(case["grid"], float))
            if err is not None or not np.all(np.isfinite(sol)):
                table = None
                break
            table.append({"params": [SC.q(v) for v in vec], "sol": [SC.qs(row) for row in np.asarray(sol, float)]})
        if table is not None:
            r = leanio.driver().call({"op": "seed_param", "spec": spec_json(mA, case["pdict"]), "cur": [SC.q(v) for v in cur0],
                                      "n": n, "stream": [SC.q(v) for v in vals], "table": table})
            if len(r["reqs"]) != len(body) or r["left"] != 0:
                mm("schedule:length", "the Lean model makes %d requests (n+1 = %d passes over %d distributions), %d were recorded"
                   % (len(r["reqs"]), n + 1, kk, len(body)))
            else:
                for i, (lq, ob) in enumerate(zip(r["reqs"], body)):
                    if not req_close(lq, ob, mA):
                        mm("schedule:request", "draw %d: model requests %s, recorded %s" % (i, lq, ob[:2]))
                        break
                if r["missing"]:
                    mm("params-per-run", "the parameter vectors of the Lean model are not those of the dict applied to the recorded draws")
                else:
                    LY = [np.array([[float(Fraction(v)) for v in row] for row in s_]) for s_ in r["Yall"]]
                    if len(LY) != len(Yall) or any(a.shape != b.shape or not np.allclose(a, b, rtol=1e-9, atol=1e-12) for a, b in zip(LY, Yall)):
                        mm("Y_all", "the returned list is not the integrations at the parameter values of passes 2..n+1 of the recorded stream")
                    else:
                        tol_ok = True
                        for i, row in enumerate(r["Y"]):
                            for j, v in enumerate(row):
                                big = max(abs(float(y[i, j])) for y in Yall)
                                if Y.shape != Yall[0].shape or abs(Fraction(v) - Fraction(float(Y[i, j]))) > Fraction(1e-9) * Fraction(big) + Fraction(1e-300):
                                    tol_ok = False
                        if not tol_ok:
                            mm("Y", "the reported mean is not the Lean model's mean of the list")
                after = [float(v) for v in mA._paramValue]
                if [Fraction(v) for v in r["cur"]] != [Fraction(v) for v in after]:
                    mm("params-after-call", "model %s code %s" % ([float(Fraction(v)) for v in r["cur"]], after))
            sols = [np.array([[float(Fraction(v)) for v in row] for row in t_["sol"]]) for t_ in table]
            sensitive = any(not np.array_equal(sols[0], s_) for s_ in sols[1:])
            # "another seed, another output" has probability one only when the output depends on a CONTINUOUS draw (two seeds give
            # the same Poisson / binomial variate with positive probability): with integer-valued samplers in the dict the rule is
            # applied only if moving the continuously drawn parameters moves the reference integration
            if sensitive and any(e.get("sampler") in DISCRETE_SAMPLERS for e in rand_entries):
                cont = [names.index(e["name"]) for e in rand_entries if e.get("sampler") not in DISCRETE_SAMPLERS]
                sensitive_cont = False
                if cont:
                    v2 = list(vecs[0])
                    for i_ in cont:
                        v2[i_] = v2[i_] * 1.07
                    mref.parameters = {nm: float(v) for nm, v in zip(names, v2)}
                    sol2, err2 = quiet(mref.integrate, np.array(case["grid"], float))
                    sensitive_cont = err2 is None and bool(np.all(np.isfinite(sol2))) and not np.array_equal(np.asarray(sol2, float), sols[0])
                tags.append("discrete-sampler:" + ("output-depends-on-a-continuous-draw" if sensitive_cont else "different-seed-rule-not-applicable"))
    elif finite:
        mm("schedule:shape", "%d recorded events for %d distribution-valued entries: %s" % (len(body), kk, [b[:2] for b in body[:6]]))

    # ---------------- direct oracle (no Lean); every comparison is against the harness's own copy of the earlier result
    keeper = Keeper()
    prep = case.get("prep") or ["same", "same"]
    tags.append("prep:%s/%s" % tuple(prep))

    def check_same(name, got, want, what, entry=A["entry"]):
        if (got.err is None) != (want.err is None):
            viol.append({"what": "%s: one run raised, the other did not" % name, "signature": sig(what + ":raise", entry), "detail": "%r vs %r" % (got.err, want.err)})
            return False
        if got.err is None and not same(got.snap, want.snap):
            viol.append({"what": "%s: outputs differ after the same np.random.seed" % name, "signature": sig(what, entry),
                         "detail": "seed %s (instances used before for: %s; dict entries %s): Y %s vs %s ; Y_all[0] %s vs %s"
                                   % (seed, prep, [e.get("sampler") or e.get("dist") or "number" for e in case["pdict"]],
                                      brief(got.out[0]), brief(want.snap[0]), brief(got.out[1][0]), brief(want.snap[1][0]))})
            return False
        return True

    check_mean = lambda out, entry, nn: check_mean_of(out, entry, nn, viol, sig)

    call = lambda *a_, **k_: keeper.keep(param_call(*a_, **k_))
    O1 = keeper.keep(O1, "traced run")
    check_mean(O1, A["entry"], n)
    mB = fresh_param_model(case, prep=prep[0])
    O2 = call(mB, case, "A", seed)
    check_same("traced run vs fresh model (used before for: %s)" % prep[0], O2, O1, "same-seed-differs")
    O3 = call(mB, case, "A", seed)
    check_same("same model, second time", O3, O2, "same-seed-differs-second-call")
    O5 = call(mB, case, "A", seed, full=False)
    if O5.err is None and O2.err is None and not same(O5.out, O2.snap[0]):
        viol.append({"what": "full_output=False does not return the mean of the full_output=True run of the same seed",
                     "signature": sig("full-output-differs"), "detail": "%s vs %s" % (brief(O5.out), brief(O2.snap[0]))})
    O4 = call(mB, case, "A", case["seed2"])
    check_mean(O4, A["entry"], n)
    if sensitive and finite and sensitive_cont:
        tags.append("different-seed-checked")
        if O4.err is None and O2.err is None and same(O4.out[1], O2.snap[1]):
            viol.append({"what": "two different seeds give identical runs", "signature": sig("different-seed-same"),
                         "detail": "seeds %s and %s: Y_all[0] %s" % (seed, case["seed2"], brief(O2.snap[1][0]))})

    def seq(model, first_seed):
        a_ = call(model, case, "A", first_seed)
        b_ = call(model, case, "B", None, reseed=False)
        return a_, b_
    a1, b1 = seq(mB, seed)
    a2, b2 = seq(mB, seed)
    check_mean(b1, B["entry"], B["n"])
    check_same("seed; A; B (A, first time)", a1, O2, "history:A-after-earlier-runs")
    if check_same("seed; A; B repeated (A)", a2, a1, "history:sequence-A"):
        check_same("seed; A; B repeated (B)", b2, b1, "history:sequence-B", B["entry"])
    mC = fresh_param_model(case, prep=prep[1])
    call(mC, case, "B", case["seed3"])
    a3, b3 = seq(mC, seed)
    if check_same("fresh model (used before for: %s) after a different earlier run (A)" % prep[1], a3, a1, "history:after-different-run-A"):
        check_same("fresh model after a different earlier run (B)", b3, b1, "history:after-different-run-B", B["entry"])
    keeper.check(viol, sig("result-overwritten"))
    return {"nontrivial": bool(sensitive and finite), "mismatches": mism, "violations": viol, "tags": tags,
            "sample": {"kind": "param", "spec": spec, "x0": case["x0"], "params": case["params"], "pdict": case["pdict"],
                       "A": A, "B": B, "grid": case["grid"], "recorded_draws": len(body)}}


# ----------------------------------------------------------------------------- MEAN: iteration counts around and beyond round numbers
# `mean_is_mean` (Props/C16.lean) is stated for ANY number of runs; the PARAM / HIST cases use 1..6.  A MEAN case is the cheapest
# random-parameter call there is (a generated model, 1-3 output times, never used before) with an iteration count from MEAN_COUNTS,
# taken in turn with each entry point: `Y == mean(Y_all)` exactly (rational mean of the returned runs, 1e-12 of the largest term), one
# run per iteration, and "seed; the same call with full_output=False" returns that mean again.  Seeded C16-d1 (the mean taken over
# blocks of 100 runs, the block means averaged unweighted) only shows beyond 100 runs, for counts that are not a multiple of 100.
MEAN_COUNTS = [99, 100, 101, 130, 250, 257]


def gen_mean_case(r, budget, index=0):
    base = SC.gen_sim_case(r, max_x0=25)
    if base is None:
        return None
    c = dict(base)
    c["kind"] = "mean"
    c["sim"] = SC.sim_settings(r, base, "exact", steps=[20, 40])
    t0, T = c["sim"]["t0"], c["sim"]["T"]
    k = r.choice([1, 2, 3])
    c["grid"] = [t0 + (T - t0) * (i + 1) / k for i in range(k)]
    c["grid_shape"] = "one_point" if k == 1 else "after_t0"
    c["form"] = r.choice(["frozen", "tuple", "mixed"])
    c["pdict"] = gen_pdict(r, base["meta"]["params"], base["params"], c["form"])
    n = MEAN_COUNTS[index % len(MEAN_COUNTS)]
    c["n"] = n
    c["A"] = {"entry": ["simulate_param", "solve_determ"][(index // len(MEAN_COUNTS)) % 2], "n": n, "n_form": r.choice(["int", "int", "np_i64"])}
    c["grid_form"] = r.choice(["array", "array", "list", "tuple"])
    return c


def run_mean(case):
    import time as _time
    del WARNED[:]
    tags, mism, viol = ["mean-case"], [], []
    A = case["A"]
    n, seed = int(A["n"]), case["sim"]["np_seed"]
    formk = "+".join(sorted(set(e["kind"] for e in case["pdict"] if e["kind"] != "fixed")))
    tags += ["entry:" + A["entry"], "form:" + formk, "n=%d" % n, "n:%s" % ("<100" if n < 100 else "100" if n == 100 else "101..199" if n < 200 else ">=200"),
             "grid_form:%s" % case.get("grid_form", "array")]
    sig = lambda what, entry=A["entry"]: "C16:%s:%s:%s" % (entry, what, formk)
    skip = lambda why: {"nontrivial": False, "mismatches": [], "violations": [], "tags": tags + [why]}
    # as in the PARAM cases: models whose integration explodes (lsoda then returns garbage that differs from call to call) are left out;
    # so are models whose integration is slow (the case makes 2 n of them)
    bound = 1e4 * (1.0 + max(abs(float(v)) for v in case["x0"]))
    m0 = pymodel.build(case["spec"], backend="lambda")
    m0.initial_values = (np.array(case["x0"], float), np.float64(case["sim"]["t0"]))
    m0.parameters = {k: 1.3 * float(v) for k, v in case["params"].items()}
    quiet(m0.integrate, np.array(case["grid"], float))            # compiles
    t_ = _time.time()
    sol0, err0 = quiet(m0.integrate, np.array(case["grid"], float))
    t_ = _time.time() - t_
    if err0 is not None or not np.all(np.isfinite(sol0)) or float(np.max(np.abs(sol0))) > bound:
        return skip("unstable-integration-skipped")
    if t_ * 2 * n > 30.0:
        return skip("slow-integration-skipped")
    model = fresh_param_model(case, prep="none")
    O1 = param_call(model, case, "A", seed)
    if O1.err is not None:
        tags.append("raised:" + type(O1.err).__name__)
        return {"nontrivial": False, "mismatches": mism, "violations": viol, "tags": tags}
    Yall = [np.asarray(y, float) for y in O1.out[1]]
    if not all(np.all(np.isfinite(y)) for y in Yall) or max(float(np.max(np.abs(y))) for y in Yall) > bound:
        return skip("unstable-integration-skipped")
    check_mean_of(O1, A["entry"], n, viol, sig)
    O2 = param_call(model, case, "A", seed, full=False)
    if [w for w in WARNED if w in ("ODEintWarning", "RuntimeWarning")]:
        return skip("unstable-integration-skipped")
    if O2.err is not None or not same(O2.out, O1.snap[0]):
        viol.append({"what": "full_output=False does not return the mean of the full_output=True run of the same seed",
                     "signature": sig("full-output-differs"), "detail": "n=%d: %s vs %s" % (n, brief(O2.out) if O2.err is None else repr(O2.err), brief(O1.snap[0]))})
    if not same(O1.out, O1.snap):
        viol.append({"what": "a result returned earlier was changed by later calls on the model (full_output=True run)", "signature": sig("result-overwritten"),
                     "detail": "returned %s, now reads %s" % (brief(O1.snap), brief(O1.out))})
    differ = any(not np.array_equal(Yall[0], y) for y in Yall[1:])
    return {"nontrivial": bool(differ), "mismatches": mism, "violations": viol, "tags": tags,
            "sample": {"kind": "mean", "spec": case["spec"], "x0": case["x0"], "params": case["params"], "pdict": case["pdict"], "A": A, "grid": case["grid"]}}


# ----------------------------------------------------------------------------- HIST: "seed; target call" after different histories
# A case names a TARGET (configuration + one call + seed) and a list of INSTANCES, each with constructor forms and a list of
# histories.  The reference instance is built plainly and makes "seed; target call" once.  Every other instance runs its
# histories one after the other; each history ends in the target configuration (the generator appends the assignments that
# restore it, in some accepted form) and is followed by "seed; target call" twice.  Oracle: every such output equals the
# reference's (values; the dtype of the state rows follows the form of x0) and the repetition (bitwise).
HIST_STOCH_KINDS = ["forms", "forms", "other_iv", "other_run", "same_call_other_seed", "tau_config", "params", "pdict_vs_numbers", "sibling",
                    "determ", "deepcopy"]
HIST_PARAM_KINDS = ["fresh", "integrate_same", "integrate_other", "integrate_other", "same_entry_other_grid", "same_entry_other_grid",
                    "same_entry_other_n", "other_entry", "stoch_run", "numbers_then_pdict", "other_pdict", "other_iv", "sibling", "deepcopy"]
PARAM_FORMS = ["dict"] + list(SC.PARAM_FORMS)


def _iv_op(r, x0, t0, nS, x0_form=None):
    forms = X0_FORMS + (["scalar"] if nS == 1 else [])
    return {"op": "set_iv", "x0": [int(v) for v in x0], "t0": float(t0), "x0_form": x0_form or r.choice(forms), "t0_form": r.choice(T0_FORMS),
            "via": r.choice(["values", "values", "separate"])}


def _restore_ops(r, c, *, iv=False, params=False, tau=False):
    """assignments that put an instance back into the target configuration (other objects, possibly other forms)"""
    ops = []
    if tau:
        ops += [{"op": "set_pre_tau", "value": c["sim"].get("pre_tau")}, {"op": "set_epsilon", "value": c["sim"].get("epsilon") if c["sim"].get("epsilon") is not None else 0.03}]
    if params:
        ops.append({"op": "set_params", "params": dict(c["params"]), "form": r.choice(PARAM_FORMS)})
        if c.get("pdict"):
            ops.append({"op": "set_pdict", "pdict": c["pdict"]})
    if iv:
        ops.append(_iv_op(r, c["x0"], c["sim"]["t0"], len(c["x0"])))
    return ops


def _some_stoch_call(r, c, exact=None):
    t0, T = c["sim"]["t0"], c["sim"]["T"]
    time = SC.gen_grid_time(r, t0, T, max_points=5) if r.random() < 0.4 else SC.gen_scalar_time(r, t0 + (T - t0) * r.choice([0.5, 1.0]), kinds=("float", "np_f64", "list1", "tuple1"))
    return {"op": "stoch_call", "time": time, "n": r.randint(1, 2), "exact": (r.random() < 0.5) if exact is None else exact, "seed": r.randrange(2 ** 31)}


def _other_pdict(r, c):
    return gen_pdict(r, c["meta"]["params"], {k: float(v) * r.choice([0.5, 2.0]) for k, v in c["params"].items()}, r.choice(["frozen", "tuple", "mixed"]))


def _sibling_op(r, c, other=None):
    op = {"op": "sibling", "x0": SC.alt_x0(r, c["x0"]), "params": {p: float(v) * r.choice([0.5, 2.0]) for p, v in c["params"].items()},
          "t0": c["sim"]["t0"], "pre_tau": r.choice([None, 0.5]), "epsilon": r.choice([None, 0.3]), "exact": r.random() < 0.5,
          "x0_form": r.choice(["arr_int", "arr_f64", "list_float"]), "time": {"kind": "float", "values": [c["sim"]["T"]]}, "np_seed": r.randrange(2 ** 31)}
    if other is not None:
        op["case"] = {"spec": other["spec"], "meta": other["meta"], "x0": other["x0"], "params": other["params"]}
        op["x0"], op["params"] = other["x0"], other["params"]
    return op


def gen_history_stoch(r, c, kind, sib):
    nS = len(c["x0"])
    t0, T = c["sim"]["t0"], c["sim"]["T"]
    if kind == "forms":
        floaty = r.random() < 0.6
        return _restore_ops(r, c, iv=True) if not floaty else [_iv_op(r, c["x0"], t0, nS, x0_form=r.choice(["arr_f64", "list_float", "tuple_float"]))]
    if kind == "other_iv":
        t_alt = t0 + 1.0 if (r.random() < 0.4 and T - t0 > 2.5) else t0
        return [_iv_op(r, SC.alt_x0(r, c["x0"]), t_alt, nS), _some_stoch_call(r, c)] + _restore_ops(r, c, iv=True)
    if kind == "other_run":
        return [_some_stoch_call(r, c) for _ in range(r.randint(1, 2))]
    if kind == "same_call_other_seed":
        return [dict(c["target"], op="stoch_call", seed=r.randrange(2 ** 31))]
    if kind == "tau_config":
        tot = max(c["tot0"], 1e-3)
        return [{"op": "set_pre_tau", "value": float(min(r.choice([0.3, 1, 2, 5]) / tot, T - t0))}, {"op": "set_epsilon", "value": r.choice([0.01, 0.1, 0.3])},
                _some_stoch_call(r, c, exact=False)] + _restore_ops(r, c, tau=True)
    if kind == "params":
        first = ({"op": "set_pdict", "pdict": _other_pdict(r, c)} if c.get("pdict") and r.random() < 0.5 else
                 {"op": "set_params", "params": {p: float(v) * r.choice([0.5, 2.0]) for p, v in c["params"].items()}, "form": r.choice(PARAM_FORMS)})
        return [first, _some_stoch_call(r, c)] + _restore_ops(r, c, params=True)
    if kind == "pdict_vs_numbers":
        # a dict with distributions assigned and used, then replaced by plain numbers (fix cc23e1d: numbers clear the record) - or,
        # when the target itself has distributions, plain numbers used first
        if c.get("pdict"):
            first = {"op": "set_params", "params": {p: float(v) * r.choice([0.5, 2.0]) for p, v in c["params"].items()}, "form": r.choice(PARAM_FORMS)}
        else:
            first = {"op": "set_pdict", "pdict": _other_pdict(r, c)}
        mid = r.choice([_some_stoch_call(r, c), {"op": "integrate", "grid": [t0 + (T - t0) * (i + 1) / 3 for i in range(3)]}])
        return [first, mid] + _restore_ops(r, c, params=True)
    if kind == "sibling":
        return [_sibling_op(r, c, sib if r.random() < 0.5 else None)]
    if kind == "determ":
        g = [t0 + (T - t0) * (i + 1) / 4 for i in range(4)]
        if c.get("pdict") and r.random() < 0.6:
            return [{"op": "param_call", "entry": r.choice(["simulate_param", "solve_determ"]), "grid": g, "n": r.randint(1, 2), "seed": r.randrange(2 ** 31)}]
        return [{"op": "integrate", "grid": g}]
    if kind == "deepcopy":
        return [_some_stoch_call(r, c), {"op": "deepcopy"}]
    raise ValueError(kind)


def gen_hist_stoch(r, budget, index=0):
    base = SC.gen_sim_case(r, max_x0=25)
    sib = SC.gen_sim_case(r, max_x0=25)
    if base is None:
        return None
    mode = r.choice(["exact", "exact", "exact", "tau_adaptive", "tau_fixed", "tau_fixed"])
    c = dict(base)
    c["kind"], c["entry"] = "hist", "stoch"
    c["sim"] = SC.sim_settings(r, base, mode, big_tau=(mode == "tau_fixed" and r.random() < 0.7), steps=[5, 10, 20] if mode == "tau_adaptive" else [15, 25, 40])
    t0, T = c["sim"]["t0"], c["sim"]["T"]
    time = SC.gen_grid_time(r, t0, T, max_points=6, after_t0=0.0, past=(1, 1, 1.5)) if r.random() < 0.3 else \
        SC.gen_scalar_time(r, T, kinds=("float", "float", "np_f64", "list1", "tuple1", "int"))
    c["target"] = {"time": time, "n": r.randint(1, 4), "n_form": r.choice(["int", "int", "np_i64"]), "exact": mode == "exact", "seed": c["sim"]["np_seed"]}
    c["pdict"] = gen_pdict(r, base["meta"]["params"], base["params"], r.choice(["frozen", "tuple", "mixed"]),
                           force=r.choice([None] + R_FUNCTIONS)) if r.random() < 0.25 else None
    c["max_steps"] = budget.get("max_steps", SC.MAX_STEPS)
    kinds = [k for k in HIST_STOCH_KINDS]
    inst = []
    # instance 1: constructor forms only (float forms half of the time) + one history; instance 2: plain constructor, 2-3 histories in a row
    inst.append({"x0_form": r.choice(X0_FORMS + (["scalar"] if len(c["x0"]) == 1 else [])), "t0_form": r.choice(T0_FORMS),
                 "histories": [{"kind": k, "ops": gen_history_stoch(r, c, k, sib)} for k in [r.choice(["none", "other_run", "same_call_other_seed", "tau_config"])] if k != "none"] or [{"kind": "ctor_forms", "ops": []}]})
    ks = [r.choice(kinds) for _ in range(r.randint(2, 3))]
    inst.append({"x0_form": r.choice(["arr_int", "arr_f64", "list_float"]), "t0_form": "np_f64",
                 "histories": [{"kind": k, "ops": gen_history_stoch(r, c, k, sib)} for k in ks]})
    c["instances"] = inst
    return c


def gen_history_param(r, c, kind, sib):
    t0, T = c["sim"]["t0"], c["sim"]["T"]
    A = c["target"]
    og = other_grid(c)
    other_entry = "solve_determ" if A["entry"] == "simulate_param" else "simulate_param"
    pc = lambda entry, grid, n: {"op": "param_call", "entry": entry, "grid": list(grid), "n": n, "seed": r.randrange(2 ** 31), "full": r.random() < 0.7}
    if kind == "fresh":
        return []
    if kind == "integrate_same":
        return [{"op": "integrate", "grid": list(c["grid"])}]
    if kind == "integrate_other":
        return [{"op": "integrate", "grid": og if r.random() < 0.7 else og[:max(1, len(c["grid"]) - 1)]}]
    if kind == "same_entry_other_grid":
        return [pc(A["entry"], og if r.random() < 0.6 else list(c["grid"])[:-1] or og, r.randint(1, 3))]
    if kind == "same_entry_other_n":
        return [pc(A["entry"], c["grid"], r.choice([k for k in range(1, 7) if k != A["n"]]))]
    if kind == "other_entry":
        return [pc(other_entry, c["grid"] if r.random() < 0.5 else og, r.randint(1, 3))]
    if kind == "stoch_run":
        return [_some_stoch_call(r, c)]
    if kind == "numbers_then_pdict":
        return [{"op": "set_params", "params": {p: float(v) * r.choice([0.5, 2.0]) for p, v in c["params"].items()}, "form": r.choice(PARAM_FORMS)},
                {"op": "integrate", "grid": og}] + _restore_ops(r, c, params=True)
    if kind == "other_pdict":
        return [{"op": "set_pdict", "pdict": _other_pdict(r, c)}, pc(r.choice([A["entry"], other_entry]), r.choice([c["grid"], og]), r.randint(1, 2))] + _restore_ops(r, c, params=True)
    if kind == "other_iv":
        return [_iv_op(r, SC.alt_x0(r, c["x0"]), t0, len(c["x0"])), {"op": "integrate", "grid": og}] + _restore_ops(r, c, iv=True)
    if kind == "sibling":
        return [_sibling_op(r, c, sib if r.random() < 0.5 else None)]
    if kind == "deepcopy":
        return [{"op": "integrate", "grid": og}, {"op": "deepcopy"}]
    raise ValueError(kind)


def gen_hist_param(r, budget, index=0):
    base = SC.gen_sim_case(r, max_x0=25)
    sib = SC.gen_sim_case(r, max_x0=25)
    if base is None:
        return None
    c = dict(base)
    c["kind"], c["entry"] = "hist", "param"
    c["sim"] = SC.sim_settings(r, base, "exact", steps=[20, 40])
    t0, T = c["sim"]["t0"], c["sim"]["T"]
    k = r.choice([1] + list(range(2, 9)) * 2)                 # one output time: also handed over as a bare number
    c["grid"] = [t0 + (T - t0) * (i + 1) / k for i in range(k)]
    if k > 2 and r.random() < 0.15:
        c["grid"] = c["grid"][:1] + c["grid"]                  # a time twice
    c["pdict"] = gen_pdict(r, base["meta"]["params"], base["params"], r.choice(["frozen", "tuple", "mixed"]),
                           force=R_FUNCTIONS[(index // 2) % len(R_FUNCTIONS)] if index % 2 else None)
    c["target"] = {"entry": r.choice(["simulate_param", "solve_determ"]), "n": r.randint(1, 5), "n_form": r.choice(["int", "int", "np_i64"]),
                   "seed": c["sim"]["np_seed"]}
    c["max_steps"] = 60
    grid_forms = ["array", "list", "tuple"] + (["number"] if k == 1 else [])
    inst = []
    # instance 1: never integrated before the seeded call ("fresh") or used once; instance 2: 2-3 histories in a row
    k1 = r.choice(["fresh", "integrate_other", "same_entry_other_grid", "other_entry"])
    inst.append({"prep": "none", "grid_form": r.choice(grid_forms), "histories": [{"kind": k1, "ops": gen_history_param(r, c, k1, sib)}]})
    ks = [r.choice(HIST_PARAM_KINDS[1:]) for _ in range(r.randint(2, 3))]
    inst.append({"prep": r.choice(["none", "same", "other"]), "grid_form": r.choice(grid_forms),
                 "histories": [{"kind": k_, "ops": gen_history_param(r, c, k_, sib)} for k_ in ks]})
    c["instances"] = inst
    return c


assign_params = SC.assign_params


def record_of(model):
    """`_stochasticParam` in the vocabulary of the Lean model: None or [[index, value | None], ...] in dict order"""
    rec = getattr(model, "_stochasticParam", None)
    if rec is None:
        return None
    from numbers import Number
    return [[pidx(model, str(k)), SC.q(v) if isinstance(v, Number) else None] for k, v in rec.items()]


class SetterTie:
    """every assignment to `parameters` made by a history, replayed through the Lean setter model (`Seed.setParams`)"""

    def __init__(self, model):
        self.start = {"rec": record_of(model), "cur": [SC.q(v) for v in model._paramValue]}
        self.ops, self.obs = [], []

    def reset(self, model):
        self.__init__(model)

    def before(self, model):
        """the values in force before an assignment (runs made since the last one have redrawn some of them)"""
        self.cur_before = [SC.q(v) for v in model._paramValue]

    def after_dict(self, model, desc):
        spec = spec_json(model, desc)
        vals = [SC.q(model._paramValue[i]) for i, v in spec if v is None]
        self.ops.append({"dict": spec, "vals": vals, "cur": self.cur_before})
        self.obs.append((record_of(model), [SC.q(v) for v in model._paramValue]))

    def after_numbers(self, model, params, form):
        names = [str(p) for p in model.param_list]
        if form in ("list", "array", "tuples"):
            self.ops.append({"all": [SC.q(float(params[nm])) for nm in names], "cur": self.cur_before})
            self.obs.append((record_of(model), [SC.q(v) for v in model._paramValue]))
        elif form == "two_dicts" and len(params) > 1:
            ks = list(params)
            self.ops.append({"dict": [[names.index(k), SC.q(float(params[k]))] for k in ks[:len(ks) // 2]], "vals": [], "cur": self.cur_before})
            self.obs.append(None)
            self.ops.append({"dict": [[names.index(k), SC.q(float(params[k]))] for k in ks[len(ks) // 2:]], "vals": []})
            self.obs.append((record_of(model), [SC.q(v) for v in model._paramValue]))
        else:
            self.ops.append({"dict": [[names.index(k), SC.q(float(v))] for k, v in params.items()], "vals": [], "cur": self.cur_before})
            self.obs.append((record_of(model), [SC.q(v) for v in model._paramValue]))

    def judge(self, mism, tags):
        if not self.ops:
            return
        r = leanio.driver().call({"op": "seed_setter", "rec": self.start["rec"], "cur": self.start["cur"], "ops": self.ops})
        tags.append("setter-tie")
        for k, (stp, ob) in enumerate(zip(r["steps"], self.obs)):
            if ob is None:
                continue
            lrec = stp["rec"]
            lrec = None if lrec is None else [[int(i), v] for i, v in lrec]
            orec = None if ob[0] is None else [[int(i), v] for i, v in ob[0]]
            same_rec = (lrec is None) == (orec is None) and (lrec is None or (len(lrec) == len(orec) and all(
                a[0] == b[0] and (a[1] is None) == (b[1] is None) and (a[1] is None or Fraction(a[1]) == Fraction(b[1])) for a, b in zip(lrec, orec))))
            if not same_rec:
                mism.append({"what": "setter:record", "detail": "assignment %d (%s): the Lean setter records %s, pygom's _stochasticParam is %s" % (k, list(self.ops[k])[0], lrec, orec)})
                return
            if [Fraction(v) for v in stp["cur"]] != [Fraction(v) for v in ob[1]]:
                mism.append({"what": "setter:values", "detail": "assignment %d: Lean %s pygom %s" % (k, stp["cur"], ob[1])})
                return


class HistInstance:
    """one live model going through the ops of its histories"""

    def __init__(self, case, x0_form=None, t0_form=None, prep=None, tags=None):
        sim = dict(case["sim"], x0_form=x0_form, t0_form=t0_form)
        self.case, self.tags = case, tags if tags is not None else []
        self.detached = False
        self.model = SC.build_model(dict(case, sim=sim))
        self.handed = [(self.model._verif_x0_arg, copy.deepcopy(self.model._verif_x0_arg))]
        if prep == "same":
            quiet(self.model.integrate, np.array(case["grid"], float))
        elif prep == "other":
            quiet(self.model.integrate, np.array(other_grid(case), float))
        self.tie = SetterTie(self.model)
        if case.get("pdict"):
            self.tie.before(self.model)
            self.model.parameters = build_pdict(case["pdict"])
            self.tie.after_dict(self.model, case["pdict"])

    def stoch(self, d, seed, reseed=True, full=True):
        m = self.model
        with caps(m, bool(d["exact"]), self.case.get("max_steps", SC.MAX_STEPS)):
            if reseed:
                np.random.seed(seed)
            return Res(quiet(m.solve_stochast, SC.time_obj(d["time"]), n_arg(d), parallel=False, exact=bool(d["exact"]), full_output=full),
                       "solve_stochast(%s, n=%s, exact=%s), seed %s" % (d["time"]["kind"], d["n"], d["exact"], seed))

    def param(self, entry, grid, n, seed, full=True, form="array", n_form="int"):
        np.random.seed(seed)
        g = {"array": lambda: np.array(grid, float), "list": lambda: [float(v) for v in grid], "tuple": lambda: tuple(float(v) for v in grid),
             "number": lambda: float(grid[-1])}[form]()
        return Res(quiet(getattr(self.model, entry), g, np.int64(n) if n_form == "np_i64" else int(n), parallel=False, full_output=full),
                   "%s(grid of %d, n=%s), seed %s" % (entry, len(grid), n, seed))

    def run_op(self, op):
        k, m = op["op"], self.model
        self.tags.append("op:" + k)
        if k == "set_iv":
            x0_arg, t0_arg = SC.make_x0(op["x0"], op.get("x0_form")), SC.make_t0(op["t0"], op.get("t0_form"))
            if op.get("via") == "separate":
                m.initial_state = x0_arg; m.initial_time = t0_arg
            else:
                m.initial_values = (x0_arg, t0_arg)
            self.handed.append((x0_arg, copy.deepcopy(x0_arg)))
            self.tags.append("x0_form:" + str(op.get("x0_form")))
        elif k == "set_pre_tau":
            m.pre_tau = op["value"]
        elif k == "set_epsilon":
            m._epsilon = op["value"]
        elif k == "set_params":
            self.tie.before(m)
            form = assign_params(m, op["params"], op.get("form", "dict"))
            self.tie.after_numbers(m, op["params"], form)
            self.tags.append("params_form:" + form)
        elif k == "set_pdict":
            self.tie.before(m)
            m.parameters = build_pdict(op["pdict"])
            self.tie.after_dict(m, op["pdict"])
        elif k == "stoch_call":
            return self.stoch(op, op.get("seed", 0), full=op.get("full", True))
        elif k == "param_call":
            return self.param(op["entry"], op["grid"], op["n"], op.get("seed", 0), full=op.get("full", True))
        elif k == "integrate":
            np.random.seed(op.get("seed", 1))
            return Res(quiet(m.integrate, np.array(op["grid"], float)), "integrate")
        elif k == "sibling":
            SC.run_sibling(op, self.case)
        elif k == "deepcopy":
            self.model = copy.deepcopy(m)
            self.tie.reset(self.model)
            sp = getattr(self.model, "_stochasticParam", None)
            if isinstance(sp, dict) and any(hasattr(v, "dist") and getattr(v, "random_state", None) is not np.random.mtrand._rand for v in sp.values()):
                # scipy's frozen distributions hold a reference to numpy's global generator object; a deep copy gets a private
                # duplicate that np.random.seed does not reach (recorded defect, proposed_fixes/C16-deepcopy-frozen-distribution.diff)
                self.detached = True
                self.tags.append("deepcopy:frozen-distribution-detached-from-global-generator")
        else:
            raise ValueError("unknown history op %r" % k)
        return None

    def inputs_modified(self):
        return any(not SC._same_obj(a, b) for a, b in self.handed)


def run_hist(case):
    del WARNED[:]
    entry = case["entry"]
    tags, mism, viol = ["hist", "hist:" + entry] + pdict_tags(case), [], []
    tg = case["target"]
    seed = tg["seed"]
    keeper = Keeper()
    pform = "fixed-params" if not case.get("pdict") else "stoch-params:" + "+".join(sorted(set(e["kind"] for e in case["pdict"] if e["kind"] != "fixed")))
    if entry == "stoch":
        modek = "exact" if tg["exact"] else "tau"
        sig = lambda what, hk: "C16:solve_stochast:history:%s:%s:%s:%s" % (hk, what, modek, pform)
        tags += ["mode:" + case["sim"]["mode"], "time:" + tg["time"]["kind"], pform.split(":")[0]]
        target = lambda inst, **k: inst.stoch(tg, seed)
    else:
        sig = lambda what, hk: "C16:%s:history:%s:%s:%s" % (tg["entry"], hk, what, pform)
        tags += ["entry:" + tg["entry"], pform.split(":")[0]]
        # the property presupposes a deterministic integrator (see _run_param)
        bound = 1e4 * (1.0 + max(abs(float(v)) for v in case["x0"]))
        m0 = pymodel.build(case["spec"], backend="lambda")
        m0.initial_values = (np.array(case["x0"], float), np.float64(case["sim"]["t0"]))
        m0.parameters = {k: 1.3 * float(v) for k, v in case["params"].items()}
        try:
            from ..runner import time_limit, CaseTimeout
            with time_limit(5):
                sol0, err0 = quiet(m0.integrate, np.array(case["grid"], float))
        except CaseTimeout:
            sol0, err0 = None, "slow"
        if err0 is not None or not np.all(np.isfinite(sol0)) or float(np.max(np.abs(sol0))) > bound:
            return {"nontrivial": False, "mismatches": [], "violations": [], "tags": tags + ["unstable-integration-skipped"]}
        target = lambda inst, form="array": inst.param(tg["entry"], case["grid"], tg["n"], seed, form=form, n_form=tg.get("n_form", "int"))

    ref_inst = HistInstance(case, prep="same" if entry == "param" else None, tags=[])
    ref = keeper.keep(target(ref_inst))
    nontrivial = ref.err is None
    if entry == "param" and ref.err is None:
        Yl = [np.asarray(y, float) for y in ref.out[1]]
        if not all(np.all(np.isfinite(y)) for y in Yl) or max(float(np.max(np.abs(y))) for y in Yl) > bound:
            return {"nontrivial": False, "mismatches": [], "violations": [], "tags": tags + ["unstable-integration-skipped"]}
        nontrivial = any(not np.array_equal(Yl[0], y) for y in Yl[1:]) or len(Yl) == 1
    if entry == "stoch" and ref.err is None:
        nontrivial = max(len(np.atleast_1d(t)) for t in (ref.out[2] if isinstance(ref.out[2], list) else [ref.out[2]])) >= 3 and \
            sum(int(np.asarray(j).sum()) for j in ref.out[1]) >= 5

    def compare(name, got, want, hk, what, values_only, inst=None):
        if inst is not None and inst.detached:
            hk, what = "deepcopy", "frozen-distribution-detached-from-global-seed"
        if (got.err is None) != (want.err is None) or (got.err is not None and type(got.err) is not type(want.err)):
            viol.append({"what": "%s: one call raised, the other did not" % name, "signature": sig(what + ":raise", hk), "detail": "%r vs %r" % (got.err, want.err)})
            return False
        eq = same_values if values_only else same
        if got.err is None and not eq(got.snap, want.snap):
            viol.append({"what": "%s: outputs differ after the same np.random.seed" % name, "signature": sig(what, hk),
                         "detail": "seed %s, %s: %s  vs  %s" % (seed, got.label, brief(got.out), brief(want.snap))})
            return False
        return True

    for ii, idesc in enumerate(case["instances"]):
        inst = HistInstance(case, x0_form=idesc.get("x0_form"), t0_form=idesc.get("t0_form"), prep=idesc.get("prep"), tags=tags)
        tags.append("x0_form:" + str(idesc.get("x0_form")))
        ok = True
        for h in idesc["histories"]:
            hk = h["kind"]
            tags.append("history:" + hk)
            for op in h["ops"]:
                out = inst.run_op(op)
                if out is not None:
                    keeper.keep(out)
            kw = {"form": idesc.get("grid_form", "array")} if entry == "param" else {}
            r1 = keeper.keep(target(inst, **kw))
            ok = compare("instance %d after history '%s' vs reference instance" % (ii, hk), r1, ref, hk, "differs-from-reference", True, inst)
            r2 = keeper.keep(target(inst, **kw))
            ok = compare("instance %d after history '%s': second seeded call vs first" % (ii, hk), r2, r1, hk, "second-call-differs", False, inst) and ok
            if not ok:
                break
        inst.tie.judge(mism, tags)
        if inst.inputs_modified():
            tags.append("input-modified:x0")
    keeper.check(viol, sig("result-overwritten", "any"))
    if entry == "param":
        bad = sorted(set(w for w in WARNED if w in ("ODEintWarning", "RuntimeWarning")))
        if bad:
            return {"nontrivial": False, "mismatches": [], "violations": [], "tags": ["hist", "unstable-integration-skipped"] + ["warned:" + b for b in bad]}
    return {"nontrivial": bool(nontrivial), "mismatches": mism, "violations": viol, "tags": tags,
            "sample": {"kind": "hist", "entry": entry, "spec": case["spec"], "x0": case["x0"], "params": case["params"], "pdict": case.get("pdict"),
                       "target": tg, "instances": [{k: v for k, v in i.items() if k != "histories"} | {"histories": [h["kind"] for h in i["histories"]]} for i in case["instances"]]}}


# ----------------------------------------------------------------------------- SAMPLERS: the mechanism itself, function by function
# "all draws go through numpy's global generator when seed is None" (the property's mechanism anchor), for every R-style sampler of
# pygom.utilR called the way a (sampler, args) entry calls it (n = 1) and with n > 1: the same global seed gives the same variates,
# the variates are those of RandomState(seed) under the documented parameterisation, the global generator is consumed, no other
# generator is constructed, another seed changes a continuous variate.  A helper that fails is a BROKEN TIE (mismatch + tag
# `sampler-not-reproducible:<name>`), not yet a violation: the property speaks about simulations, and the PARAM / HIST / STOCH cases
# that draw through every one of these helpers are where a violation shows.
def _sampler_refs():
    import scipy.stats as st
    one = lambda v, n: v[0] if n == 1 else v
    return {"rexp": (lambda rs, n, rate: one(rs.exponential(scale=1.0 / rate, size=n), n), True),
            "rgamma": (lambda rs, n, shape, rate: one(rs.gamma(shape, scale=1.0 / rate, size=n), n), True),
            "rnorm": (lambda rs, n, mean, sd: one(rs.normal(mean, sd, size=n), n), True),
            "rchisq": (lambda rs, n, df: one(rs.chisquare(df, size=n), n), True),
            "runif": (lambda rs, n, lo, hi: one(rs.uniform(lo, hi, size=n), n), True),
            "rbeta": (lambda rs, n, a, b: st.beta.rvs(a, b, size=n, random_state=rs), True),
            "rpois": (lambda rs, n, mu: one(rs.poisson(mu, size=n), n), False),
            "rbinom": (lambda rs, n, size, prob: one(rs.binomial(size, prob, size=n), n), False),
            "rnbinom": (lambda rs, n, size, prob: one(rs.negative_binomial(size, prob, size=n), n), False)}


def gen_samplers_case(r):
    v = r.choice(SC.PARAM_VALUES)
    ent = [{"fn": "rexp", "args": [1.0 / v]}, {"fn": "rgamma", "args": [r.choice([2.0, 100.0]), 100.0 / v]}, {"fn": "rnorm", "args": [v, 0.05 * v]},
           {"fn": "rchisq", "args": [r.choice([3, 50])]}, {"fn": "runif", "args": [0.8 * v, 1.2 * v]}, {"fn": "rbeta", "args": [r.choice([2.0, 20.0]), 20.0]},
           {"fn": "rpois", "args": [r.choice([4.0, 40.0])]}, {"fn": "rbinom", "args": [40, r.choice([0.25, 0.5])]}, {"fn": "rnbinom", "args": [20, 0.5]}]
    r.shuffle(ent)
    for e in ent:
        e["n"] = r.choice([1, 1, 3])
    return {"kind": "samplers", "seed": r.randrange(2 ** 31), "seed2": r.randrange(2 ** 31), "entries": ent}


def run_samplers(case):
    from pygom import utilR
    tags, mism = ["samplers"], []
    refs = _sampler_refs()
    s1, s2 = int(case["seed"]), int(case["seed2"])
    for e in case["entries"]:
        name, n, a = e["fn"], int(e["n"]), list(e["args"])
        f = getattr(utilR, name)
        ref, continuous = refs[name]
        problems = []
        rec = Recorder()
        with rec:
            np.random.seed(s1)
            st0 = np.random.get_state()
            v1 = np.array(f(n, *a), copy=True)
            st1 = np.random.get_state()
            np.random.seed(s1)
            v2 = np.array(f(n, *a), copy=True)
            np.random.seed(s2)
            v3 = np.array(f(n, *a), copy=True)
        if not same(v1, v2):
            problems.append("two calls after np.random.seed(%d) return %s and %s" % (s1, v1.ravel()[:3], v2.ravel()[:3]))
        if rec.foreign:
            problems.append("constructs / uses %s" % sorted(set(rec.foreign)))
        if np.array_equal(st0[1], st1[1]) and st0[2] == st1[2]:
            problems.append("does not consume numpy's global generator")
        if continuous and same(v1, v3):
            problems.append("seeds %d and %d give the same variate %s" % (s1, s2, v1.ravel()[:3]))
        want = np.asarray(ref(np.random.RandomState(s1), n, *a))
        if not problems and not (want.shape == v1.shape and np.array_equal(want, v1)):
            problems.append("after np.random.seed(%d) returns %s, RandomState(%d) gives %s under the documented parameterisation" % (s1, v1.ravel()[:3], s1, want.ravel()[:3]))
        if problems:
            tags.append("sampler-not-reproducible:" + name)
            mism.append({"what": "sampler:%s:not-the-global-stream" % name, "detail": "%s(%d, %s) with seed left at its default: %s" % (name, n, a, "; ".join(problems))})
        else:
            tags.append("sampler-reproducible:" + name)
    return {"nontrivial": True, "mismatches": mism, "violations": [], "tags": tags,
            "sample": {"kind": "samplers", "entries": case["entries"], "seed": s1}}


# ----------------------------------------------------------------------------- SESSION: the shared session engine, judged by C16
def gen_session_case(r, budget, index=0):
    base = SC.gen_sim_case(r, max_x0=25)
    sib = SC.gen_sim_case(r, max_x0=25)
    if base is None:
        return None
    c = dict(base)
    c["kind"] = "session"
    c["sim"] = SC.sim_settings(r, base, r.choice(["exact", "tau_adaptive", "tau_fixed"]), steps=[15, 25, 40])
    c["sim"]["x0_form"] = r.choice(X0_FORMS)
    c["sim"]["t0_form"] = r.choice(T0_FORMS)
    c["session"] = SC.gen_session(r, base, c["sim"], grid_share=0.3, exact_share=0.6, runs=(2, 4), sibling_base=sib)
    runs = [i for i, o in enumerate(c["session"]) if o["op"] == "run"]
    for i in runs:
        if r.random() < 0.5:
            c["session"][i]["fresh_ref"] = True
    SC.add_flag_forms(r, c["session"], share=0.4)           # `exact` / `full_output` as 1 / 0 or numpy.bool_ in some calls
    c["max_steps"] = budget.get("max_steps", SC.MAX_STEPS)
    return c


def run_session_case(case):
    tags, mism, viol = ["session-case"], [], []
    state = {"accepted": 0}

    def judge(call, model):
        tr = call.tr
        tags.append("mode:" + call.sim["mode"])
        if tr.error is None and tr.result is not None:
            state["accepted"] = max([state["accepted"]] + [len(j["T"]) - 1 for j in tr.jumps])
        return tr.error is None

    side_mism = []
    calls = SC.run_session(case, judge, "C16", tags, side_mism, viol, max_steps=case.get("max_steps", SC.MAX_STEPS))
    # the engine's probes of the pure model stay what they are (tags + broken correspondence); "a repeated call / a fresh instance
    # reproduces a call under the same seed" is THIS property's statement: judged here, against the engine's own copies
    mism += side_mism
    by_index = {c.index: c for c in calls}
    for c in calls:
        if c.tr.result is None:
            continue
        mode = c.sim["mode"].split("_")[0]
        first = by_index.get(c.op.get("repeat_of")) if c.op.get("repeat_of") is not None else None
        if first is not None and first.tr.result is not None:
            ok = len(first.snap) == len(c.snap) and all(a.shape == b.shape and np.array_equal(a, b) for a, b in zip(first.snap, c.snap))
            if not ok:
                viol.append({"what": "a call repeated with the first call's configuration, initial values, horizon and seed returns other outputs",
                             "signature": "C16:solve_stochast:session:repeat-differs:%s" % mode,
                             "detail": "op %d vs op %d, seed %s, x0 handed over as %s then %s: %s vs %s" % (first.index, c.index, c.op["np_seed"], first.sim["x0_form"], c.sim["x0_form"],
                                                                                                 brief(first.snap[:2]), brief(c.snap[:2]))})
        fresh = getattr(c, "fresh_result", None)
        if fresh is not None:
            fl = [np.asarray(a) for a in SC._flatten_result(fresh)]
            ok = len(fl) == len(c.snap) and all(a.shape == b.shape and np.array_equal(a, b) for a, b in zip(fl, c.snap))
            if not ok:
                viol.append({"what": "a freshly built model with the same configuration, initial values, horizon and seed returns other outputs than the instance with a history",
                             "signature": "C16:solve_stochast:session:fresh-differs:%s" % mode,
                             "detail": "op %d, seed %s, x0 handed over as %s: %s vs fresh %s" % (c.index, c.op["np_seed"], c.sim["x0_form"], brief(c.snap[:2]), brief(fl[:2]))})
    return {"nontrivial": state["accepted"] >= 5 and len(calls) >= 2, "mismatches": mism, "violations": viol, "tags": tags,
            "sample": {"kind": "session", "spec": case["spec"], "x0": case["x0"], "params": case["params"], "sim": case["sim"], "session": case["session"]}}


def run_case(case):
    k = case["kind"]
    r = {"stoch": run_stoch, "param": run_param, "hist": run_hist, "session": run_session_case, "samplers": run_samplers, "mean": run_mean}[k](case)
    r["tags"] = sorted(set(r["tags"]))
    return r
