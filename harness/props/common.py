"""helpers shared by property modules"""
import math
from fractions import Fraction

from .. import exprs as E
from .. import gen, leanio, pymodel

mpf = E.mpf


def fl(env, names):
    return [float(env[n]) for n in names]


def lean_assemble(spec, derivs=False):
    return leanio.driver().call({"op": "assemble", "derivs": derivs, "model": spec})


def build_both(spec, backend="lambda", derivs=False):
    """returns (lean_response, model or None, python_error_enum or None, stage)"""
    lr = lean_assemble(spec, derivs)
    model, perr, stage = None, None, None
    try:
        model = pymodel.build(spec, backend=backend)
    except Exception as exc:
        perr, stage = pymodel.err_enum(exc), "build"
    if model is not None:
        try:
            model.get_ode_eqn()
            model.get_StateChangeMatrix()
            model.get_EventRateVector()
            model.get_pureOdeVector()
        except Exception as exc:
            perr, stage = pymodel.err_enum(exc), "assemble"
    return lr, model, perr, stage


def compare_errors(lr, perr, stage):
    """both sides must accept or reject alike (and name the same error class)"""
    out = []
    lerr = lr.get("err")
    if (lerr is None) != (perr is None):
        out.append({"what": "accept/reject", "detail": "lean=%s(%s) python=%s(%s)" % (lerr, lr.get("stage"), perr, stage)})
    elif lerr is not None and (lerr != perr or lr.get("stage") != stage):
        out.append({"what": "error-kind", "detail": "lean=%s(%s) python=%s(%s)" % (lerr, lr.get("stage"), perr, stage)})
    return out


def vec_close(a, b, rel=1e-9, abs_=1e-11):
    if len(a) != len(b):
        return False
    return all(abs(float(x) - float(y)) <= abs_ + rel * max(abs(float(x)), abs(float(y))) for x, y in zip(a, b))


def num_close(x, y, rel=1e-9, abs_=1e-11):
    return abs(float(x) - float(y)) <= abs_ + rel * max(abs(float(x)), abs(float(y)))


def sym_vs_lean(sym_entries, lean_entries, env, what, out, tags):
    """sympy entries (from pygom) against Lean expression entries at an exact point, 50 digits"""
    if len(sym_entries) != len(lean_entries):
        out.append({"what": what + ":shape", "detail": "python %d entries, lean %d" % (len(sym_entries), len(lean_entries))})
        return
    for idx, (s, l) in enumerate(zip(sym_entries, lean_entries)):
        try:
            lv = E.ev(l, env)
            sv = E.sympy_eval(s, env)
        except E.Undefined:
            tags.append("undefined_point")
            continue
        import sympy
        has_float = bool(sympy.sympify(s).atoms(sympy.Float))   # pygom re-evaluates str(derived eqn): 3/2 becomes 1.5
        if has_float:
            tags.append("python_expr_has_float")
        if has_float:
            # a double-precision literal (1e-3, 0.25; str(3/2) of a derived parameter) inside a sum that cancels: the error is
            # relative to the terms that are added up (exprs.ev_bound of the model's expression), not to the result
            try:
                bound = E.ev_bound(l, env)[1]
            except (E.Undefined, ZeroDivisionError):
                bound = abs(lv)
            ok_ = abs(lv - sv) <= mpf("1e-13") + mpf("1e-12") * max(abs(lv), abs(sv), bound)
        else:
            ok_ = E.close(lv, sv)
        if not ok_:
            out.append({"what": what, "detail": "entry %d: python=%s lean=%s at %s ; python expr %s" % (
                idx, mpf_s(sv), mpf_s(lv), {k: str(v) for k, v in env.items()}, str(s)[:300])})
            return


def mpf_s(x):
    import mpmath
    return mpmath.nstr(x, 20)


def net_oracle(meta, spec, env):
    """Lean-independent oracle: f_i = sum_events rate * net_i + explicit terms ; V ; a   (mpf values)"""
    denv = gen.derived_env(spec.get("derived", []), env)
    states = meta["states"]
    n = len(states)
    f = [mpf(0)] * n
    V = []
    a = []
    for p in meta["procs"]:
        r = E.ev(p["rate"], denv)
        col = [mpf(0)] * n
        for tr in p["transitions"]:
            m = E.ev(tr["mag"], denv)
            if tr["type"] in ("T", "D"):
                col[states.index(tr["origin"])] -= m
            if tr["type"] in ("T", "B"):
                col[states.index(tr["dest"])] += m
        V.append(col)
        a.append(r)
        for i in range(n):
            f[i] += r * col[i]
    pure = [mpf(0)] * n
    for o in meta["odes"]:
        pure[states.index(o["state"])] += E.ev(o["expr"], denv)
    f = [f[i] + pure[i] for i in range(n)]
    return f, V, a, pure


def net_oracle_bounds(meta, spec, env):
    """net_oracle together with a cancellation-aware scale for every entry (exprs.ev_bound): returns (f, V, a, pure) and
    (Bf, BV, Ba, Bpure) of the same shapes.  For points with very small / very large values (1e-9 .. 1e8): an entry is right
    when |got - expected| <= rel * bound, RELATIVE PER ENTRY - no absolute floor that would hide an entry of size 1e-9."""
    denv = gen.derived_env(spec.get("derived", []), env)
    # bounds of the derived parameters themselves (a derived value enters the expressions as a variable)
    dB = {}
    for name, e in spec.get("derived", []):
        v, b = E.ev_bound(e, dict(denv))
        dB[name] = (b / abs(v)) if v != 0 else mpf(1)
    infl = max([mpf(1)] + list(dB.values()))      # condition of the worst derived parameter, applied to every bound
    states = meta["states"]
    n = len(states)
    f = [mpf(0)] * n; Bf = [mpf(0)] * n
    V, a, BV, Ba = [], [], [], []
    for p in meta["procs"]:
        r, Br = E.ev_bound(p["rate"], denv)
        col = [mpf(0)] * n; bcol = [mpf(0)] * n
        for tr in p["transitions"]:
            m, Bm = E.ev_bound(tr["mag"], denv)
            if tr["type"] in ("T", "D"):
                k = states.index(tr["origin"]); col[k] -= m; bcol[k] += Bm
            if tr["type"] in ("T", "B"):
                k = states.index(tr["dest"]); col[k] += m; bcol[k] += Bm
        V.append(col); a.append(r); BV.append([b * infl for b in bcol]); Ba.append(Br * infl)
        for i in range(n):
            f[i] += r * col[i]; Bf[i] += Br * bcol[i]
    pure = [mpf(0)] * n; Bp = [mpf(0)] * n
    for o in meta["odes"]:
        v, b = E.ev_bound(o["expr"], denv)
        k = states.index(o["state"]); pure[k] += v; Bp[k] += b
    f = [f[i] + pure[i] for i in range(n)]
    Bf = [(Bf[i] + Bp[i]) * infl for i in range(n)]
    return (f, V, a, pure), (Bf, BV, Ba, [b * infl for b in Bp])


def printer_check(spec, env, mism, tags, who=""):
    """the natural-precedence printer (exprs.user_str, trusted base) against Python's own grammar: every string handed to
    pygom for this spec, read back with Python's parser and operator precedence (exprs.python_value), has the value of the
    tree it was printed from.  A failure is an error of the harness (reported as a mismatch), never a violation."""
    if not spec.get("syntax"):
        return
    import json
    denv = gen.derived_env(spec.get("derived", []), env)
    for tree, string in pymodel.spec_strings(spec):
        try:
            ok = E.close(E.python_value(string, denv), E.ev(tree, denv), rel=mpf("1e-13"), abs_=mpf("1e-25"))
        except E.Undefined:
            continue
        except Exception as exc:
            ok = False
            string = "%s (%s: %s)" % (string, type(exc).__name__, exc)
        if not ok:
            mism.append({"what": who + "harness_error:printer", "detail": "%r is not %s" % (string, json.dumps(tree))})
            return
    tags.append("printer_checked")


def wide_tags(spec, meta, wide, traps):
    """input-distribution tags of a case from the widened input space (gen_model(..., wide=...))"""
    tags = ["wide"] + gen.mag_tags(meta)
    sx = spec.get("syntax")
    if sx:
        tags += ["syntax:natural", "syntax:spaces=%s" % sx.get("spaces"), "syntax:num=%s" % sx.get("num")] + (["syntax:padded"] if sx.get("pad") else [])
    names = list(meta["states"]) + list(meta["params"]) + list(meta.get("derived", []))
    if wide.get("names"):
        tags.append("names:trap")
        tags += ["name:" + n_ for n_ in names if n_ in traps]
    if any(E.free_vars(d_[1]) & set(meta["states"]) for d_ in spec.get("derived", [])):
        tags.append("derived:contains-state")
    if wide.get("size"):
        tags.append("size:" + wide["size"])
    return tags


NAMED_TRAPS = {"i", "j", "k", "n", "e", "s", "r", "x", "y", "f", "S", "I", "E", "N", "Q", "O", "C", "pi", "exp", "log", "sin", "cos", "Max", "Min",
               "beta", "gamma", "zeta", "len", "sum", "abs", "int", "id", "np", "list", "map", "re", "im", "oo", "nan"}


def scaled_close(got, exp, bound, rel=1e-9, tiny=1e-290):
    """entry by entry: |got - exp| <= rel * bound (bound from exprs.ev_bound; `tiny` only guards the denormal range)"""
    if len(got) != len(exp):
        return False
    for g, e_, b in zip(got, exp, bound):
        g = float(g)
        if g != g or abs(mpf(g) - e_) > rel * b + tiny:
            return False
    return True


def multiset_close(got, exp, rel=1e-9, abs_=1e-9):
    """two lists of float vectors equal as multisets up to tolerance (greedy matching; sorting floats is not
    robust when two vectors agree to rounding in their leading entry)"""
    if len(got) != len(exp):
        return False
    used = [False] * len(got)
    for e in exp:
        for i, g in enumerate(got):
            if not used[i] and vec_close(g, e, rel=rel, abs_=abs_):
                used[i] = True
                break
        else:
            return False
    return True


# ---------------------------------------------------------------------------------------------------------
# Probes for effects that depend on HISTORY or on the FORM of the input rather than on its value
# (shared by C01, C03, C12).  The Lean `assemble` is a pure function of the definition and an evaluator of
# the model is a pure function of (definition, parameter values, x, t): whatever an earlier call, another
# live instance or the container type of an argument changes in the real code is therefore a departure from
# the model, and the direct oracles below (harness interpreter, 50 digits) decide whether the property fails.
# ---------------------------------------------------------------------------------------------------------

X_FORMS_FLOAT = ["list", "tuple", "ndarray"]
X_FORMS_INT = ["list_int", "tuple_int", "ndarray_int64", "ndarray_int32"]
T_FORMS_FLOAT = ["float", "np.float64"]
T_FORMS_INT = ["int", "np.int64"]
P_FORMS = ["list", "tuple", "ndarray", "dict_name", "pairs"]


def is_integral(env, names):
    return all(Fraction(env[n]).denominator == 1 for n in names)


def gen_forms(rng, points, states):
    """one (x form, t form, parameter form) per point; integer forms only where the point is integer valued"""
    out = []
    for k, p in enumerate(points):
        xi = is_integral(p, states)
        ti = Fraction(p["t"]).denominator == 1
        xf = rng.choice(X_FORMS_INT if (xi and rng.random() < 0.7) else X_FORMS_FLOAT)
        tf = rng.choice(T_FORMS_INT if (ti and rng.random() < 0.5) else T_FORMS_FLOAT)
        out.append({"x": xf, "t": tf, "p": rng.choice(P_FORMS)})
    return out


def as_x(env, names, form):
    import numpy as np
    if form.endswith(("_int", "_int64", "_int32")):
        vals = [int(Fraction(env[n])) for n in names]
    else:
        vals = [float(env[n]) for n in names]
    if form.startswith("list"):
        return list(vals)
    if form.startswith("tuple"):
        return tuple(vals)
    if form == "ndarray_int32":
        return np.array(vals, dtype=np.int32)
    if form == "ndarray_int64":
        return np.array(vals, dtype=np.int64)
    return np.array(vals, dtype=float)


def as_t(env, form):
    import numpy as np
    if form == "int":
        return int(Fraction(env["t"]))
    if form == "np.int64":
        return np.int64(int(Fraction(env["t"])))
    if form == "np.float64":
        return np.float64(float(env["t"]))
    return float(env["t"])


def as_params(env, names, form):
    import numpy as np
    vals = [float(env[n]) for n in names]
    if form == "tuple":
        return tuple(vals)
    if form == "ndarray":
        return np.array(vals, dtype=float)
    if form == "dict_name":
        return {n: v for n, v in zip(names, vals)}
    if form == "pairs":
        return [(n, v) for n, v in zip(names, vals)]
    return list(vals)


def freeze(obj):
    """a value that identifies container type, dtype and contents of an argument, to see that a call left it alone"""
    import numpy as np
    if isinstance(obj, np.ndarray):
        return ("ndarray", str(obj.dtype), obj.shape, obj.tobytes())
    if isinstance(obj, dict):
        return ("dict", tuple((k, repr(v)) for k, v in obj.items()))
    if isinstance(obj, (list, tuple)):
        return (type(obj).__name__, tuple(repr(v) for v in obj))
    return (type(obj).__name__, repr(obj))


class Kept(object):
    """Evaluator results kept exactly as returned (no copy) next to a private copy taken right after the call.
    Everything is judged twice: the copies immediately, the kept objects after ALL other calls were made
    (an evaluator that hands out an internal buffer passes the first and fails the second).  Only VALUES are judged by
    the callers: an argument that was written to, or a kept array rewritten with values that are still right, is a side
    effect outside the properties concerned and is tagged."""

    def __init__(self):
        self.rows = []          # dict(label, name, raw, snap)
        self.input_changed = []

    def call(self, model, name, x, t, label):
        import numpy as np
        fx, ft = freeze(x), freeze(t)
        raw = getattr(model, name)(x, t)
        snap = np.array(raw, dtype=float, copy=True)
        if freeze(x) != fx or freeze(t) != ft:
            self.input_changed.append((label, name))
        self.rows.append({"label": label, "name": name, "raw": raw, "snap": snap})
        return snap

    def changed(self):
        """(label, name, kept value, value at the time of the call) of every kept result that no longer equals its copy"""
        import numpy as np
        out = []
        for r in self.rows:
            now = np.asarray(r["raw"], dtype=float)
            if now.shape != r["snap"].shape or not np.array_equal(now, r["snap"], equal_nan=True):
                out.append((r["label"], r["name"], now, r["snap"]))
        return out

    def scribble(self):
        """the caller owns what it was given: overwrite every kept array (a later call must not be affected)"""
        import numpy as np
        n = 0
        for r in self.rows:
            a = r["raw"]
            if isinstance(a, np.ndarray) and a.flags.writeable and a.dtype.kind == "f":
                a[...] = np.nan
                n += 1
        return n


def _tr_effect(tj, states, denv, col):
    m = E.ev(tj["mag"], denv) if tj.get("mag") is not None else mpf(1)
    tt = tj["type"]
    if tt in ("T", "D"):
        col[states.index(tj["origin"])] -= m
    if tt == "T":
        col[states.index(tj["dest"])] += m
    if tt == "B":
        col[states.index(tj["dest"] if tj.get("dest") is not None else tj["origin"])] += m


def spec_oracle(spec, states, env, upto=None):
    """Lean-independent reference read off the API-level spec itself (constructor keywords, then the first
    `upto` incremental operations): f = sum rate*net + explicit terms, the (rate, column) pairs, the explicit
    part.  Used for the intermediate models of a staged construction; for a complete spec it must agree with
    `net_oracle` of the abstract process set (checked by the callers: a difference is a harness error)."""
    denv = gen.derived_env(spec.get("derived", []), env)
    n = len(states)
    pairs, pure = [], [mpf(0)] * n

    def event(ej):
        col = [mpf(0)] * n
        if ej.get("transition") is not None:
            tj = ej["transition"]
            rate = E.ev(tj["eq"], denv)
            _tr_effect(tj, states, denv, col)
        else:
            eqs = [t["eq"] for t in ej["transitions"] if t.get("eq") is not None]
            rate = E.ev(ej["rate"] if ej.get("rate") is not None else eqs[0], denv)
            for tj in ej["transitions"]:
                _tr_effect(tj, states, denv, col)
        pairs.append((rate, col))

    def legacy(tj):
        col = [mpf(0)] * n
        _tr_effect(tj, states, denv, col)
        pairs.append((E.ev(tj["eq"], denv), col))

    def ode(tj):
        pure[states.index(tj["origin"])] += E.ev(tj["eq"], denv)

    c = spec.get("ctor", {})
    for ej in c.get("event", []): event(ej)
    for tj in c.get("transition", []): legacy(tj)
    for tj in c.get("birth_death", []): legacy(tj)
    for tj in c.get("ode", []): ode(tj)
    ops = spec.get("then", [])
    for op in (ops if upto is None else ops[:upto]):
        k = op["op"]
        if k == "add_event": event(op)
        elif k in ("add_transition", "add_birth_death"): legacy(op["t"])
        elif k == "add_ode": ode(op["t"])
        else:
            raise ValueError("spec_oracle: operation %s is not a process" % k)
    f = list(pure)
    for r, col in pairs:
        for i in range(n):
            f[i] += r * col[i]
    return f, [col for _, col in pairs], [r for r, _ in pairs], pure


FD_H1 = mpf("1e-15")


def shift_env(env, name, h):
    e = dict(env)
    v = e[name]
    e[name] = (mpf(v.numerator) / mpf(v.denominator) if isinstance(v, Fraction) else mpf(v)) + h
    return e


def fd_jacobian(fun, env, names):
    """[i][j] = d fun_i / d names_j by central differences in 50-digit arithmetic (error ~1e-30 relative)"""
    cols = []
    for nme in names:
        a = fun(shift_env(env, nme, FD_H1)); b = fun(shift_env(env, nme, -FD_H1))
        cols.append([(x - y) / (2 * FD_H1) for x, y in zip(a, b)])
    return [[cols[j][i] for j in range(len(names))] for i in range(len(cols[0]) if cols else 0)]


BIG_FORMS = ["ndarray_int64", "ndarray_int64", "ndarray_int32", "tuple_npint64", "list_int"]


def dtype_probe(model, names, states, params, env, xform, who=""):
    """Populations of 1e4..1e6 handed to the evaluators `names` with an integer dtype and, the same point, as Python
    floats.  Absolute accuracy is not judged here (float64 cancellation at this scale is not a defect); the two answers
    for ONE point must agree, and only a gross difference (1e-3 relative, entry by entry, and 1e-9 of the largest
    entry) is reported: fixed-width integer wrap-around changes values by orders of magnitude.
    Returns (violations, tags); sets model.parameters to those of `env`."""
    import numpy as np
    viol, tags = [], []
    vals = [int(env[s_]) for s_ in states]
    xi = {"ndarray_int64": lambda: np.array(vals, dtype=np.int64), "ndarray_int32": lambda: np.array(vals, dtype=np.int32),
          "tuple_npint64": lambda: tuple(np.int64(v) for v in vals), "list_int": lambda: list(vals)}[xform]()
    xf = [float(v) for v in vals]
    t = float(env["t"])
    try:
        model.parameters = fl(env, params)
    except Exception:
        return viol, ["big:parameters-not-settable"]
    tags.append("big:" + xform)
    for name in names:
        try:
            ri = np.array(getattr(model, name)(xi, t), float); rf = np.array(getattr(model, name)(xf, t), float)
        except Exception as exc:
            viol.append({"what": who + "%s raised %s at populations of 1e4..1e6 (x as %s): %s" % (name, type(exc).__name__, xform, str(exc)[:150]),
                         "signature": "evaluator-raise:%s:big:%s" % (type(exc).__name__, xform), "detail": ""})
            return viol, tags
        if ri.shape != rf.shape or not (np.all(np.isfinite(ri)) and np.all(np.isfinite(rf))):
            tags.append("big:non-finite")
            continue
        top = max(float(np.max(np.abs(rf))) if rf.size else 0.0, float(np.max(np.abs(ri))) if ri.size else 0.0)
        bad = np.abs(ri - rf) > 1e-3 * np.maximum(np.abs(ri), np.abs(rf)) + 1e-9 * top
        if np.any(bad):
            viol.append({"what": who + "%s(x,t) gives different values for one point: x as %s against the same numbers as Python floats "
                                 "(fixed-width integer wrap-around inside the evaluator)" % (name, xform),
                         "signature": "integer-dtype-state:%s" % name, "evaluator": name,
                         "detail": "as %s: %s ; as floats: %s at %s" % (xform, ri.tolist(), rf.tolist(), {k: str(v) for k, v in env.items()})})
    return viol, tags
