"""helpers shared by property modules"""
import math
from fractions import Fraction

from .. import exprs as E
from .. import gen, leanio, pymodel

mpf = E.mpf


def fl(env, names):
    return [float(env[n]) for n in names]


def lean_assemble(spec, derivs=False):
    return leanio.driver().call({"op": "assemble", "derivs": derivs, "model": spec})


def build_both(spec, backend="lambda", derivs=False):
    """returns (lean_response, model or None, python_error_enum or None, stage)"""
    lr = lean_assemble(spec, derivs)
    model, perr, stage = None, None, None
    try:
        model = pymodel.build(spec, backend=backend)
    except Exception as exc:
        perr, stage = pymodel.err_enum(exc), "build"
    if model is not None:
        try:
            model.get_ode_eqn()
            model.get_StateChangeMatrix()
            model.get_EventRateVector()
            model.get_pureOdeVector()
        except Exception as exc:
            perr, stage = pymodel.err_enum(exc), "assemble"
    return lr, model, perr, stage


def compare_errors(lr, perr, stage):
    """both sides must accept or reject alike (and name the same error class)"""
    out = []
    lerr = lr.get("err")
    if (lerr is None) != (perr is None):
        out.append({"what": "accept/reject", "detail": "lean=%s(%s) python=%s(%s)" % (lerr, lr.get("stage"), perr, stage)})
    elif lerr is not None and (lerr != perr or lr.get("stage") != stage):
        out.append({"what": "error-kind", "detail": "lean=%s(%s) python=%s(%s)" % (lerr, lr.get("stage"), perr, stage)})
    return out


def vec_close(a, b, rel=1e-9, abs_=1e-11):
    if len(a) != len(b):
        return False
    return all(abs(float(x) - float(y)) <= abs_ + rel * max(abs(float(x)), abs(float(y))) for x, y in zip(a, b))


def num_close(x, y, rel=1e-9, abs_=1e-11):
    return abs(float(x) - float(y)) <= abs_ + rel * max(abs(float(x)), abs(float(y)))


def sym_vs_lean(sym_entries, lean_entries, env, what, out, tags):
    """sympy entries (from pygom) against Lean expression entries at an exact point, 50 digits"""
    if len(sym_entries) != len(lean_entries):
        out.append({"what": what + ":shape", "detail": "python %d entries, lean %d" % (len(sym_entries), len(lean_entries))})
        return
    for idx, (s, l) in enumerate(zip(sym_entries, lean_entries)):
        try:
            lv = E.ev(l, env)
            sv = E.sympy_eval(s, env)
        except E.Undefined:
            tags.append("undefined_point")
            continue
        import sympy
        has_float = bool(sympy.sympify(s).atoms(sympy.Float))   # pygom re-evaluates str(derived eqn): 3/2 becomes 1.5
        if has_float:
            tags.append("python_expr_has_float")
        if not (E.close(lv, sv, rel=mpf("1e-12"), abs_=mpf("1e-13")) if has_float else E.close(lv, sv)):
            out.append({"what": what, "detail": "entry %d: python=%s lean=%s at %s ; python expr %s" % (
                idx, mpf_s(sv), mpf_s(lv), {k: str(v) for k, v in env.items()}, str(s)[:300])})
            return


def mpf_s(x):
    import mpmath
    return mpmath.nstr(x, 20)


def net_oracle(meta, spec, env):
    """Lean-independent oracle: f_i = sum_events rate * net_i + explicit terms ; V ; a   (mpf values)"""
    denv = gen.derived_env(spec.get("derived", []), env)
    states = meta["states"]
    n = len(states)
    f = [mpf(0)] * n
    V = []
    a = []
    for p in meta["procs"]:
        r = E.ev(p["rate"], denv)
        col = [mpf(0)] * n
        for tr in p["transitions"]:
            m = E.ev(tr["mag"], denv)
            if tr["type"] in ("T", "D"):
                col[states.index(tr["origin"])] -= m
            if tr["type"] in ("T", "B"):
                col[states.index(tr["dest"])] += m
        V.append(col)
        a.append(r)
        for i in range(n):
            f[i] += r * col[i]
    pure = [mpf(0)] * n
    for o in meta["odes"]:
        pure[states.index(o["state"])] += E.ev(o["expr"], denv)
    f = [f[i] + pure[i] for i in range(n)]
    return f, V, a, pure


def multiset_close(got, exp, rel=1e-9, abs_=1e-9):
    """two lists of float vectors equal as multisets up to tolerance (greedy matching; sorting floats is not
    robust when two vectors agree to rounding in their leading entry)"""
    if len(got) != len(exp):
        return False
    used = [False] * len(got)
    for e in exp:
        for i, g in enumerate(got):
            if not used[i] and vec_close(g, e, rel=rel, abs_=abs_):
                used[i] = True
                break
        else:
            return False
    return True
