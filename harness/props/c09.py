"""
C09 - parameter values are bound to the parameters they were given for.

Per case: a random model (every declared parameter made to occur in the ODE) and a random history of
`model.parameters = ...` assignments in mixed formats (positional list / tuple / ndarray, pair lists in
any order, full and partial dicts keyed by name or by sympy Symbol) interleaved with malformed ones
(wrong lengths, unknown names, the time symbol, too many dict entries, unsupported values / types,
duplicate names).  After EACH assignment:

* correspondence with the Lean setter model (driver op `params`): accepted / rejected and error kind,
  the name -> value map of the public `parameters` getter against `abs`, and `ode(x,t)` against the
  model's `_paramValue` pushed through the harness interpreter (`_paramValue` itself and the dict key
  kinds are compared too, but only recorded);
* DIRECT ORACLE (no Lean): a plain Python dict spec written from the property text ("full assignment
  replaces every name, partial update overrides the names it mentions, a rejected assignment changes
  nothing; before any full assignment unmentioned names are 0") gives the value every name must have;
  `ode(x,t)` must equal the harness interpreter's sum rate*net at those values and `ode`, `grad` must
  equal those of a freshly built model assigned the same values positionally; inputs the property
  calls malformed must raise, accepted forms must not, and after a rejection evaluations must be
  exactly as before (or still unavailable when nothing was ever bound).
"""
import copy
import json
import math
import random
from fractions import Fraction

import numpy as np

from .. import exprs as E
from .. import gen, leanio, pymodel
from .common import mpf_s, net_oracle, vec_close

PROP = "C09"
LEAN = {"module": "Pygom.Props.C09", "extra_modules": ["Pygom.Lemmas.Params"],
        "required": ["Pygom.C09.binding_refines_spec", "Pygom.C09.history_binding", "Pygom.C09.history_binding_legacy_partial",
                     "Pygom.C09.permutation_invariance", "Pygom.C09.forms_agree", "Pygom.C09.rejects_unknown_and_bad_length",
                     "Pygom.C09.invalid_rejected", "Pygom.C09.rejected_leaves_state",
                     "Pygom.C09.partial_update_on_unset_binds_zero", "Pygom.C09.pairs_duplicate_keeps_last",
                     "Pygom.C09.pairs_unmentioned_binds_zero", "Pygom.C09.legacy_rejected_dict_leaks_counterexample",
                     "Pygom.C09.legacy_time_symbol_commits_counterexample", "Pygom.C09.history_binding_legacy_counterexample",
                     "Pygom.C09.copies_bind_by_name", "Pygom.C09.restore_preserves_abs", "Pygom.C09.setstate_rebuild_counterexample",
                     "Pygom.C09.early_exit_input_order_counterexample", "Pygom.C09.early_exit_close_values_counterexample",
                     "Pygom.Params.unrollPure_get", "Pygom.Params.lv_dset", "Pygom.Params.Inv_dset", "Pygom.Params.lv_foldl_dset"]}
BUDGET = {"quick": {"models": 900, "malformed": 600, "coincide": 300, "scale": 400, "max_ops": 8},
          "thorough": {"models": 12000, "malformed": 8000, "coincide": 4000, "scale": 6000, "max_ops": 20}}
RULE = ("random model definitions (shared generator, lambda back-end; an extra event is added for every parameter that would "
        "not occur in the ODE) x random histories of 1-8 (thorough 1-20) assignments: list/tuple/ndarray (1-d, column), "
        "permuted pair lists (str / ODEVariable names), full and partial dicts (str / sympy.Symbol keys, any order, any "
        "subset), all values distinct; a share of ops (15% in the regular stream, 45% in the malformed stream) is malformed: "
        "short/long list, tuple, array, (n,2) and (1,n) arrays, short/long pair list, unknown name, time symbol 't', Symbol "
        "names in a pair list, duplicate names, too many dict entries, unknown dict key first/middle/last, unsupported dict "
        "value, scalar, str, None, list of str.  Numbers are passed as Python float / int, numpy float64 / int64 / int32 "
        "scalars or mixed, arrays as float64 / int64 / int32 (integer types with integer values); 8% of the assignments repeat an earlier one "
        "(values restored after others were in force); after 30% of the accepted assignments the CALLER overwrites the container he passed; every container passed is compared with its snapshot "
        "after the call and again at the end of the history (a container written to is a recorded side effect - a tag -, never "
        "a violation: only wrong evaluations are).  In 35% of the cases the history also contains copy.deepcopy of "
        "a live instance at a random moment (at most 3 live instances; assignments then go to a random instance, 60% to "
        "the new copy), transient copy.copy / pickle round trips (evaluated once, then given other values and dropped); "
        "after EVERY operation EVERY live instance is evaluated (state passed as list / tuple / ndarray / list of numpy "
        "scalars, time as float / numpy float) and judged against its own name -> value map, and instances not addressed "
        "must evaluate exactly as before.  In half of the cases a second model built from the same definition (same names) "
        "is assigned other values and evaluated between every assignment and the evaluations.  300 further cases (thorough 4000) are "
        "VALUE COINCIDENCES on one instance: a full assignment (values distinct / partly repeated / partly 0 / all equal), then "
        "accepted assignments whose numbers coincide with the numbers held: names written in a non-declared order (rotation, "
        "swap, reversal, the order of the previous by-name assignment) with values that, read in the written order, are the held "
        "values in declared order (pairs, full dict, partial dict of the changed names); the held values permuted and given "
        "positionally; the identical map again in another form and order; one value for several names; zeros; partial dicts "
        "swapping the values of two or three names or re-assigning held values (tags coincide:*).  400 further cases (thorough 6000) are "
        "VALUE SCALES (tags stream:scale, scale-regime:tiny|huge|mixed|unit|headcount, scale:<update>): a model family in which every ODE "
        "component is one monomial +-p*y or +-p*q*y with y a power of two at the evaluation point (states 2^-20..2^30; every parameter has a "
        "linear term, most a bilinear one; entered through random API routes), a full assignment with values of 1e-13..1e-5 (tiny), "
        "1e5..1e13 (huge), O(1) (unit), a mix of these in one vector (mixed) or per-capita rates c/N next to O(1) rates (headcount), decimal or "
        "dyadic, 15% negative, now and then an exact 0; then accepted assignments in every form (list/tuple/ndarray carrying the held values of "
        "the rest, permuted pairs, full dict, partial dict of the changed names) that move 1..n names by a relative 1e-6 / 1e-9 / 1e-12, by 1 ulp "
        "up or down, by 1e-9 absolute, by a factor 2 or 1/2, to exactly 0, from 0, to the opposite sign, to a fresh value of the same or of "
        "another scale; malformed assignments, fresh full assignments and copy.deepcopy (history continuing on the copy) in between.  There the "
        "direct oracle is the closed form in plain float arithmetic on the values supplied by name, compared with == on every entry of ode and grad "
        "that is linear in the parameters (scaling by a power of two is exact) and to 1e-15 relative on the bilinear ode entries, and the 50-digit "
        "interpreter to 1e-12 relative per entry - no absolute floor anywhere; evaluations that must not change (rejected assignment, other "
        "instance) must return the same floats.  A case is non-trivial when the history contains an accepted permuted or partial assignment "
        "(scale cases: an accepted scaled update)")
ASSUMPTIONS = ["the setter variant (atomic or not: does a rejected assignment leave _parameters/_paramValue touched) is MEASURED on the "
               "tree under test by a fixed two-assignment probe through the public getter and ode(); the theorems cover both variants: "
               "history_binding needs the atomic one, for the other the *_counterexample theorems hold and the direct oracle reports the violation",
               "frozen-distribution and (callable, args) dict values are not modelled (C16)",
               "parameters declared as ODEVariable objects whose name differs from their ID are out of scope (declared by string here)",
               "evaluation comparisons of the regular / malformed / coincide streams: relative 1e-9 / absolute 1e-11 against a 50-digit reference "
               "(their values are 1/16..400 and the states 1/3..40, so results are 1e-3..1e7 or exactly 0: the absolute floor hides nothing there "
               "and the relative part carries the large ones); the value-scale stream has no absolute floor (exact / relative per entry, see RULE)",
               "value-scale stream: binary floating point with exact scaling by powers of two and correctly rounded products (IEEE 754 doubles, "
               "no flush-to-zero; products stay within 1e-40..1e40); negative values and 0 are accepted parameter values (the tree as found accepts them)",
               "copies: copy.deepcopy gives an independent instance that starts with its original's bindings (Params.restore false; "
               "Pygom.C09.copies_bind_by_name); copy.copy shares the bound evaluator methods with its original on the tree as found, "
               "so a shallow copy is only judged at the moment it is made (and that the original is not disturbed by what is done "
               "to it); pickling a model raises on the tree as found (closures): recorded as unsupported, judged like deepcopy if it ever works",
               "the caller re-using (overwriting) a container after passing it to the setter must not change the model: the tree as "
               "found copies the values out of every accepted container"]
TRUSTED = ["harness generator, AST printer (exprs.to_str) and interpreter (exprs.ev)", "Lean driver JSON codec",
           "the Python dict spec of the direct oracle (oracle_step, 40 lines)"]

_ATOMIC = None


# ----------------------------------------------------------------------------------------------
# generation
# ----------------------------------------------------------------------------------------------

def _vars(e, acc):
    if isinstance(e, list):
        if e and e[0] == "var":
            acc.add(e[1])
        for x in e[1:]:
            _vars(x, acc)
    return acc


def ensure_all_params_used(rng, spec, meta):
    """append one birth/death event per parameter that does not occur (directly) in a rate, magnitude or ODE term"""
    used = set()
    for p in meta["procs"]:
        _vars(p["rate"], used)
        for tr in p["transitions"]:
            _vars(tr["mag"], used)
    for o in meta["odes"]:
        _vars(o["expr"], used)
    for name in meta["params"]:
        if name in used:
            continue
        st = rng.choice(meta["states"])
        rate = E.mul(E.var(name), E.var(rng.choice(meta["states"])))
        if rng.random() < 0.5:
            tr = {"type": "D", "origin": st, "dest": None, "mag": E.num(1)}
        else:
            tr = {"type": "B", "origin": None, "dest": st, "mag": E.num(1)}
        meta["procs"].append({"rate": rate, "kind": "linear", "transitions": [tr]})
        meta["routes"].append("event")
        meta["kinds"].append("linear")
        spec["ctor"]["event"].append({"rate": rate, "transitions": [gen.transition_json(tr)]})


class Vals:
    """distinct values: no two (name, op) pairs of a case ever get the same number"""

    def __init__(self, rng):
        self.rng = rng
        self.used = set()

    def one(self):
        while True:
            den = self.rng.choice([1, 2, 4, 8, 16, 5, 7, 10])
            f = Fraction(self.rng.randint(1, 4 * den), den)
            if f not in self.used:
                self.used.add(f)
                return str(f)

    def many(self, n):
        return [self.one() for _ in range(n)]

    def one_int(self):
        while True:
            f = Fraction(self.rng.randint(1, 400))
            if f not in self.used:
                self.used.add(f)
                return str(f)

    def some(self, n, ints):
        return [self.one_int() if ints else self.one() for _ in range(n)]


def _key(rng, name, allow=("str", "sym")):
    return [rng.choice(allow), name]


NUM_ELTS = ["float", "float", "int", "np_float64", "np_int64", "np_int32", "mixed"]      # element type of list / tuple / pair / dict values
ARR_DTYPES = ["float64", "float64", "int64", "int32"]                                    # ndarray dtypes
INT_ELTS = ("int", "np_int64", "np_int32")


def gen_valid_op(rng, params, V):
    """an accepted input form.  "elt" / "dtype": element type of the numbers (Python float / int, numpy scalars, mixed;
    ndarray of float64 / int64 / int32 - integer types get integer values); "scribble": after the assignment the CALLER
    overwrites the container he passed (the model must have taken the values, not the container)"""
    n = len(params)
    kind = gen.wchoice(rng, [("nums", 3), ("arr", 2), ("pairs", 4), ("dict_full", 3), ("dict_partial", 6)])
    elt = rng.choice(NUM_ELTS)
    ints = elt in INT_ELTS
    scribble = rng.random() < 0.3
    if kind == "nums":
        return {"k": "nums", "seq": rng.choice(["list", "tuple"]), "vals": V.some(n, ints), "elt": elt, "scribble": scribble, "cls": "nums"}
    if kind == "arr":
        shape = rng.choice(["1d", "1d", "col"])
        dtype = rng.choice(ARR_DTYPES)
        return {"k": "arr", "shape": shape, "len": n, "flat": V.some(n, dtype != "float64"), "dtype": dtype, "scribble": scribble,
                "cls": "arr_" + shape}
    if kind == "pairs":
        names = list(params)
        rng.shuffle(names)
        ps = [[_key(rng, nm, ("str", "str", "str", "odevar")), V.some(1, ints)[0]] for nm in names]
        return {"k": "pairs", "seq": rng.choice(["list", "tuple"]), "ps": ps, "elt": elt, "scribble": scribble,
                "cls": "pairs_perm" if names != list(params) else "pairs_inorder"}
    if kind == "dict_full":
        names = list(params)
        rng.shuffle(names)
        return {"k": "dict", "es": [[_key(rng, nm), V.some(1, ints)[0]] for nm in names], "elt": elt, "scribble": scribble, "cls": "dict_full"}
    m = rng.randint(1, n) if rng.random() < 0.93 else 0
    names = rng.sample(list(params), m)
    return {"k": "dict", "es": [[_key(rng, nm), V.some(1, ints)[0]] for nm in names], "elt": elt, "scribble": scribble,
            "cls": "dict_partial" if m < n else "dict_full"}


MALFORMED_KINDS = ["nums_short", "nums_long", "arr_short", "arr_long", "arr_n2", "arr_row", "pairs_short", "pairs_long",
                   "pairs_unknown", "pairs_t", "pairs_symnames", "pairs_dup", "dict_toomany", "dict_unknown_first",
                   "dict_unknown_mid", "dict_unknown_last", "dict_t", "dict_badvalue", "dict_bothkinds", "scalar", "other",
                   "none", "seq_other", "empty_list"]
UNKNOWN_POOL = ["zz", "theta", "Beta", "q_0", "betta"]


def gen_malformed_op(rng, params, V, kind=None):
    n = len(params)
    kind = kind or rng.choice(MALFORMED_KINDS)
    unk = rng.choice([u for u in UNKNOWN_POOL if u not in params])
    shuffled = list(params)
    rng.shuffle(shuffled)
    if kind == "nums_short":
        return {"k": "nums", "seq": rng.choice(["list", "tuple"]), "vals": V.many(rng.randint(max(0, n - 2), n - 1)), "cls": kind}
    if kind == "nums_long":
        return {"k": "nums", "seq": rng.choice(["list", "tuple"]), "vals": V.many(n + rng.randint(1, 2)), "cls": kind}
    if kind == "arr_short":
        m = rng.randint(1, n - 1) if n > 1 else 2
        return {"k": "arr", "shape": "1d", "len": m, "flat": V.many(m), "cls": kind if m < n else "arr_long"}
    if kind == "arr_long":
        m = n + rng.randint(1, 2)
        return {"k": "arr", "shape": "1d", "len": m, "flat": V.many(m), "cls": kind}
    if kind == "arr_n2":
        return {"k": "arr", "shape": "n2", "len": n, "flat": V.many(2 * n), "cls": kind}
    if kind == "arr_row":
        return {"k": "arr", "shape": "row", "len": 1, "flat": V.many(n), "cls": kind}
    if kind == "pairs_short":
        m = rng.randint(1, n - 1) if n > 1 else 0
        if m == 0:
            return gen_malformed_op(rng, params, V, "pairs_long")
        return {"k": "pairs", "seq": "list", "ps": [[["str", nm], V.one()] for nm in shuffled[:m]], "cls": kind}
    if kind == "pairs_long":
        ps = [[["str", nm], V.one()] for nm in shuffled] + [[["str", rng.choice([unk, shuffled[0]])], V.one()]]
        return {"k": "pairs", "seq": "list", "ps": ps, "cls": kind}
    if kind in ("pairs_unknown", "pairs_t"):
        ps = [[["str", nm], V.one()] for nm in shuffled]
        ps[rng.randrange(n)][0] = ["str", unk if kind == "pairs_unknown" else "t"]
        return {"k": "pairs", "seq": rng.choice(["list", "tuple"]), "ps": ps, "cls": kind}
    if kind == "pairs_symnames":
        ps = [[["sym", nm], V.one()] for nm in shuffled]
        return {"k": "pairs", "seq": "list", "ps": ps, "cls": kind}
    if kind == "pairs_dup":
        if n < 2:
            return gen_malformed_op(rng, params, V, "pairs_unknown")
        ps = [[["str", nm], V.one()] for nm in shuffled]
        i, j = rng.sample(range(n), 2)
        ps[i][0] = ["str", ps[j][0][1]]
        return {"k": "pairs", "seq": "list", "ps": ps, "cls": kind}
    if kind == "dict_toomany":
        es = [[_key(rng, nm), V.one()] for nm in shuffled]
        extra = [["str", unk], V.one()] if rng.random() < 0.6 else [["sym" if es[0][0][0] == "str" else "str", es[0][0][1]], V.one()]
        es.insert(rng.randint(0, n), extra)
        return {"k": "dict", "es": es, "cls": kind}
    if kind in ("dict_unknown_first", "dict_unknown_mid", "dict_unknown_last", "dict_t", "dict_badvalue"):
        m = rng.randint(0, n - 1)
        es = [[_key(rng, nm), V.one()] for nm in shuffled[:m]]
        bad = [["str", "t"], V.one()] if kind == "dict_t" else ([_key(rng, shuffled[m]), None] if kind == "dict_badvalue" else [_key(rng, unk), V.one()])
        pos = {"dict_unknown_first": 0, "dict_unknown_last": m}.get(kind, rng.randint(0, m))
        es.insert(pos, bad)
        return {"k": "dict", "es": es, "cls": kind}
    if kind == "dict_bothkinds":
        if n < 2:
            return gen_malformed_op(rng, params, V, "dict_unknown_last")
        nm = shuffled[0]
        es = [[["str", nm], V.one()], [["sym", nm], V.one()]]
        rng.shuffle(es)
        return {"k": "dict", "es": es, "cls": kind}
    if kind == "scalar":
        return {"k": "scalar", "v": V.one(), "cls": kind}
    if kind == "other":
        return {"k": "other", "cls": kind}
    if kind == "none":
        return {"k": "none", "cls": kind}
    if kind == "seq_other":
        return {"k": "seq_other", "seq": rng.choice(["list", "tuple"]), "len": rng.choice([n, n, n - 1, n + 1]), "cls": kind}
    if kind == "empty_list":
        return {"k": "nums", "seq": "list", "vals": [], "cls": kind}
    raise ValueError(kind)


EVAL_FORMS = ["list_float", "tuple_float", "nd_float", "list_npfloat"]
EVAL_TFORMS = ["float", "np_float"]
MAX_INSTANCES = 3


def gen_case(rng, budget, malformed, copies=None):
    """history of operations on a small SYSTEM of live instances: instance 0 is the model built from the spec;
    {"k":"clone","how":"deepcopy","src":i} appends copy.deepcopy(instance i) (at most MAX_INSTANCES); every assignment
    carries "inst" (the instance it is addressed to); {"k":"probe_copy","how":"copy"|"pickle","src":i,"decoy":[q..]} makes a
    transient shallow copy / pickle round trip of instance i, evaluates it, assigns the decoy values to it and drops it.
    After every operation every live instance is evaluated."""
    spec, meta = gen.gen_model(rng, allow_range=True)
    ensure_all_params_used(rng, spec, meta)
    params = meta["params"]
    V = Vals(rng)
    nops = rng.randint(1, budget["max_ops"])
    p_bad = 0.45 if malformed else 0.15
    copies = (rng.random() < 0.35) if copies is None else copies
    p_copy = 0.22 if copies else 0.0
    hist = []
    ninst = 1
    subject = 0
    for _ in range(nops):
        u = rng.random()
        if u < p_copy:
            how = gen.wchoice(rng, [("deepcopy", 6), ("copy", 2), ("pickle", 1)])
            src = rng.randrange(ninst)
            if how == "deepcopy" and ninst < MAX_INSTANCES:
                hist.append({"k": "clone", "how": "deepcopy", "src": src, "cls": "clone_deepcopy"})
                ninst += 1
                if rng.random() < 0.6:
                    subject = ninst - 1          # evaluation and assignment continue on the COPY
                continue
            if how != "deepcopy":
                hist.append({"k": "probe_copy", "how": how, "src": src, "decoy": V.many(len(params)), "cls": "probe_" + how})
                continue
        if ninst > 1 and rng.random() < 0.35:
            subject = rng.randrange(ninst)
        earlier = [o for o in hist if o["k"] in ("nums", "arr", "pairs", "dict") and (o.get("elt") or o.get("dtype"))]
        if earlier and rng.random() < 0.08:
            # RESTORE: an earlier accepted form again, same values (after other values were in force in between)
            op = copy.deepcopy(rng.choice(earlier))
            op["scribble"] = False
        else:
            op = gen_malformed_op(rng, params, V) if rng.random() < p_bad else gen_valid_op(rng, params, V)
        op["inst"] = subject
        hist.append(op)
    pt = gen.rand_point(rng, meta)
    return {"spec": spec, "meta": meta, "history": hist, "malformed": malformed,
            "point": {k: str(v) for k, v in pt.items() if k in meta["states"] or k == "t"},
            # a SECOND model with the same names gets other values and is evaluated between every assignment and the evaluation
            "decoy": rng.random() < 0.5,
            "xforms": [[rng.choice(EVAL_FORMS), rng.choice(EVAL_TFORMS)] for _ in range(len(hist) + 1)]}


# ---- value coincidences -------------------------------------------------------------------------------------
# The regular stream draws a fresh number for every (name, assignment), so an assignment never "looks like" the values
# already held.  These cases make it do so on purpose: the name -> value binding of the property is about NAMES, whatever
# the numbers happen to be.  (In Params.lean the setter unrolls by name unconditionally - `binding_refines_spec` holds for
# every value; `early_exit_input_order_counterexample` shows what a "nothing changed" test on the values in INPUT order
# would do.)
COINCIDE_KINDS = [("perm_input_order", 5), ("multiset_positional", 3), ("same_map_other_format", 3), ("repeat_values", 2),
                  ("zeros", 2), ("partial_swap", 3), ("partial_same", 1)]


def _perm(rng, n):
    """a non-identity permutation of range(n): rotation, swap of two, reversal, random"""
    if n < 2:
        return list(range(n))
    for _ in range(20):
        how = rng.choice(["rotate", "swap", "reverse", "random"])
        idx = list(range(n))
        if how == "rotate":
            k = rng.randint(1, n - 1)
            idx = idx[k:] + idx[:k]
        elif how == "swap":
            i, j = rng.sample(range(n), 2)
            idx[i], idx[j] = idx[j], idx[i]
        elif how == "reverse":
            idx.reverse()
        else:
            rng.shuffle(idx)
        if idx != list(range(n)):
            return idx
    return list(range(n))[::-1]


def _by_name_op(rng, names, values, elt, full, n):
    """the map names[i] -> values[i], WRITTEN in the order of `names`, as a pair list or a dict"""
    if full and rng.random() < 0.55:
        return {"k": "pairs", "seq": rng.choice(["list", "tuple"]), "elt": elt, "scribble": False,
                "ps": [[_key(rng, nm, ("str", "str", "str", "odevar")), v] for nm, v in zip(names, values)], "cls": "pairs_perm"}
    kinds = rng.choice([("str",), ("sym",), ("str", "sym")])
    return {"k": "dict", "elt": elt, "scribble": False, "es": [[_key(rng, nm, kinds), v] for nm, v in zip(names, values)],
            "cls": "dict_full" if len(names) == n else "dict_partial"}


def gen_base_op(rng, params, V):
    """a full assignment whose values are distinct / partly repeated / partly zero / all equal"""
    n = len(params)
    style = gen.wchoice(rng, [("distinct", 4), ("repeat", 2), ("zeros", 2), ("all_equal", 1)])
    vals = V.many(n)
    if style == "repeat" and n >= 2:
        i, j = rng.sample(range(n), 2)
        vals[j] = vals[i]
    elif style == "zeros":
        for i in rng.sample(range(n), rng.randint(1, n)):
            vals[i] = "0"
    elif style == "all_equal":
        vals = [vals[0]] * n
    elt = rng.choice(["float", "float", "np_float64", "mixed"])
    form = rng.choice(["nums", "arr", "byname", "byname"])
    if form == "nums":
        op = {"k": "nums", "seq": rng.choice(["list", "tuple"]), "vals": vals, "elt": elt, "scribble": False, "cls": "nums"}
    elif form == "arr":
        op = {"k": "arr", "shape": "1d", "len": n, "flat": vals, "dtype": "float64", "scribble": False, "cls": "arr_1d"}
    else:
        order = list(range(n))
        if rng.random() < 0.7:
            order = _perm(rng, n)
        op = _by_name_op(rng, [params[i] for i in order], [vals[i] for i in order], elt, True, n)
        if op["k"] == "pairs" and order == list(range(n)):
            op["cls"] = "pairs_inorder"
    op["coin"] = "base:" + style
    return op


def gen_coincide_op(rng, params, cur, order, V):
    """an ACCEPTED assignment whose numbers coincide with the numbers the model holds (`cur`: name -> value as the
    property's spec gives it; `order`: the order in which the last full by-name assignment was written)"""
    n = len(params)
    held = [str(cur[p]) for p in params]                   # the held values in DECLARED order
    kind = gen.wchoice(rng, COINCIDE_KINDS)
    elt = rng.choice(["float", "float", "np_float64", "mixed"])
    if n < 2 and kind in ("perm_input_order", "multiset_positional", "partial_swap", "repeat_values"):
        kind = rng.choice(["same_map_other_format", "zeros"])
    if kind == "perm_input_order":
        # written in a non-declared order; the values READ IN THE WRITTEN ORDER are the held values in declared order
        sigma = [params.index(nm) for nm in order] if (order != list(params) and rng.random() < 0.5) else _perm(rng, n)
        names = [params[i] for i in sigma]
        full = rng.random() < 0.7
        if full:
            op = _by_name_op(rng, names, held, elt, True, n)
        else:
            # the same map as a partial dict: only the names whose value changes
            ch = [(nm, v) for nm, v in zip(names, held) if Fraction(v) != cur[nm]] or list(zip(names, held))[:1]
            op = _by_name_op(rng, [a for a, _ in ch], [b for _, b in ch], elt, False, n)
    elif kind == "multiset_positional":
        # the held values, permuted, given positionally (or by name in declared order): same multiset, other binding
        sigma = _perm(rng, n)
        vals = [held[i] for i in sigma]
        if rng.random() < 0.6:
            op = ({"k": "nums", "seq": rng.choice(["list", "tuple"]), "vals": vals, "elt": elt, "scribble": False, "cls": "nums"}
                  if rng.random() < 0.6 else
                  {"k": "arr", "shape": "1d", "len": n, "flat": vals, "dtype": "float64", "scribble": False, "cls": "arr_1d"})
        else:
            op = _by_name_op(rng, list(params), vals, elt, True, n)
            if op["k"] == "pairs":
                op["cls"] = "pairs_inorder"
    elif kind == "same_map_other_format":
        # the identical name -> value map again, in another form / order: nothing may change
        form = rng.choice(["nums", "arr", "byname", "byname"])
        if form == "nums":
            op = {"k": "nums", "seq": rng.choice(["list", "tuple"]), "vals": held, "elt": elt, "scribble": False, "cls": "nums"}
        elif form == "arr":
            op = {"k": "arr", "shape": "1d", "len": n, "flat": held, "dtype": "float64", "scribble": False, "cls": "arr_1d"}
        else:
            sigma = _perm(rng, n)
            op = _by_name_op(rng, [params[i] for i in sigma], [held[i] for i in sigma], elt, True, n)
    elif kind == "repeat_values":
        # one held value given to several names (by name, any order)
        v = rng.choice(held)
        sigma = _perm(rng, n)
        k = rng.randint(2, n)
        names = [params[i] for i in sigma]
        vals = [v if i < k else held[sigma[i]] for i in range(n)]
        op = _by_name_op(rng, names, vals, elt, True, n)
    elif kind == "zeros":
        m = rng.randint(1, n)
        names = rng.sample(list(params), m)
        if rng.random() < 0.5:
            op = _by_name_op(rng, names, ["0"] * m, elt, False, n)
        else:
            vals = ["0" if p in names else str(cur[p]) for p in params]
            sigma = _perm(rng, n) if n >= 2 else [0]
            op = _by_name_op(rng, [params[i] for i in sigma], [vals[i] for i in sigma], elt, True, n)
    elif kind == "partial_swap":
        # a partial dict that gives some names the values OTHER names hold (a swap or a 3-cycle)
        k = rng.randint(2, min(3, n))
        names = rng.sample(list(params), k)
        vals = [str(cur[nm]) for nm in names[1:] + names[:1]]
        op = _by_name_op(rng, names, vals, elt, False, n)
    else:
        m = rng.randint(1, n)
        names = rng.sample(list(params), m)
        op = _by_name_op(rng, names, [str(cur[nm]) for nm in names], elt, False, n)
    op["coin"] = kind
    return op


def gen_coincide_case(rng, budget):
    """one instance; a full assignment, then assignments whose numbers coincide with the held ones (permutations,
    repeats, zeros, the same map in another form), now and then a fresh full assignment or a malformed one in between"""
    for _ in range(6):
        spec, meta = gen.gen_model(rng, allow_range=True)
        if len(meta["params"]) >= 2:
            break
    ensure_all_params_used(rng, spec, meta)
    params = meta["params"]
    V = Vals(rng)
    hist, cur, order = [], None, list(params)
    nops = rng.randint(2, max(2, min(budget["max_ops"], 7)))
    for _ in range(nops):
        u = rng.random()
        if cur is None or u < 0.15:
            op = gen_base_op(rng, params, V)
        elif u < 0.22:
            op = gen_malformed_op(rng, params, V)
        else:
            op = gen_coincide_op(rng, params, cur, order, V)
        op["inst"] = 0
        verdict, new = oracle_step(params, cur, op)          # the generator follows the property's own spec
        if verdict == "accept":
            cur = new
            if op["k"] == "pairs" or (op["k"] == "dict" and len(op["es"]) == len(params)):
                order = [r[1] for r, _ in (op["ps"] if op["k"] == "pairs" else op["es"])]
            elif op["k"] in ("nums", "arr"):
                order = list(params)
        elif verdict == "either":
            cur = None if (new is None or any(v is None for v in new.values())) else new
        hist.append(op)
    pt = gen.rand_point(rng, meta)
    return {"spec": spec, "meta": meta, "history": hist, "malformed": False, "coincide": True,
            "point": {k: str(v) for k, v in pt.items() if k in meta["states"] or k == "t"},
            "decoy": rng.random() < 0.3,
            "xforms": [[rng.choice(EVAL_FORMS), rng.choice(EVAL_TFORMS)] for _ in range(len(hist) + 1)]}


# ---- value scales ---------------------------------------------------------------------------------------------
# The streams above use O(1) values that change by O(1).  The binding of the property is about NAMES whatever the size of
# the numbers and whatever the size of the change: a model in absolute head counts has per-capita rates of 1e-9, an
# optimiser near convergence moves a parameter by 1 part in 1e9, a finite-difference step by 1 ulp.  (In Params.lean the
# values are rationals and the setter never compares them: `binding_refines_spec` holds for every value, so a setter that
# drops an assignment because the new numbers are "close to" the held ones departs from the model - and the direct oracle
# below decides that the property fails.)
#
# So that EVERY such difference is visible in ode/grad and the expected value needs no tolerance, these cases use their own
# model family: every ODE component is ONE monomial, sign * p_k * y (or sign * p_k * p_l * y), y a state whose value at the
# evaluation point is a power of two.  Then  ode[s] = +-float(p_k)*y  EXACTLY in binary floating point (scaling by a power
# of two is exact; for the bilinear terms the one rounding of p_k*p_l commutes with it), d ode[s]/d p_k = +-y exactly and
# d(p_k*p_l*y)/d p_k = +-float(p_l)*y exactly: the oracle compares with == on the linear terms and to 4 ulp on the bilinear
# ones.  Every parameter has a linear term (so a change of 1 ulp in any parameter is seen by ode), most have a bilinear one
# (so grad sees the values too).
SCALE_REGIMES = [("tiny", 3), ("huge", 2), ("mixed", 4), ("unit", 2), ("headcount", 2)]
SCALE_UPDATES = [("rel1e-6", 3), ("rel1e-9", 2), ("rel1e-12", 1), ("ulp_up", 2), ("ulp_down", 1), ("double", 2), ("half", 1),
                 ("to_zero", 3), ("sign_flip", 2), ("abs1e-9", 2), ("fresh", 2), ("cross", 1)]


def _fs(f):
    f = Fraction(f)
    return str(f.numerator) if f.denominator == 1 else "%d/%d" % (f.numerator, f.denominator)


def scaled_value(rng, cls):
    """an exact rational of the size class `cls`: unit O(1); tiny 1e-13..1e-5; huge 1e5..1e13 (decimal or dyadic); 15% negative"""
    if cls == "unit":
        v = Fraction(rng.randint(1, 40), rng.choice([1, 2, 4, 5, 8, 10]))
    elif rng.random() < 0.5:
        v = Fraction(rng.randint(1, 99), 10) * Fraction(10) ** rng.randint(6, 12)
        v = v if cls == "huge" else Fraction(rng.randint(1, 99), 10) / Fraction(10) ** rng.randint(6, 12)
    else:
        m, k = rng.choice([1, 3, 5, 7, 11, 13]), rng.randint(20, 40)
        v = Fraction(m * 2 ** k) if cls == "huge" else Fraction(m, 2 ** k)
    return -v if rng.random() < 0.15 else v


def scale_update(rng, kind, v, cls):
    """the new value of a parameter holding v (exact rationals; the float the model receives is float(new))"""
    v = Fraction(v)
    if v == 0:
        return scaled_value(rng, cls)
    if kind.startswith("rel1e-"):
        return v * (1 + Fraction(rng.choice([1, -1, 3]), 10 ** int(kind[6:])))
    if kind in ("ulp_up", "ulp_down"):
        return Fraction(math.nextafter(float(v), math.inf if kind == "ulp_up" else -math.inf))
    if kind == "double":
        return 2 * v
    if kind == "half":
        return v / 2
    if kind == "to_zero":
        return Fraction(0)
    if kind == "sign_flip":
        return -v
    if kind == "abs1e-9":
        return v + Fraction(rng.choice([1, -1, 5]), 10 ** 9)
    if kind == "cross":
        return scaled_value(rng, rng.choice([c for c in ("tiny", "huge", "unit") if c != cls]))
    return scaled_value(rng, cls)


def gen_scale_model(rng):
    """-> (spec, meta, terms, point): every ODE component is one monomial (see above); entered through random API routes"""
    n = rng.randint(1, 5)
    params = rng.sample(gen.PARAM_POOL, n)
    names = rng.sample(gen.STATE_POOL, len(gen.STATE_POOL))
    states, procs, odes, terms = [], [], [], []
    drivers = [names.pop() for _ in range(rng.randint(1, 2))]

    def add_term(k, co):
        form = gen.wchoice(rng, [("B", 3), ("D", 3), ("T", 2), ("ode", 2)])
        if form == "T" and len(names) < 2:
            form = "D"
        own = names.pop()
        states.append(own)
        y = own if form in ("D", "T") and rng.random() < 0.7 else rng.choice(drivers + [own])
        rate = E.mul(E.var(params[k]), E.var(y))
        if co is not None:
            rate = E.mul(E.mul(E.var(params[k]), E.var(params[co])), E.var(y)) if rng.random() < 0.5 else E.mul(rate, E.var(params[co]))
        if form == "ode":
            sign = rng.choice([1, -1])
            odes.append({"state": own, "expr": rate if sign == 1 else E.neg(rate)})
            targets = [[own, sign]]
        elif form == "B":
            procs.append({"rate": rate, "kind": "linear", "transitions": [{"type": "B", "origin": None, "dest": own, "mag": E.num(1)}]})
            targets = [[own, 1]]
        elif form == "D":
            procs.append({"rate": rate, "kind": "linear", "transitions": [{"type": "D", "origin": own, "dest": None, "mag": E.num(1)}]})
            targets = [[own, -1]]
        else:
            dest = names.pop()
            states.append(dest)
            procs.append({"rate": rate, "kind": "linear", "transitions": [{"type": "T", "origin": own, "dest": dest, "mag": E.num(1)}]})
            targets = [[own, -1], [dest, 1]]
        terms.append({"p": params[k], "co": (params[co] if co is not None else None), "y": y, "targets": targets})

    for k in range(n):
        add_term(k, None)
    if n >= 2:
        for k in range(n):
            if len(names) >= 2 and rng.random() < 0.7:
                add_term(k, rng.choice([j for j in range(n) if j != k]))
    states += drivers
    rng.shuffle(states)
    abstract = {"decl_states": list(states), "states": list(states), "params": params, "derived": [], "procs": procs, "odes": odes, "lims": None}
    spec, meta = gen.make_spec(rng, abstract, gen.ALL_ROUTES, shuffle=True)
    point = {s: _fs(Fraction(2) ** rng.randint(-20, 30)) for s in states}
    point["t"] = _fs(Fraction(rng.randint(0, 36), 12))
    return spec, meta, terms, point


def _scale_form_op(rng, params, new, changed, elt):
    """the assignment `changed names -> new values` in a random accepted form (full forms carry the held values of the rest)"""
    n = len(params)
    form = gen.wchoice(rng, [("nums", 3), ("arr", 2), ("pairs", 3), ("dict_full", 2), ("dict_partial", 6)])
    vals = [_fs(new[p]) for p in params]
    if form == "nums":
        return {"k": "nums", "seq": rng.choice(["list", "tuple"]), "vals": vals, "elt": elt, "scribble": rng.random() < 0.2, "cls": "nums"}
    if form == "arr":
        return {"k": "arr", "shape": "1d", "len": n, "flat": vals, "dtype": "float64", "scribble": rng.random() < 0.2, "cls": "arr_1d"}
    if form in ("pairs", "dict_full"):
        order = list(range(n))
        rng.shuffle(order)
        if form == "pairs":
            return {"k": "pairs", "seq": rng.choice(["list", "tuple"]), "elt": elt, "scribble": False,
                    "ps": [[_key(rng, params[i], ("str", "str", "str", "odevar")), vals[i]] for i in order],
                    "cls": "pairs_perm" if order != list(range(n)) else "pairs_inorder"}
        kinds = rng.choice([("str",), ("sym",), ("str", "sym")])
        return {"k": "dict", "elt": elt, "scribble": False, "es": [[_key(rng, params[i], kinds), vals[i]] for i in order], "cls": "dict_full"}
    names = list(changed)
    rest = [p for p in params if p not in changed]
    if rest and rng.random() < 0.25:
        names.append(rng.choice(rest))                    # ... and a name that keeps its value
    rng.shuffle(names)
    return _by_name_op(rng, names, [_fs(new[p]) for p in names], elt, False, n)


def gen_scale_case(rng, budget):
    """one model of the monomial family; a full assignment at the regime's value scales, then accepted assignments that
    change some names by a tiny relative amount / 1 ulp / a factor / to or from exactly 0 / in sign / by 1e-9 absolute,
    now and then a malformed one, a fresh full assignment or a copy.deepcopy with the history continuing on the copy"""
    spec, meta, terms, point = gen_scale_model(rng)
    params = meta["params"]
    n = len(params)
    regime = gen.wchoice(rng, SCALE_REGIMES)
    if regime == "mixed":
        classes = [rng.choice(["tiny", "huge", "unit"]) for _ in params]
    elif regime == "headcount":
        # per-capita contact rates c/N next to O(0.1..1) rates per day (the SIR in absolute numbers)
        classes = [("tiny" if (i == 0 or rng.random() < 0.4) else "unit") for i in range(n)]
    else:
        classes = [regime] * n
    cls_of = dict(zip(params, classes))
    hist, cur = [], None
    nops = rng.randint(2, max(2, min(budget["max_ops"], 7)))
    ninst, subject = 1, 0
    curs = [None]
    for _ in range(nops):
        u = rng.random()
        elt = rng.choice(["float", "float", "np_float64", "mixed"])
        cur = curs[subject]
        if cur is not None and u < 0.07 and ninst < MAX_INSTANCES:
            hist.append({"k": "clone", "how": "deepcopy", "src": subject, "cls": "clone_deepcopy"})
            curs.append(dict(cur))
            ninst += 1
            if rng.random() < 0.6:
                subject = ninst - 1
            continue
        if cur is None or u < 0.15:
            new = {p: scaled_value(rng, cls_of[p]) for p in params}
            if cur is None and rng.random() < 0.15:
                new[rng.choice(params)] = Fraction(0)
            op = _scale_form_op(rng, params, new, list(params), elt)
            op["scl"] = ["base"]
        elif u < 0.23:
            op = gen_malformed_op(rng, params, Vals(rng))
        else:
            m = rng.randint(1, n) if rng.random() < 0.6 else 1
            changed = rng.sample(list(params), m)
            new, kinds = dict(cur), []
            same_kind = gen.wchoice(rng, SCALE_UPDATES) if rng.random() < 0.5 else None
            for p in changed:
                kind = same_kind or gen.wchoice(rng, SCALE_UPDATES)
                if cur[p] is None:
                    kind = "fresh"
                    new[p] = scaled_value(rng, cls_of[p])
                else:
                    kind = "from_zero" if cur[p] == 0 else kind
                    new[p] = scale_update(rng, kind, cur[p], cls_of[p])
                kinds.append(kind)
            if any(v is None for v in new.values()):
                new = {p: (scaled_value(rng, cls_of[p]) if v is None else v) for p, v in new.items()}
                changed = list(params)
                op = _scale_form_op(rng, params, new, changed, elt)
                while op["k"] == "dict" and len(op["es"]) < n:
                    op = _scale_form_op(rng, params, new, changed, elt)
            else:
                op = _scale_form_op(rng, params, new, changed, elt)
            op["scl"] = sorted(set(kinds))
        op["inst"] = subject
        verdict, new = oracle_step(params, cur, op)              # the generator follows the property's own spec
        if verdict == "accept":
            curs[subject] = new
        elif verdict == "either":
            curs[subject] = None if new is None else dict(new)
        hist.append(op)
    return {"spec": spec, "meta": meta, "history": hist, "malformed": False, "scale": {"regime": regime, "classes": classes, "terms": terms},
            "point": point, "decoy": rng.random() < 0.3,
            "xforms": [[rng.choice(EVAL_FORMS), rng.choice(EVAL_TFORMS)] for _ in range(len(hist) + 1)]}


def make_cases(rng, tier, budget):
    cases = []
    for i in range(budget["models"]):
        cases.append(gen_case(random.Random(rng.getrandbits(64)), budget, False))
    for i in range(budget["malformed"]):
        cases.append(gen_case(random.Random(rng.getrandbits(64)), budget, True))
    for i in range(budget.get("coincide", 0)):
        cases.append(gen_coincide_case(random.Random(rng.getrandbits(64)), budget))
    for i in range(budget.get("scale", 0)):
        cases.append(gen_scale_case(random.Random(rng.getrandbits(64)), budget))
    return cases


def search_cases(rng, tier, budget):
    out = [gen_case(random.Random(rng.getrandbits(64)), budget, i % 2 == 0, copies=(i % 3 != 2))
           for i in range(3 * (budget["models"] + budget["malformed"]))]
    out += [gen_coincide_case(random.Random(rng.getrandbits(64)), budget) for _ in range(3 * budget.get("coincide", 0))]
    return out + [gen_scale_case(random.Random(rng.getrandbits(64)), budget) for _ in range(3 * budget.get("scale", 0))]


# ----------------------------------------------------------------------------------------------
# rendering an op for the real code / for Lean
# ----------------------------------------------------------------------------------------------

def pyval(q, ints=False):
    f = Fraction(q)
    if ints and f.denominator == 1:
        return int(f)
    return float(f)


def eltval(q, elt, i=0):
    """the number `q` as an object of the element type `elt` ("mixed": by position)"""
    f = Fraction(q)
    if elt == "mixed":
        elt = ["float", "np_float64", "int", "np_int64"][i % 4]
    if f.denominator != 1 and elt in INT_ELTS:
        elt = "float" if elt == "int" else "np_float64"
    if elt == "int":
        return int(f)
    if elt == "np_float64":
        return np.float64(float(f))
    if elt == "np_int64":
        return np.int64(int(f))
    if elt == "np_int32":
        return np.int32(int(f))
    return float(f)


def pyname(ref):
    import sympy
    from pygom.model.ode_variable import ODEVariable
    kind, name = ref
    if kind == "str":
        return name
    if kind == "sym":
        return sympy.Symbol(name)
    return ODEVariable(name, name)


def to_python(op):
    k = op["k"]
    seq = list if op.get("seq", "list") == "list" else tuple
    elt = op.get("elt")
    if k == "none":
        return None
    if k == "nums":
        if elt:
            return seq(eltval(v, elt, i) for i, v in enumerate(op["vals"]))
        return seq(pyval(v, op.get("ints", False)) for v in op["vals"])
    if k == "arr":
        dtype = op.get("dtype", "float64")
        if dtype != "float64" and all(Fraction(v).denominator == 1 for v in op["flat"]):
            a = np.array([int(Fraction(v)) for v in op["flat"]], dtype=dtype)
        else:
            a = np.array([pyval(v) for v in op["flat"]], dtype=float)
        if op["shape"] == "col":
            a = a.reshape(len(op["flat"]), 1)
        elif op["shape"] == "row":
            a = a.reshape(1, len(op["flat"]))
        elif op["shape"] == "n2":
            a = a.reshape(op["len"], 2)
        return a
    if k == "pairs":
        return seq((pyname(r), eltval(v, elt or "float", i)) for i, (r, v) in enumerate(op["ps"]))
    if k == "seq_other":
        return seq("s%d" % i for i in range(op["len"]))
    if k == "dict":
        return {pyname(r): ("x" if v is None else eltval(v, elt or "float", i)) for i, (r, v) in enumerate(op["es"])}
    if k == "scalar":
        return pyval(op["v"])
    if k == "other":
        return "abc"
    raise ValueError(k)


def snapshot(obj):
    """a comparable deep snapshot of what the caller passed (types included)"""
    if isinstance(obj, np.ndarray):
        return ("nd", str(obj.dtype), obj.shape, obj.tolist())
    if isinstance(obj, dict):
        return ("dict", [(type(k).__name__, str(k), type(v).__name__, repr(v)) for k, v in obj.items()])
    if isinstance(obj, (list, tuple)):
        return (type(obj).__name__, [snapshot(v) for v in obj])
    return (type(obj).__name__, repr(obj))


def scribble(obj):
    """the caller re-uses his container after the assignment: every value is overwritten (lists, arrays, dicts; a tuple
    cannot be written to)"""
    if isinstance(obj, np.ndarray):
        obj[...] = np.arange(obj.size, dtype=obj.dtype).reshape(obj.shape) + 977
        return True
    if isinstance(obj, list):
        for i in range(len(obj)):
            obj[i] = (obj[i][0], 977.0 + i) if isinstance(obj[i], tuple) else 977.0 + i
        obj.append(12345.0)
        return True
    if isinstance(obj, dict):
        for i, key in enumerate(list(obj)):
            obj[key] = 977.0 + i
        obj["__scribbled__"] = 1.0
        return True
    return False


def eval_args(form, tform, x, t):
    if form == "tuple_float":
        xa = tuple(x)
    elif form == "nd_float":
        xa = np.array(x, dtype=float)
    elif form == "list_npfloat":
        xa = [np.float64(v) for v in x]
    else:
        xa = list(x)
    return xa, (np.float64(t) if tform == "np_float" else float(t))


def to_lean(op):
    k = op["k"]
    if k == "clone":
        return {"k": "clone", "src": op["src"]}
    o = _to_lean(op)
    o["inst"] = int(op.get("inst", 0))
    return o


def _to_lean(op):
    k = op["k"]
    if k in ("none", "other"):
        return {"k": k}
    if k == "nums":
        return {"k": "nums", "vals": op["vals"]}
    if k == "arr":
        return {"k": "arr", "len": op["len"], "flat": op["flat"]}
    if k == "pairs":
        return {"k": "pairs", "ps": op["ps"]}
    if k == "seq_other":
        return {"k": "seq_other", "len": op["len"]}
    if k == "dict":
        return {"k": "dict", "es": op["es"]}
    if k == "scalar":
        return {"k": "scalar", "v": op["v"]}
    raise ValueError(k)


def err_enum(exc):
    n, msg = type(exc).__name__, str(exc)
    if n == "AttributeError" and "size" in msg:
        return "bad_length_attr"
    if n == "InputError":
        if "number of input parameters" in msg:
            return "bad_length"
        if "does not exist" in msg:
            return "unknown_param"
        return "bad_type"
    if n == "Exception" and "Too many" in msg:
        return "too_many"
    if n == "Warning":
        return "none_input"
    if n == "ValueError" and "not in list" in msg:
        return "not_in_list"
    if n == "TypeError" and "unhashable" in msg:
        return "unhashable"
    if n == "IndexError":
        return "index_error"
    return "Other:" + n


# ----------------------------------------------------------------------------------------------
# the direct oracle's specification (independent of the Lean model; written from the property text)
# ----------------------------------------------------------------------------------------------

def oracle_step(params, cur, op):
    """-> (verdict, new): verdict 'accept' (an accepted input form: must not raise), 'reject' (malformed: must raise),
    'either' (the property does not say; `new` is the reading that applies if it is accepted).
    `cur`/`new`: None (nothing bound yet) or dict name -> Fraction."""
    n = len(params)
    k = op["k"]
    zeros = {p: Fraction(0) for p in params}
    if k == "nums":
        if len(op["vals"]) != n:
            return "reject", cur
        return "accept", dict(zip(params, map(Fraction, op["vals"])))
    if k == "arr":
        if len(op["flat"]) != n:
            return "reject", cur
        new = dict(zip(params, map(Fraction, op["flat"])))
        return ("accept" if op["shape"] == "1d" else "either"), new
    if k == "pairs":
        names = [r[1] for r, _ in op["ps"]]
        if any(nm not in params for nm in names) or len(names) != n:
            return "reject", cur
        new = dict(zeros)
        for (r, v) in op["ps"]:
            new[r[1]] = Fraction(v)
        if len(set(names)) != n:
            # a repeated name (the code keeps the last value and binds the names left out to 0: documented non-claim).
            # Not an accepted form and nothing is claimed: the names concerned become "don't care" (None)
            for nm in params:
                if names.count(nm) != 1:
                    new[nm] = None
            return "either", new
        if any(r[0] == "sym" for r, _ in op["ps"]):
            return "either", new                        # Symbol-named pairs: not claimed either way
        return "accept", new
    if k == "dict":
        names = [r[1] for r, _ in op["es"]]
        if len(names) > n or any(nm not in params for nm in names) or any(v is None for _, v in op["es"]):
            return "reject", cur
        new = dict(cur) if cur is not None else dict(zeros)   # never set: unmentioned names are 0 (documented non-claim)
        for (r, v) in op["es"]:
            new[r[1]] = Fraction(v) if names.count(r[1]) == 1 else None    # 'a' and Symbol('a') in one dict: don't care
        return ("accept" if len(set(names)) == len(names) else "either"), new
    if k == "scalar":
        if n == 1:
            return "either", {params[0]: Fraction(op["v"])}
        return "reject", cur
    if k == "none":
        return "either", cur
    return "reject", cur            # str, list of str


# ----------------------------------------------------------------------------------------------
# running
# ----------------------------------------------------------------------------------------------

def probe_atomic():
    """measure the setter variant on the tree under test (public getter and ode only)"""
    global _ATOMIC
    if _ATOMIC is not None:
        return _ATOMIC
    from pygom import SimulateOde, Transition, Event
    from .. import bootstrap

    def mk():
        m = SimulateOde(state=["x"], param=["p0", "p1"],
                        event=[Event(transition_list=[Transition(origin="x", transition_type="D")], rate="p0*x"),
                               Event(transition_list=[Transition(destination="x", transition_type="B")], rate="p1")])
        bootstrap.fast_backend(m)
        m.parameters = [1.0, 2.0]
        return m
    m = mk()
    try:
        m.parameters = {"p0": 7.0, "zz__": 1.0}
        leak = None
    except Exception:
        g = m.parameters
        leak = any(str(k) == "p0" and float(v) == 7.0 for k, v in (g or {}).items())
    m2 = mk()
    before = float(np.asarray(m2.ode([3.0], 0.0)).ravel()[0])
    try:
        m2.parameters = [("p0", 7.0), ("t", 8.0)]
        changed = None
    except Exception:
        changed = float(np.asarray(m2.ode([3.0], 0.0)).ravel()[0]) != before
    _ATOMIC = {"atomic": (leak is False and changed is False), "dict_leak": leak, "t_commit": changed}
    return _ATOMIC


def getter_map(model):
    g = model.parameters
    if g is None:
        return None, None
    m, keys = {}, []
    for k, v in g.items():
        m[str(k)] = v
        keys.append(["str" if isinstance(k, str) else "sym", str(k)])
    return m, keys


def evaluate(model, x, t):
    """('ok', ode, grad) or ('raise', ExceptionName, msg)"""
    try:
        f = np.array(model.ode(x, t), dtype=float).ravel()
        g = np.array(model.grad(x, t), dtype=float).ravel()
        return ("ok", f, g)
    except Exception as exc:
        return ("raise", type(exc).__name__, str(exc)[:120])


def same_eval(a, b, exact=False):
    """two evaluations of the same instance (possibly with the state passed in another container type): equal up to 1e-12
    relative / 1e-14 absolute (values of the O(1) streams are 1e-3..1e6); `exact` (value-scale cases, whose results may be
    1e-20 or 1e25): the same floats - the same compiled expression on the same numbers"""
    if a[0] != b[0]:
        return False
    if a[0] == "raise":
        return a[1] == b[1]
    if exact:
        return bool(len(a[1]) == len(b[1]) and len(a[2]) == len(b[2]) and all(float(u) == float(v) for u, v in zip(a[1], b[1]))
                    and all(float(u) == float(v) for u, v in zip(a[2], b[2])))
    return bool(len(a[1]) == len(b[1]) and len(a[2]) == len(b[2]) and vec_close(a[1], b[1], 1e-12, 1e-14) and vec_close(a[2], b[2], 1e-12, 1e-14))


def classify_wrong(name, actual, expected, idx, history, verdicts):
    """which value did the name get instead (for the violation signature)"""
    try:
        a = Fraction(float(actual)) if actual is not None else None      # exact: tiny values are not zero
    except Exception:
        return "non-numeric"
    if a is None:
        return "unknown"

    def supplied(op, nm):
        out = []
        if op["k"] == "pairs":
            out = [Fraction(v) for r, v in op["ps"] if r[1] == nm]
        elif op["k"] == "dict":
            out = [Fraction(v) for r, v in op["es"] if r[1] == nm and v is not None]
        return out
    for j in range(idx, -1, -1):
        if verdicts[j] == "rejected" and any(float(v) == float(a) for v in supplied(history[j], name)):
            return "value-from-rejected-%s" % history[j]["cls"]
    op = history[idx]
    others = []
    for key in ("vals", "flat"):
        others += [Fraction(v) for v in op.get(key, [])]
    others += [Fraction(v) for r, v in op.get("ps", [])] + [Fraction(v) for r, v in op.get("es", []) if v is not None]
    if float(a) != float(expected) and any(float(v) == float(a) for v in others):
        return "value-of-another-name"
    if a == 0:
        return "zero"
    return "stale-or-other"


def rel_close(a, b, rel):
    """entry by entry RELATIVE (no absolute floor: an entry of 1e-18 is compared as strictly as one of 1e+18; 0 only equals 0)"""
    return len(a) == len(b) and all(abs(float(u) - float(v)) <= rel * max(abs(float(u)), abs(float(v))) for u, v in zip(a, b))


def scale_expected(sc, params, states, xs, cur):
    """DIRECT ORACLE of the monomial family (plain float arithmetic on the values supplied by name; no pygom, no Lean):
    -> (ode, grad row-major nS x nP, loose): exact floats; `loose[i]` marks entries that stem from a bilinear term (4 ulp)"""
    nS, nP = len(states), len(params)
    xv = dict(zip(states, xs))
    th = {p: float(cur[p]) for p in params}
    ode = [0.0] * nS
    grad = [0.0] * (nS * nP)
    lo_f, lo_g = [False] * nS, [False] * (nS * nP)
    for tm in sc["terms"]:
        y = xv[tm["y"]]
        k = params.index(tm["p"])
        for st, sign in tm["targets"]:
            i = states.index(st)
            if tm["co"] is None:
                ode[i] = sign * (th[tm["p"]] * y)
                grad[i * nP + k] = sign * y
            else:
                l = params.index(tm["co"])
                ode[i] = sign * ((th[tm["p"]] * th[tm["co"]]) * y)
                grad[i * nP + k] = sign * (th[tm["co"]] * y)
                grad[i * nP + l] = sign * (th[tm["p"]] * y)
                lo_f[i] = True
    return ode, grad, lo_f, lo_g


def scale_wrong(sc, params, states, xs, cur, now_eval):
    """None, or what is wrong with (ode, grad) of a value-scale case"""
    ode, grad, lo_f, lo_g = scale_expected(sc, params, states, xs, cur)
    for name, got, want, loose in (("ode", now_eval[1], ode, lo_f), ("grad", now_eval[2], grad, lo_g)):
        if len(got) != len(want):
            return "%s has %d entries, expected %d" % (name, len(got), len(want))
        for i, (g, w) in enumerate(zip(got, want)):
            g = float(g)
            ok = (abs(g - w) <= 1e-15 * abs(w)) if loose[i] else (g == w)
            if not ok:
                where = states[i] if name == "ode" else "%s/%s" % (states[i // len(params)], params[i % len(params)])
                return "%s[%s] = %r but the values given by name make it %r (%s; relative difference %.3g)" % (
                    name, where, g, w, "product of two parameters and a power of two: 4 ulp" if loose[i] else "one parameter times a power of two: exact",
                    abs(g - w) / abs(w) if w else float("inf"))
    return None


def run_case(case):
    global _ATOMIC
    import copy as _copy
    import pickle
    spec, meta, hist = case["spec"], case["meta"], case["history"]
    tags, mism, viol = [], [], []
    variant = probe_atomic()
    tags.append("setter_variant:" + ("atomic" if variant["atomic"] else "legacy(dict_leak=%s,t_commit=%s)" % (variant["dict_leak"], variant["t_commit"])))
    model = pymodel.build(spec, backend="lambda")
    ref = pymodel.build(spec, backend="lambda")
    decoy = pymodel.build(spec, backend="lambda") if case.get("decoy") else None
    params = [str(p) for p in model.param_list]
    states = [str(s) for s in model.state_list]
    if params != meta["params"] or states != meta["states"]:
        mism.append({"what": "names", "detail": "python %s %s generator %s %s" % (states, params, meta["states"], meta["params"])})
        return {"nontrivial": False, "mismatches": mism, "violations": viol, "tags": tags}
    n = len(params)
    tags.append("nP=%d" % n)
    tags.append("ops=%d" % len(hist))
    if decoy is not None:
        tags.append("decoy_instance")
    pt = {k: Fraction(v) for k, v in case["point"].items()}
    x = [float(pt[s]) for s in states]
    t = float(pt["t"])
    xforms = case.get("xforms") or [["list_float", "float"]] * (len(hist) + 1)
    sc = case.get("scale")
    if sc:
        tags.append("scale-regime:" + sc["regime"])

    lean_hist = [to_lean(o) for o in hist if o["k"] != "probe_copy"]
    lean = leanio.driver().call({"op": "params", "names": params, "atomic": variant["atomic"], "history": lean_hist})
    if "steps" not in lean:
        mism.append({"what": "params:driver", "detail": json.dumps(lean)[:300]})
        return {"nontrivial": False, "mismatches": mism, "violations": viol, "tags": tags}
    steps = lean["steps"]

    # the live instances: the real model, the direct oracle's name -> value map (None: nothing bound yet), the last
    # evaluation, how the instance came to be
    insts = [{"m": model, "cur": None, "prev": None, "origin": "built", "copied_from": False}]
    passed = []                # (what the caller passed, snapshot when it was passed, op class): re-checked at the end
    verdicts = []

    def ev(inst_model, idx):
        form, tform = xforms[min(idx, len(xforms) - 1)]
        xa, ta = eval_args(form, tform, x, t)
        snap = snapshot(xa)
        r = evaluate(inst_model, xa, ta)
        if snapshot(xa) != snap:
            tags.append("side-effect:argument-modified:%s" % form)       # a side effect, not a wrong value: recorded only
        return r

    insts[0]["prev"] = ev(model, 0)
    if insts[0]["prev"][0] != "raise":
        viol.append({"what": "a model whose parameters were never assigned evaluates", "signature": "fresh-model-evaluates", "detail": str(insts[0]["prev"])[:300]})
    nontrivial = False
    sample_steps = []

    def lean_compare(m, ls, where, now_eval, op):
        """correspondence of one instance with the state the Lean model reports for it"""
        gmap, gkeys = getter_map(m)
        if (gmap is None) != (not ls["set"]):
            mism.append({"what": "parameters-getter:set/unset", "detail": "%s: python getter %s lean set=%s" % (where, gmap, ls["set"])})
        elif gmap is not None:
            try:
                bad = [(nm, gmap.get(nm, 0), q) for nm, q in zip(params, ls["abs"]) if float(gmap.get(nm, 0)) != float(Fraction(q))]
            except Exception as exc:
                bad = [("non-numeric", str(exc), "")]
            if bad:
                mism.append({"what": "parameters-getter:map", "detail": "%s: (name, python, lean abs) %s" % (where, bad[:4])})
            lkeys = [[a, b] for a, b, _ in (ls["dict"] or [])]
            if lkeys != gkeys:
                tags.append("recorded:dict_keys_differ")
        pv_py = getattr(m, "_paramValue", None)
        if pv_py is not None:
            try:
                if [float(v) for v in pv_py] != [float(Fraction(q)) for q in ls["pv"]]:
                    tags.append("recorded:_paramValue_differs")
            except Exception:
                tags.append("recorded:_paramValue_differs")
        if ls["set"]:
            env = dict(pt)
            env.update({nm: Fraction(q) for nm, q in zip(params, ls["pv"])})
            try:
                f_l = net_oracle(meta, spec, env)[0]
            except (E.Undefined, ZeroDivisionError):
                f_l = None
                tags.append("undefined_point")
            if now_eval[0] != "ok":
                mism.append({"what": "ode-vs-lean-paramValue", "detail": "%s: python raises %s, lean has the parameters set" % (where, now_eval[1:])})
            elif f_l is not None and not (rel_close(now_eval[1], f_l, 1e-12) if sc else vec_close(now_eval[1], f_l)):
                mism.append({"what": "ode-vs-lean-paramValue", "detail": "%s: ode=%s with lean _paramValue %s -> %s" % (
                    where, list(now_eval[1]), ls["pv"], [mpf_s(v) for v in f_l])})
        elif now_eval[0] == "ok":
            mism.append({"what": "ode-vs-lean-paramValue", "detail": "%s: python evaluates, lean has _parameters unset" % where})

    def judge_values(m, cur, now_eval, where, sig_of, idx, what_prefix):
        """DIRECT ORACLE: the instance must evaluate with the values `cur` gives by name"""
        if cur is None:
            if now_eval[0] == "ok":
                viol.append({"what": "%s evaluates although no assignment was ever accepted" % what_prefix, "signature": sig_of("evaluates-unset"),
                             "detail": where})
            return
        if any(cur[p] is None for p in params):
            tags.append("oracle:dont_care_after_unclaimed_input")
            return
        expected = [cur[p] for p in params]
        env = dict(pt)
        env.update(cur)
        try:
            f_o = net_oracle(meta, spec, env)[0]
        except (E.Undefined, ZeroDivisionError):
            f_o = None
        if sc:
            r_eval = ("skipped",)          # the closed form below is the reference (and resolves 1 ulp)
        else:
            ref.parameters = [float(v) for v in expected]
            r_eval = evaluate(ref, x, t)
        wrong = None
        if now_eval[0] != "ok":
            wrong = "evaluation raises %s: %s" % (now_eval[1], now_eval[2])
        elif sc:
            # value scales: entry by entry, no absolute floor - exact where the model is linear in the parameter
            wrong = scale_wrong(sc, params, states, x, cur, now_eval)
            if wrong is None and f_o is not None and not rel_close(now_eval[1], f_o, 1e-12):
                wrong = "ode(x,t)=%s but sum rate*net at the values given is %s (relative 1e-12 per entry)" % (list(now_eval[1]), [mpf_s(v) for v in f_o])
        elif f_o is not None and not vec_close(now_eval[1], f_o):
            wrong = "ode(x,t)=%s but sum rate*net at the values given is %s" % (list(now_eval[1]), [mpf_s(v) for v in f_o])
        elif r_eval[0] == "ok" and not (vec_close(now_eval[1], r_eval[1]) and vec_close(now_eval[2], r_eval[2])):
            wrong = "ode/grad differ from a fresh model assigned the same values positionally: ode %s vs %s ; grad %s vs %s" % (
                list(now_eval[1]), list(r_eval[1]), list(now_eval[2]), list(r_eval[2]))
        if wrong:
            cls = "unclassified"
            pv_py = getattr(m, "_paramValue", None)
            if pv_py is not None and len(pv_py) == n:
                for nm, a, e in zip(params, pv_py, expected):
                    try:
                        differs = float(a) != float(e)
                    except Exception:
                        differs = True
                    if differs:
                        others = [v for q, v in cur.items() if q != nm and v is not None]
                        try:
                            cls = "value-of-another-name" if any(float(a) == float(v) for v in others) else classify_wrong(nm, a, e, idx, hist, verdicts)
                        except Exception:
                            cls = "non-numeric"
                        break
            if pv_py is not None and len(pv_py) == n and any(isinstance(a, np.integer) for a in pv_py):
                # is it the BINDING, or fixed-width integer arithmetic on values that are bound to the right names?  A fresh
                # model assigned, positionally, the expected values in the same numpy integer types tells (independent of
                # the instance under test)
                try:
                    typed = [type(a)(int(e)) if isinstance(a, np.integer) and Fraction(e).denominator == 1 else float(e)
                             for a, e in zip(pv_py, expected)]
                    ref.parameters = typed
                    if same_eval(evaluate(ref, x, t), now_eval):
                        cls = "numpy-integer-overflow:" + "+".join(sorted(set(type(a).__name__ for a in pv_py if isinstance(a, np.integer))))
                except Exception:
                    pass
            viol.append({"what": "%s: the evaluations do not use the values given by name: %s" % (what_prefix, wrong),
                         "signature": cls if cls.startswith("numpy-integer-overflow") else sig_of(cls),
                         "detail": "%s ; expected name->value %s ; _paramValue=%s ; history=%s" % (
                             where, {k: str(v) for k, v in cur.items()}, getattr(m, "_paramValue", None), json.dumps(hist[:idx + 1]))[:2500]})

    def run_decoy(idx, cur):
        """ANOTHER live model with the same names is assigned other values and evaluated now"""
        if decoy is None:
            return
        try:
            base = [float(cur[p]) if (cur is not None and cur.get(p) is not None) else 1.0 for p in params]
            decoy.parameters = [3.0 * v + 0.5 + i for i, v in enumerate(base)]
            evaluate(decoy, x, t)
        except Exception as exc:
            tags.append("decoy_raises:" + type(exc).__name__)

    li = -1                       # index into the driver's steps
    for idx, op in enumerate(hist):
        where = "op#%d %s" % (idx, op["cls"])
        k = op["k"]
        # ------------------------------------------------------------------------------------------------ copies
        if k == "clone":
            li += 1
            ls = steps[li]
            src = insts[op["src"]]
            try:
                c = _copy.deepcopy(src["m"])
            except Exception as exc:
                viol.append({"what": "copy.deepcopy of a model raises %s" % type(exc).__name__, "signature": "deepcopy-raises:%s" % type(exc).__name__,
                             "detail": "%s: %s" % (where, str(exc)[:300])})
                break
            verdicts.append("accepted")
            tags.append("op:clone_deepcopy:%s" % ("set" if src["cur"] is not None else "unset"))
            new = {"m": c, "cur": (dict(src["cur"]) if src["cur"] is not None else None), "prev": None, "origin": "deepcopy", "copied_from": False}
            src["copied_from"] = True
            insts.append(new)
            run_decoy(idx, new["cur"])
            now = ev(c, idx + 1)
            lean_compare(c, ls, where + " (the copy)", now, op)
            judge_values(c, new["cur"], now, where + " (the copy, evaluated before any assignment to it)",
                         lambda cls: "wrong-binding:deepcopy:%s" % cls, idx, "a copy.deepcopy of a configured model")
            new["prev"] = now
            addressed = len(insts) - 1
            accepted = True
        elif k == "probe_copy":
            src = insts[op["src"]]
            how = op["how"]
            verdicts.append("accepted")
            try:
                c = _copy.copy(src["m"]) if how == "copy" else pickle.loads(pickle.dumps(src["m"]))
            except Exception as exc:
                # the tree as found cannot pickle a model (closures): recorded, nothing to judge
                tags.append("op:probe_%s:unsupported:%s" % (how, type(exc).__name__))
                c = None
            if c is not None:
                tags.append("op:probe_%s:%s" % (how, "set" if src["cur"] is not None else "unset"))
                now = ev(c, idx + 1)
                judge_values(c, src["cur"], now, where + " (the %s, evaluated at once)" % ("shallow copy" if how == "copy" else "unpickled model"),
                             lambda cls: "wrong-binding:%s:%s" % ("shallow-copy" if how == "copy" else "unpickled", cls), idx,
                             "a %s of a configured model" % ("copy.copy" if how == "copy" else "pickle round trip"))
                try:
                    c.parameters = [float(Fraction(q)) for q in op["decoy"]]        # ... then the transient object is given other values
                    evaluate(c, x, t)
                except Exception as exc:
                    tags.append("probe_decoy_raises:" + type(exc).__name__)
            addressed = None
            accepted = True
        # ------------------------------------------------------------------------------------------------ assignments
        else:
            li += 1
            ls = steps[li]
            a = int(op.get("inst", 0))
            inst = insts[a]
            m = inst["m"]
            verdict, new = oracle_step(params, inst["cur"], op)
            pyobj = to_python(op)
            snap = snapshot(pyobj)
            try:
                m.parameters = pyobj
                perr = None
            except BaseException as exc:       # the setter raises Warning for None
                perr = err_enum(exc)
            accepted = perr is None
            verdicts.append("accepted" if accepted else "rejected")
            tags.append("op:%s:%s" % (op["cls"], "accepted" if accepted else perr))
            if accepted and (op.get("elt") or op.get("dtype")):
                tags.append("elt:%s" % (op.get("elt") or op.get("dtype")))
            if op.get("coin"):
                tags.append("coincide:%s:%s" % (op["coin"], "accepted" if accepted else perr))
            for sk in op.get("scl", []):
                tags.append("scale:%s:%s" % (sk, "accepted" if accepted else perr))
                if accepted and sk != "base":
                    nontrivial = True             # a value-scale case exercises the mechanism when a scaled update is accepted
            if inst["origin"] != "built":
                tags.append("assign_to_copy")
            # the caller's container: untouched by the setter; then (scribble) re-used by the caller
            if snapshot(pyobj) != snap:
                # a side effect on the caller's object with (so far) correct evaluations: recorded, not a violation of C09
                tags.append("side-effect:caller-container-modified:%s" % op["cls"])
            if accepted and op.get("scribble") and scribble(pyobj):
                tags.append("caller_overwrites_container_afterwards")
            elif pyobj is not None and not isinstance(pyobj, (str, float, int)):
                passed.append((pyobj, snap, op["cls"]))

            # ---- correspondence with the Lean model
            lerr = ls["err"]
            if (lerr is None) != accepted:
                mism.append({"what": "accept/reject", "detail": "%s: lean=%s python=%s ; op=%s" % (where, lerr, perr, json.dumps(op))})
            elif lerr != perr:
                mism.append({"what": "error-kind", "detail": "%s: lean=%s python=%s ; op=%s" % (where, lerr, perr, json.dumps(op))})
            # ---- direct oracle: accepted / rejected as the property says
            if verdict == "accept" and not accepted:
                viol.append({"what": "an accepted input form is rejected with %s" % perr, "signature": "valid-rejected:%s:%s" % (op["cls"], perr),
                             "detail": "%s op=%s history=%s" % (where, json.dumps(op), json.dumps(hist[:idx]))[:1800]})
            if verdict == "reject" and accepted:
                viol.append({"what": "malformed assignment accepted (bound silently)", "signature": "malformed-accepted:%s" % op["cls"],
                             "detail": "%s op=%s" % (where, json.dumps(op))})
            if accepted:
                inst["cur"] = new
            run_decoy(idx, inst["cur"])
            now = ev(m, idx + 1)
            lean_compare(m, ls, where, now, op)
            suffix = "" if inst["origin"] == "built" else ":on-deepcopy"
            if not accepted and not same_eval(inst["prev"], now, exact=bool(sc)):
                viol.append({"what": "evaluations change after a REJECTED assignment (%s)" % perr,
                             "signature": "eval-changed-after-rejected:%s%s" % (op["cls"], suffix),
                             "detail": "%s op=%s ; before %s after %s ; _paramValue=%s" % (where, json.dumps(op), _ev_s(inst["prev"]), _ev_s(now), getattr(m, "_paramValue", None))})
            else:
                kind = op["cls"] if accepted else "after-rejected"
                judge_values(m, inst["cur"], now, where, lambda cls: ("evaluates-unset:%s%s" % (op["cls"], suffix)) if cls == "evaluates-unset"
                             else "wrong-binding:%s:%s%s" % (kind, cls, suffix), idx,
                             "after %s assignment `%s`" % ("an accepted" if accepted else "a rejected", op["cls"]))
            inst["prev"] = now
            addressed = a
            if accepted and op["cls"] in ("pairs_perm", "dict_partial", "dict_full") and (op["cls"] != "dict_full" or [r[1] for r, _ in op["es"]] != params):
                nontrivial = True
            if len(sample_steps) < 8:
                sample_steps.append({"op": op["cls"], "inst": a, "python": perr or "ok", "lean": lerr or "ok", "abs": ls["abs"]})

        # ---- every OTHER live instance: evaluates exactly as before, and with the values its own map gives by name
        for j, other in enumerate(insts):
            if j == addressed or other["prev"] is None:
                continue
            now_o = ev(other["m"], idx + 1)
            role = "original" if other["origin"] == "built" else "copy"
            if not same_eval(other["prev"], now_o, exact=bool(sc)):
                viol.append({"what": "an operation on ANOTHER instance changed the evaluations of this one (%s #%d)" % (role, j),
                             "signature": "other-instance-changed:%s:%s" % (op["cls"], role),
                             "detail": "%s (addressed to instance %s) ; instance %d before %s after %s" % (where, addressed, j, _ev_s(other["prev"]), _ev_s(now_o))})
            else:
                judge_values(other["m"], other["cur"], now_o, where + " (instance %d, not addressed)" % j,
                             lambda cls: "wrong-binding:other-instance:%s:%s" % (role, cls), idx, "the %s (instance %d)" % (role, j))
            other["prev"] = now_o
        if viol or mism:
            break
    # what the caller passed in is still what he passed (nothing holds on to it and writes to it later)
    for obj, snap, cls in passed:
        if snapshot(obj) != snap:
            tags.append("side-effect:caller-container-modified-later:%s" % cls)      # recorded only
    if len(insts) > 1:
        tags.append("instances=%d" % len(insts))
    if case.get("malformed"):
        tags.append("stream:malformed")
    elif case.get("coincide"):
        tags.append("stream:coincide")
    elif sc:
        tags.append("stream:scale")
    else:
        tags.append("stream:regular")
    return {"nontrivial": nontrivial, "mismatches": mism, "violations": viol, "tags": sorted(set(tags)),
            "sample": {"params": params, "steps": sample_steps}}


def _ev_s(e):
    if e[0] == "raise":
        return "raises %s" % e[1]
    return "ode=%s" % [round(float(v), 9) for v in e[1]]
