"""
C09 - parameter values are bound to the parameters they were given for.

Per case: a random model (every declared parameter made to occur in the ODE) and a random history of
`model.parameters = ...` assignments in mixed formats (positional list / tuple / ndarray, pair lists in
any order, full and partial dicts keyed by name or by sympy Symbol) interleaved with malformed ones
(wrong lengths, unknown names, the time symbol, too many dict entries, unsupported values / types,
duplicate names).  After EACH assignment:

* correspondence with the Lean setter model (driver op `params`): accepted / rejected and error kind,
  the name -> value map of the public `parameters` getter against `abs`, and `ode(x,t)` against the
  model's `_paramValue` pushed through the harness interpreter (`_paramValue` itself and the dict key
  kinds are compared too, but only recorded);
* DIRECT ORACLE (no Lean): a plain Python dict spec written from the property text ("full assignment
  replaces every name, partial update overrides the names it mentions, a rejected assignment changes
  nothing; before any full assignment unmentioned names are 0") gives the value every name must have;
  `ode(x,t)` must equal the harness interpreter's sum rate*net at those values and `ode`, `grad` must
  equal those of a freshly built model assigned the same values positionally; inputs the property
  calls malformed must raise, accepted forms must not, and after a rejection evaluations must be
  exactly as before (or still unavailable when nothing was ever bound).
"""
import copy
import json
import random
from fractions import Fraction

import numpy as np

from .. import exprs as E
from .. import gen, leanio, pymodel
from .common import mpf_s, net_oracle, vec_close

PROP = "C09"
LEAN = {"module": "Pygom.Props.C09", "extra_modules": ["Pygom.Lemmas.Params"],
        "required": ["Pygom.C09.binding_refines_spec", "Pygom.C09.history_binding", "Pygom.C09.history_binding_legacy_partial",
                     "Pygom.C09.permutation_invariance", "Pygom.C09.forms_agree", "Pygom.C09.rejects_unknown_and_bad_length",
                     "Pygom.C09.invalid_rejected", "Pygom.C09.rejected_leaves_state",
                     "Pygom.C09.partial_update_on_unset_binds_zero", "Pygom.C09.pairs_duplicate_keeps_last",
                     "Pygom.C09.pairs_unmentioned_binds_zero", "Pygom.C09.legacy_rejected_dict_leaks_counterexample",
                     "Pygom.C09.legacy_time_symbol_commits_counterexample", "Pygom.C09.history_binding_legacy_counterexample",
                     "Pygom.Params.unrollPure_get", "Pygom.Params.lv_dset", "Pygom.Params.Inv_dset", "Pygom.Params.lv_foldl_dset"]}
BUDGET = {"quick": {"models": 900, "malformed": 600, "max_ops": 8},
          "thorough": {"models": 12000, "malformed": 8000, "max_ops": 20}}
RULE = ("random model definitions (shared generator, lambda back-end; an extra event is added for every parameter that would "
        "not occur in the ODE) x random histories of 1-8 (thorough 1-20) assignments: list/tuple/ndarray (1-d, column), "
        "permuted pair lists (str / ODEVariable names), full and partial dicts (str / sympy.Symbol keys, any order, any "
        "subset), all values distinct; a share of ops (15% in the regular stream, 45% in the malformed stream) is malformed: "
        "short/long list, tuple, array, (n,2) and (1,n) arrays, short/long pair list, unknown name, time symbol 't', Symbol "
        "names in a pair list, duplicate names, too many dict entries, unknown dict key first/middle/last, unsupported dict "
        "value, scalar, str, None, list of str.  A case is non-trivial when the history contains an accepted permuted or "
        "partial assignment")
ASSUMPTIONS = ["the setter variant (atomic or not: does a rejected assignment leave _parameters/_paramValue touched) is MEASURED on the "
               "tree under test by a fixed two-assignment probe through the public getter and ode(); the theorems cover both variants: "
               "history_binding needs the atomic one, for the other the *_counterexample theorems hold and the direct oracle reports the violation",
               "frozen-distribution and (callable, args) dict values are not modelled (C16)",
               "parameters declared as ODEVariable objects whose name differs from their ID are out of scope (declared by string here)",
               "evaluation comparisons: relative 1e-9 / absolute 1e-11 against a 50-digit reference"]
TRUSTED = ["harness generator, AST printer (exprs.to_str) and interpreter (exprs.ev)", "Lean driver JSON codec",
           "the Python dict spec of the direct oracle (oracle_step, 40 lines)"]

_ATOMIC = None


# ----------------------------------------------------------------------------------------------
# generation
# ----------------------------------------------------------------------------------------------

def _vars(e, acc):
    if isinstance(e, list):
        if e and e[0] == "var":
            acc.add(e[1])
        for x in e[1:]:
            _vars(x, acc)
    return acc


def ensure_all_params_used(rng, spec, meta):
    """append one birth/death event per parameter that does not occur (directly) in a rate, magnitude or ODE term"""
    used = set()
    for p in meta["procs"]:
        _vars(p["rate"], used)
        for tr in p["transitions"]:
            _vars(tr["mag"], used)
    for o in meta["odes"]:
        _vars(o["expr"], used)
    for name in meta["params"]:
        if name in used:
            continue
        st = rng.choice(meta["states"])
        rate = E.mul(E.var(name), E.var(rng.choice(meta["states"])))
        if rng.random() < 0.5:
            tr = {"type": "D", "origin": st, "dest": None, "mag": E.num(1)}
        else:
            tr = {"type": "B", "origin": None, "dest": st, "mag": E.num(1)}
        meta["procs"].append({"rate": rate, "kind": "linear", "transitions": [tr]})
        meta["routes"].append("event")
        meta["kinds"].append("linear")
        spec["ctor"]["event"].append({"rate": rate, "transitions": [gen.transition_json(tr)]})


class Vals:
    """distinct values: no two (name, op) pairs of a case ever get the same number"""

    def __init__(self, rng):
        self.rng = rng
        self.used = set()

    def one(self):
        while True:
            den = self.rng.choice([1, 2, 4, 8, 16, 5, 7, 10])
            f = Fraction(self.rng.randint(1, 4 * den), den)
            if f not in self.used:
                self.used.add(f)
                return str(f)

    def many(self, n):
        return [self.one() for _ in range(n)]


def _key(rng, name, allow=("str", "sym")):
    return [rng.choice(allow), name]


def gen_valid_op(rng, params, V):
    n = len(params)
    kind = gen.wchoice(rng, [("nums", 3), ("arr", 2), ("pairs", 4), ("dict_full", 3), ("dict_partial", 6)])
    if kind == "nums":
        return {"k": "nums", "seq": rng.choice(["list", "tuple"]), "vals": V.many(n), "ints": rng.random() < 0.2, "cls": "nums"}
    if kind == "arr":
        shape = rng.choice(["1d", "1d", "col"])
        return {"k": "arr", "shape": shape, "len": n, "flat": V.many(n), "cls": "arr_" + shape}
    if kind == "pairs":
        names = list(params)
        rng.shuffle(names)
        ps = [[_key(rng, nm, ("str", "str", "str", "odevar")), V.one()] for nm in names]
        return {"k": "pairs", "seq": rng.choice(["list", "tuple"]), "ps": ps, "cls": "pairs_perm" if names != list(params) else "pairs_inorder"}
    if kind == "dict_full":
        names = list(params)
        rng.shuffle(names)
        return {"k": "dict", "es": [[_key(rng, nm), V.one()] for nm in names], "cls": "dict_full"}
    m = rng.randint(1, n) if rng.random() < 0.93 else 0
    names = rng.sample(list(params), m)
    return {"k": "dict", "es": [[_key(rng, nm), V.one()] for nm in names], "cls": "dict_partial" if m < n else "dict_full"}


MALFORMED_KINDS = ["nums_short", "nums_long", "arr_short", "arr_long", "arr_n2", "arr_row", "pairs_short", "pairs_long",
                   "pairs_unknown", "pairs_t", "pairs_symnames", "pairs_dup", "dict_toomany", "dict_unknown_first",
                   "dict_unknown_mid", "dict_unknown_last", "dict_t", "dict_badvalue", "dict_bothkinds", "scalar", "other",
                   "none", "seq_other", "empty_list"]
UNKNOWN_POOL = ["zz", "theta", "Beta", "q_0", "betta"]


def gen_malformed_op(rng, params, V, kind=None):
    n = len(params)
    kind = kind or rng.choice(MALFORMED_KINDS)
    unk = rng.choice([u for u in UNKNOWN_POOL if u not in params])
    shuffled = list(params)
    rng.shuffle(shuffled)
    if kind == "nums_short":
        return {"k": "nums", "seq": rng.choice(["list", "tuple"]), "vals": V.many(rng.randint(max(0, n - 2), n - 1)), "cls": kind}
    if kind == "nums_long":
        return {"k": "nums", "seq": rng.choice(["list", "tuple"]), "vals": V.many(n + rng.randint(1, 2)), "cls": kind}
    if kind == "arr_short":
        m = rng.randint(1, n - 1) if n > 1 else 2
        return {"k": "arr", "shape": "1d", "len": m, "flat": V.many(m), "cls": kind if m < n else "arr_long"}
    if kind == "arr_long":
        m = n + rng.randint(1, 2)
        return {"k": "arr", "shape": "1d", "len": m, "flat": V.many(m), "cls": kind}
    if kind == "arr_n2":
        return {"k": "arr", "shape": "n2", "len": n, "flat": V.many(2 * n), "cls": kind}
    if kind == "arr_row":
        return {"k": "arr", "shape": "row", "len": 1, "flat": V.many(n), "cls": kind}
    if kind == "pairs_short":
        m = rng.randint(1, n - 1) if n > 1 else 0
        if m == 0:
            return gen_malformed_op(rng, params, V, "pairs_long")
        return {"k": "pairs", "seq": "list", "ps": [[["str", nm], V.one()] for nm in shuffled[:m]], "cls": kind}
    if kind == "pairs_long":
        ps = [[["str", nm], V.one()] for nm in shuffled] + [[["str", rng.choice([unk, shuffled[0]])], V.one()]]
        return {"k": "pairs", "seq": "list", "ps": ps, "cls": kind}
    if kind in ("pairs_unknown", "pairs_t"):
        ps = [[["str", nm], V.one()] for nm in shuffled]
        ps[rng.randrange(n)][0] = ["str", unk if kind == "pairs_unknown" else "t"]
        return {"k": "pairs", "seq": rng.choice(["list", "tuple"]), "ps": ps, "cls": kind}
    if kind == "pairs_symnames":
        ps = [[["sym", nm], V.one()] for nm in shuffled]
        return {"k": "pairs", "seq": "list", "ps": ps, "cls": kind}
    if kind == "pairs_dup":
        if n < 2:
            return gen_malformed_op(rng, params, V, "pairs_unknown")
        ps = [[["str", nm], V.one()] for nm in shuffled]
        i, j = rng.sample(range(n), 2)
        ps[i][0] = ["str", ps[j][0][1]]
        return {"k": "pairs", "seq": "list", "ps": ps, "cls": kind}
    if kind == "dict_toomany":
        es = [[_key(rng, nm), V.one()] for nm in shuffled]
        extra = [["str", unk], V.one()] if rng.random() < 0.6 else [["sym" if es[0][0][0] == "str" else "str", es[0][0][1]], V.one()]
        es.insert(rng.randint(0, n), extra)
        return {"k": "dict", "es": es, "cls": kind}
    if kind in ("dict_unknown_first", "dict_unknown_mid", "dict_unknown_last", "dict_t", "dict_badvalue"):
        m = rng.randint(0, n - 1)
        es = [[_key(rng, nm), V.one()] for nm in shuffled[:m]]
        bad = [["str", "t"], V.one()] if kind == "dict_t" else ([_key(rng, shuffled[m]), None] if kind == "dict_badvalue" else [_key(rng, unk), V.one()])
        pos = {"dict_unknown_first": 0, "dict_unknown_last": m}.get(kind, rng.randint(0, m))
        es.insert(pos, bad)
        return {"k": "dict", "es": es, "cls": kind}
    if kind == "dict_bothkinds":
        if n < 2:
            return gen_malformed_op(rng, params, V, "dict_unknown_last")
        nm = shuffled[0]
        es = [[["str", nm], V.one()], [["sym", nm], V.one()]]
        rng.shuffle(es)
        return {"k": "dict", "es": es, "cls": kind}
    if kind == "scalar":
        return {"k": "scalar", "v": V.one(), "cls": kind}
    if kind == "other":
        return {"k": "other", "cls": kind}
    if kind == "none":
        return {"k": "none", "cls": kind}
    if kind == "seq_other":
        return {"k": "seq_other", "seq": rng.choice(["list", "tuple"]), "len": rng.choice([n, n, n - 1, n + 1]), "cls": kind}
    if kind == "empty_list":
        return {"k": "nums", "seq": "list", "vals": [], "cls": kind}
    raise ValueError(kind)


def gen_case(rng, budget, malformed):
    spec, meta = gen.gen_model(rng, allow_range=True)
    ensure_all_params_used(rng, spec, meta)
    params = meta["params"]
    V = Vals(rng)
    nops = rng.randint(1, budget["max_ops"])
    p_bad = 0.45 if malformed else 0.15
    hist = []
    for _ in range(nops):
        if rng.random() < p_bad:
            hist.append(gen_malformed_op(rng, params, V))
        else:
            hist.append(gen_valid_op(rng, params, V))
    pt = gen.rand_point(rng, meta)
    return {"spec": spec, "meta": meta, "history": hist, "malformed": malformed,
            "point": {k: str(v) for k, v in pt.items() if k in meta["states"] or k == "t"}}


def make_cases(rng, tier, budget):
    cases = []
    for i in range(budget["models"]):
        cases.append(gen_case(random.Random(rng.getrandbits(64)), budget, False))
    for i in range(budget["malformed"]):
        cases.append(gen_case(random.Random(rng.getrandbits(64)), budget, True))
    return cases


def search_cases(rng, tier, budget):
    return [gen_case(random.Random(rng.getrandbits(64)), budget, i % 2 == 0) for i in range(3 * (budget["models"] + budget["malformed"]))]


# ----------------------------------------------------------------------------------------------
# rendering an op for the real code / for Lean
# ----------------------------------------------------------------------------------------------

def pyval(q, ints=False):
    f = Fraction(q)
    if ints and f.denominator == 1:
        return int(f)
    return float(f)


def pyname(ref):
    import sympy
    from pygom.model.ode_variable import ODEVariable
    kind, name = ref
    if kind == "str":
        return name
    if kind == "sym":
        return sympy.Symbol(name)
    return ODEVariable(name, name)


def to_python(op):
    k = op["k"]
    seq = list if op.get("seq", "list") == "list" else tuple
    if k == "none":
        return None
    if k == "nums":
        return seq(pyval(v, op.get("ints", False)) for v in op["vals"])
    if k == "arr":
        a = np.array([pyval(v) for v in op["flat"]], dtype=float)
        if op["shape"] == "col":
            a = a.reshape(len(op["flat"]), 1)
        elif op["shape"] == "row":
            a = a.reshape(1, len(op["flat"]))
        elif op["shape"] == "n2":
            a = a.reshape(op["len"], 2)
        return a
    if k == "pairs":
        return seq((pyname(r), pyval(v)) for r, v in op["ps"])
    if k == "seq_other":
        return seq("s%d" % i for i in range(op["len"]))
    if k == "dict":
        return {pyname(r): ("x" if v is None else pyval(v)) for r, v in op["es"]}
    if k == "scalar":
        return pyval(op["v"])
    if k == "other":
        return "abc"
    raise ValueError(k)


def to_lean(op):
    k = op["k"]
    if k in ("none", "other"):
        return {"k": k}
    if k == "nums":
        return {"k": "nums", "vals": op["vals"]}
    if k == "arr":
        return {"k": "arr", "len": op["len"], "flat": op["flat"]}
    if k == "pairs":
        return {"k": "pairs", "ps": op["ps"]}
    if k == "seq_other":
        return {"k": "seq_other", "len": op["len"]}
    if k == "dict":
        return {"k": "dict", "es": op["es"]}
    if k == "scalar":
        return {"k": "scalar", "v": op["v"]}
    raise ValueError(k)


def err_enum(exc):
    n, msg = type(exc).__name__, str(exc)
    if n == "AttributeError" and "size" in msg:
        return "bad_length_attr"
    if n == "InputError":
        if "number of input parameters" in msg:
            return "bad_length"
        if "does not exist" in msg:
            return "unknown_param"
        return "bad_type"
    if n == "Exception" and "Too many" in msg:
        return "too_many"
    if n == "Warning":
        return "none_input"
    if n == "ValueError" and "not in list" in msg:
        return "not_in_list"
    if n == "TypeError" and "unhashable" in msg:
        return "unhashable"
    if n == "IndexError":
        return "index_error"
    return "Other:" + n


# ----------------------------------------------------------------------------------------------
# the direct oracle's specification (independent of the Lean model; written from the property text)
# ----------------------------------------------------------------------------------------------

def oracle_step(params, cur, op):
    """-> (verdict, new): verdict 'accept' (an accepted input form: must not raise), 'reject' (malformed: must raise),
    'either' (the property does not say; `new` is the reading that applies if it is accepted).
    `cur`/`new`: None (nothing bound yet) or dict name -> Fraction."""
    n = len(params)
    k = op["k"]
    zeros = {p: Fraction(0) for p in params}
    if k == "nums":
        if len(op["vals"]) != n:
            return "reject", cur
        return "accept", dict(zip(params, map(Fraction, op["vals"])))
    if k == "arr":
        if len(op["flat"]) != n:
            return "reject", cur
        new = dict(zip(params, map(Fraction, op["flat"])))
        return ("accept" if op["shape"] == "1d" else "either"), new
    if k == "pairs":
        names = [r[1] for r, _ in op["ps"]]
        if any(nm not in params for nm in names) or len(names) != n:
            return "reject", cur
        new = dict(zeros)
        for (r, v) in op["ps"]:
            new[r[1]] = Fraction(v)
        if len(set(names)) != n:
            # a repeated name (the code keeps the last value and binds the names left out to 0: documented non-claim).
            # Not an accepted form and nothing is claimed: the names concerned become "don't care" (None)
            for nm in params:
                if names.count(nm) != 1:
                    new[nm] = None
            return "either", new
        if any(r[0] == "sym" for r, _ in op["ps"]):
            return "either", new                        # Symbol-named pairs: not claimed either way
        return "accept", new
    if k == "dict":
        names = [r[1] for r, _ in op["es"]]
        if len(names) > n or any(nm not in params for nm in names) or any(v is None for _, v in op["es"]):
            return "reject", cur
        new = dict(cur) if cur is not None else dict(zeros)   # never set: unmentioned names are 0 (documented non-claim)
        for (r, v) in op["es"]:
            new[r[1]] = Fraction(v) if names.count(r[1]) == 1 else None    # 'a' and Symbol('a') in one dict: don't care
        return ("accept" if len(set(names)) == len(names) else "either"), new
    if k == "scalar":
        if n == 1:
            return "either", {params[0]: Fraction(op["v"])}
        return "reject", cur
    if k == "none":
        return "either", cur
    return "reject", cur            # str, list of str


# ----------------------------------------------------------------------------------------------
# running
# ----------------------------------------------------------------------------------------------

def probe_atomic():
    """measure the setter variant on the tree under test (public getter and ode only)"""
    global _ATOMIC
    if _ATOMIC is not None:
        return _ATOMIC
    from pygom import SimulateOde, Transition, Event
    from .. import bootstrap

    def mk():
        m = SimulateOde(state=["x"], param=["p0", "p1"],
                        event=[Event(transition_list=[Transition(origin="x", transition_type="D")], rate="p0*x"),
                               Event(transition_list=[Transition(destination="x", transition_type="B")], rate="p1")])
        bootstrap.fast_backend(m)
        m.parameters = [1.0, 2.0]
        return m
    m = mk()
    try:
        m.parameters = {"p0": 7.0, "zz__": 1.0}
        leak = None
    except Exception:
        g = m.parameters
        leak = any(str(k) == "p0" and float(v) == 7.0 for k, v in (g or {}).items())
    m2 = mk()
    before = float(np.asarray(m2.ode([3.0], 0.0)).ravel()[0])
    try:
        m2.parameters = [("p0", 7.0), ("t", 8.0)]
        changed = None
    except Exception:
        changed = float(np.asarray(m2.ode([3.0], 0.0)).ravel()[0]) != before
    _ATOMIC = {"atomic": (leak is False and changed is False), "dict_leak": leak, "t_commit": changed}
    return _ATOMIC


def getter_map(model):
    g = model.parameters
    if g is None:
        return None, None
    m, keys = {}, []
    for k, v in g.items():
        m[str(k)] = v
        keys.append(["str" if isinstance(k, str) else "sym", str(k)])
    return m, keys


def evaluate(model, x, t):
    """('ok', ode, grad) or ('raise', ExceptionName, msg)"""
    try:
        f = np.asarray(model.ode(x, t), float).ravel()
        g = np.asarray(model.grad(x, t), float).ravel()
        return ("ok", f, g)
    except Exception as exc:
        return ("raise", type(exc).__name__, str(exc)[:120])


def same_eval(a, b):
    if a[0] != b[0]:
        return False
    if a[0] == "raise":
        return a[1] == b[1]
    return bool(np.array_equal(a[1], b[1]) and np.array_equal(a[2], b[2]))


def classify_wrong(name, actual, expected, idx, history, verdicts):
    """which value did the name get instead (for the violation signature)"""
    try:
        a = Fraction(actual).limit_denominator(10 ** 6) if actual is not None else None
    except Exception:
        return "non-numeric"
    if a is None:
        return "unknown"

    def supplied(op, nm):
        out = []
        if op["k"] == "pairs":
            out = [Fraction(v) for r, v in op["ps"] if r[1] == nm]
        elif op["k"] == "dict":
            out = [Fraction(v) for r, v in op["es"] if r[1] == nm and v is not None]
        return out
    for j in range(idx, -1, -1):
        if verdicts[j] == "rejected" and any(float(v) == float(a) for v in supplied(history[j], name)):
            return "value-from-rejected-%s" % history[j]["cls"]
    op = history[idx]
    others = []
    for key in ("vals", "flat"):
        others += [Fraction(v) for v in op.get(key, [])]
    others += [Fraction(v) for r, v in op.get("ps", [])] + [Fraction(v) for r, v in op.get("es", []) if v is not None]
    if a != expected and any(float(v) == float(a) for v in others):
        return "value-of-another-name"
    if a == 0:
        return "zero"
    return "stale-or-other"


def run_case(case):
    global _ATOMIC
    spec, meta, hist = case["spec"], case["meta"], case["history"]
    tags, mism, viol = [], [], []
    variant = probe_atomic()
    tags.append("setter_variant:" + ("atomic" if variant["atomic"] else "legacy(dict_leak=%s,t_commit=%s)" % (variant["dict_leak"], variant["t_commit"])))
    model = pymodel.build(spec, backend="lambda")
    ref = pymodel.build(spec, backend="lambda")
    params = [str(p) for p in model.param_list]
    states = [str(s) for s in model.state_list]
    if params != meta["params"] or states != meta["states"]:
        mism.append({"what": "names", "detail": "python %s %s generator %s %s" % (states, params, meta["states"], meta["params"])})
        return {"nontrivial": False, "mismatches": mism, "violations": viol, "tags": tags}
    n = len(params)
    tags.append("nP=%d" % n)
    tags.append("ops=%d" % len(hist))
    pt = {k: Fraction(v) for k, v in case["point"].items()}
    x = [float(pt[s]) for s in states]
    t = float(pt["t"])

    lean = leanio.driver().call({"op": "params", "names": params, "atomic": variant["atomic"], "history": [to_lean(o) for o in hist]})
    steps = lean["steps"]

    cur = None                 # the oracle's map
    verdicts = []
    prev_eval = evaluate(model, x, t)
    if prev_eval[0] != "raise":
        viol.append({"what": "a model whose parameters were never assigned evaluates", "signature": "fresh-model-evaluates", "detail": str(prev_eval)[:300]})
    nontrivial = False
    sample_steps = []
    for idx, op in enumerate(hist):
        ls = steps[idx]
        verdict, new = oracle_step(params, cur, op)
        pyobj = to_python(op)
        try:
            model.parameters = pyobj
            perr = None
        except BaseException as exc:       # the setter raises Warning for None
            perr = err_enum(exc)
        accepted = perr is None
        verdicts.append("accepted" if accepted else "rejected")
        tags.append("op:%s:%s" % (op["cls"], "accepted" if accepted else perr))
        where = "op#%d %s" % (idx, op["cls"])

        # ---- correspondence with the Lean model ------------------------------------------------
        lerr = ls["err"]
        if (lerr is None) != accepted:
            mism.append({"what": "accept/reject", "detail": "%s: lean=%s python=%s ; op=%s" % (where, lerr, perr, json.dumps(op))})
        elif lerr != perr:
            mism.append({"what": "error-kind", "detail": "%s: lean=%s python=%s ; op=%s" % (where, lerr, perr, json.dumps(op))})
        gmap, gkeys = getter_map(model)
        if (gmap is None) != (not ls["set"]):
            mism.append({"what": "parameters-getter:set/unset", "detail": "%s: python getter %s lean set=%s" % (where, gmap, ls["set"])})
        elif gmap is not None:
            try:
                bad = [(nm, gmap.get(nm, 0), q) for nm, q in zip(params, ls["abs"]) if float(gmap.get(nm, 0)) != float(Fraction(q))]
            except Exception as exc:
                bad = [("non-numeric", str(exc), "")]
            if bad:
                mism.append({"what": "parameters-getter:map", "detail": "%s: (name, python, lean abs) %s" % (where, bad[:4])})
            lkeys = [[a, b] for a, b, _ in (ls["dict"] or [])]
            if lkeys != gkeys:
                tags.append("recorded:dict_keys_differ")
        pv_py = getattr(model, "_paramValue", None)
        if pv_py is not None:
            try:
                if [float(v) for v in pv_py] != [float(Fraction(q)) for q in ls["pv"]]:
                    tags.append("recorded:_paramValue_differs")
            except Exception:
                tags.append("recorded:_paramValue_differs")
        now_eval = evaluate(model, x, t)
        if ls["set"]:
            env = dict(pt)
            env.update({nm: Fraction(q) for nm, q in zip(params, ls["pv"])})
            try:
                f_l = net_oracle(meta, spec, env)[0]
            except (E.Undefined, ZeroDivisionError):
                f_l = None
                tags.append("undefined_point")
            if now_eval[0] != "ok":
                mism.append({"what": "ode-vs-lean-paramValue", "detail": "%s: python raises %s, lean has the parameters set" % (where, now_eval[1:])})
            elif f_l is not None and not vec_close(now_eval[1], f_l):
                mism.append({"what": "ode-vs-lean-paramValue", "detail": "%s: ode=%s with lean _paramValue %s -> %s" % (
                    where, list(now_eval[1]), ls["pv"], [mpf_s(v) for v in f_l])})
        elif now_eval[0] == "ok":
            mism.append({"what": "ode-vs-lean-paramValue", "detail": "%s: python evaluates, lean has _parameters unset" % where})

        # ---- direct oracle (no Lean) -----------------------------------------------------------
        if verdict == "accept" and not accepted:
            viol.append({"what": "an accepted input form is rejected with %s" % perr, "signature": "valid-rejected:%s:%s" % (op["cls"], perr),
                         "detail": "%s op=%s history=%s" % (where, json.dumps(op), json.dumps(hist[:idx]))[:1800]})
        if verdict == "reject" and accepted:
            viol.append({"what": "malformed assignment accepted (bound silently)", "signature": "malformed-accepted:%s" % op["cls"],
                         "detail": "%s op=%s" % (where, json.dumps(op))})
        if accepted:
            cur = new
        if not accepted and not same_eval(prev_eval, now_eval):
            viol.append({"what": "evaluations change after a REJECTED assignment (%s)" % perr,
                         "signature": "eval-changed-after-rejected:%s" % op["cls"],
                         "detail": "%s op=%s ; before %s after %s ; _paramValue=%s" % (where, json.dumps(op), _ev_s(prev_eval), _ev_s(now_eval), pv_py)})
        elif cur is None:
            if now_eval[0] == "ok":
                viol.append({"what": "model evaluates although no assignment was ever accepted", "signature": "evaluates-unset:%s" % op["cls"],
                             "detail": "%s op=%s" % (where, json.dumps(op))})
        elif any(cur[p] is None for p in params):
            tags.append("oracle:dont_care_after_unclaimed_input")
        else:
            expected = [cur[p] for p in params]
            env = dict(pt)
            env.update(cur)
            try:
                f_o = net_oracle(meta, spec, env)[0]
            except (E.Undefined, ZeroDivisionError):
                f_o = None
            ref.parameters = [float(v) for v in expected]
            r_eval = evaluate(ref, x, t)
            wrong = None
            if now_eval[0] != "ok":
                wrong = "evaluation raises %s: %s" % (now_eval[1], now_eval[2])
            elif f_o is not None and not vec_close(now_eval[1], f_o):
                wrong = "ode(x,t)=%s but sum rate*net at the values given is %s" % (list(now_eval[1]), [mpf_s(v) for v in f_o])
            elif r_eval[0] == "ok" and not (vec_close(now_eval[1], r_eval[1]) and vec_close(now_eval[2], r_eval[2])):
                wrong = "ode/grad differ from a fresh model assigned the same values positionally: ode %s vs %s ; grad %s vs %s" % (
                    list(now_eval[1]), list(r_eval[1]), list(now_eval[2]), list(r_eval[2]))
            if wrong:
                cls = "unclassified"
                if pv_py is not None and len(pv_py) == n:
                    for nm, a, e in zip(params, pv_py, expected):
                        try:
                            differs = float(a) != float(e)
                        except Exception:
                            differs = True
                        if differs:
                            cls = classify_wrong(nm, a, e, idx, hist, verdicts)
                            break
                viol.append({"what": "after %s assignment `%s` the evaluations do not use the values given by name: %s" % (
                                "an accepted" if accepted else "a rejected", op["cls"], wrong),
                             "signature": "wrong-binding:%s:%s" % (op["cls"] if accepted else "after-rejected", cls),
                             "detail": "%s ; expected name->value %s ; _paramValue=%s ; history=%s" % (
                                 where, {k: str(v) for k, v in cur.items()}, pv_py, json.dumps(hist[:idx + 1]))[:2500]})
        if accepted and op["cls"] in ("pairs_perm", "dict_partial", "dict_full") and (op["cls"] != "dict_full" or [r[1] for r, _ in op["es"]] != params):
            nontrivial = True
        prev_eval = now_eval
        if len(sample_steps) < 8:
            sample_steps.append({"op": op["cls"], "python": perr or "ok", "lean": lerr or "ok", "abs": ls["abs"]})
        if viol or mism:
            break
    if case.get("malformed"):
        tags.append("stream:malformed")
    else:
        tags.append("stream:regular")
    return {"nontrivial": nontrivial, "mismatches": mism, "violations": viol, "tags": sorted(set(tags)),
            "sample": {"params": params, "steps": sample_steps}}


def _ev_s(e):
    if e[0] == "raise":
        return "raises %s" % e[1]
    return "ode=%s" % [round(float(v), 9) for v in e[1]]
