"""
C11 - declared state limits are never violated in stochastic simulation.

Proof: Pygom/Props/C11.lean (`checkJump_reject_unchanged`, `checkJump_accept_within`, `path_within_limits`,
`limits_default`, `stateLims_aligned`, and the counterexample for the limit list of the unrepaired tree).
Tie: C04's per-iteration replay through the Lean driver (accept/reject decision, branch, retry), the limit
list itself (`state_lims` op against `model._state_lims`), and a replay of every rejected step through the
public step functions `tauLeap` / `firstReaction` with the recorded variates.
Direct oracle (no Lean): min / max of the real raw and gridded arrays against the declared limits (lower
limit 0 for EVERY state that declares none, a range-style entry's limit for each of its states); a rejected
step returns the old state and time.

Events next to explicit ODE terms: `tauLeap` hands x + V.n + pure(x,t)*tau to `_checkJump` whatever the counts n are
(`tau_proposal_always_checked`, `tau_leap_success_iff`, `drift_only_leap_rejected`); the generator's drift models make leaps
with n = 0 whose drift alone crosses a bound happen, and every recorded row (raw and gridded) is judged as for any other model.

History and input form: `path_within_limits` is about one path as a pure function of (limits, configuration, x0, t0, draws);
the sessions of stoch_common.run_session probe on the real code that nothing else enters (earlier calls and configuration,
the form of x0 / t0 / the time argument, other instances), and every raw and gridded array of every call is judged.
"""
import random

import numpy as np

from .. import exprs as E
from .. import gen
from . import stoch_common as SC

PROP = "C11"
LEAN = {"module": "Pygom.Props.C11", "extra_modules": ["Pygom.Props.C11Grid"],
        "required": ["Pygom.C11.gridded_row_mem_path", "Pygom.C11.gridded_rows_within_limits", "Pygom.C11.path_within_limits_all",
                     "Pygom.C11.path_within_declared_limits", "Pygom.C11.checkJump_reject_unchanged", "Pygom.C11.checkJump_accept_within",
                     "Pygom.C11.path_within_limits", "Pygom.C11.limits_default", "Pygom.C11.stateLims_aligned",
                     "Pygom.C11.legacy_limits_counterexample", "Pygom.C11.tau_proposal_always_checked",
                     "Pygom.C11.tau_leap_success_iff", "Pygom.C11.drift_only_leap_rejected"]}
BUDGET = {"quick": {"models": 120, "sessions": 140, "drift": 90, "drift_sessions": 30},
          "thorough": {"models": 1000, "sessions": 800, "drift": 700, "drift_sessions": 250, "max_steps": 2000, "steps": [40, 150, 600, 1500], "session_steps": [40, 150, 600]}}
RULE = ("bounded-rate event models (shared generator, incl. range-style state names) with small integer populations (0-12), "
        "lower / upper / two-sided / absent / default limits per declared state, magnitudes 1-3, x {exact, adaptive tau with "
        "epsilon in {0.01..0.3}, large fixed tau (2-10 expected events per step)} x 2 paths, scalar horizon (float, int, numpy scalar, "
        "one-element list / tuple) or list / tuple / array grid of float or int dtype (also starting after t0, extending past extinction); "
        "the initial state handed over as int / int32 / float64 ndarray, list or tuple of ints or floats; plus SESSIONS on one instance "
        "(3-5 calls, exact and tau-leap, raw and gridded, pre_tau / epsilon left over, initial values re-assigned in another form or "
        "with other values inside the limits, parameters changed and restored, a deep copy of the configured instance taking over, a sibling instance (same or another definition and limits) simulated in between, first call repeated, last call "
        "repeated on a fresh instance, every returned array kept and compared again at the end, caller's arrays unchanged); "
        "side effects the pure model excludes but the property does not state (caller's objects or model.initial_state written to, a "
        "repeated call or a fresh instance not reproducing a call) are tags and broken correspondence, never violations; "
        "plus 90 models (thorough 700) and 30 sessions (250) that MIX events with explicit ODE terms: one state drifts (constant, "
        "linear in itself, driven by another state; dyadic coefficients) towards a declared lower / upper / two-sided limit (a bound "
        "exactly 0 written out or left to the default, lower bounds 1 / 2, upper-only), x0 0-6 units from the bound, slow events "
        "(constant birth, linear death / transition, now and then an event moving the drifting state too; rate*tau well below 1) "
        "under fixed tau in {1/4, 1/2, 1, 2}, adaptive tau or (10%) exact, so that leaps in which every event fires zero times "
        "occur and the drift alone would leave the limits (counted in the tags zero_event_leap_with_drift:*); "
        "a case is non-trivial when some path has >= 5 accepted steps; rejected tau-leaps, accepted retries and rejected "
        "first-reaction steps are counted in the tags")
ASSUMPTIONS = ["the initial state is within the declared limits (hypothesis of path_within_limits)",
               "gridded tau-leap rows are numpy's linear interpolation of raw states (convex combinations), checked by the direct oracle only",
               "rates stay non-negative: a state without a lower limit does not occur in any rate (generator)"]
TRUSTED = ["harness generator and tracer (numpy.random / evaluator / _jump wrappers)", "Lean driver JSON codec"]


def _forms(r, base, sim):
    nS = len(base["x0"])
    sim["x0_form"] = r.choice([f for f in SC.X0_FORMS if f != "scalar" or nS == 1])
    sim["t0_form"] = r.choice(["np_f64"] * 6 + ["np_i64", "np_i64", "np_f32", "np_f32"])


# ---- events NEXT TO explicit ODE terms: the drift alone carries a state to a declared bound -----------------------------------
# `tauLeap` proposes x + V.n + pure(x,t)*tau and hands it to `_checkJump`; in the Lean model (`Stoch.tauAttempt`) the proposal
# checked is the same sum, so `path_within_limits` covers a leap in which every event fires zero times and only the drift
# moves the state (`C11.drift_only_leap_rejected`).  These models make such leaps happen: slow events (rate*tau well below 1),
# a drift towards a lower / upper / two-sided limit (a bound exactly 0 written out or left to the default), x0 a few leaps away
# from the bound.  All coefficients and fixed leap sizes are dyadic, so x + pure*tau is exact in doubles.
DRIFT_FORMS = ["down_const", "down_const", "up_const", "up_const", "down_linear", "up_by_other", "down_by_other"]


def gen_drift_case(r):
    others = r.sample([s for s in gen.STATE_POOL if s != "W"], r.randint(1, 2))
    W = "W"
    decl = others + [W]
    r.shuffle(decl)
    S = others[0]
    form = r.choice(DRIFT_FORMS)
    k, b, g = "k", "b", "g"
    # slow events: a constant-rate birth (never switches off, so a path is not stopped by "all rates zero"), a linear death,
    # now and then a transition or an event that also moves W
    procs = [{"rate": E.var(b), "kind": "const", "transitions": [{"type": "B", "origin": None, "dest": S, "mag": E.num(1)}]}]
    if r.random() < 0.6:
        procs.append({"rate": E.mul(E.var(g), E.var(S)), "kind": "linear",
                      "transitions": [{"type": "D", "origin": S, "dest": None, "mag": E.num(r.choice([1, 1, 2]))}]})
    if len(others) == 2 and r.random() < 0.6:
        procs.append({"rate": E.mul(E.var(g), E.var(S)), "kind": "linear",
                      "transitions": [{"type": "T", "origin": S, "dest": others[1], "mag": E.num(1)}]})
    up = form.startswith("up")
    if r.random() < 0.3:
        # an event that moves W as well (against the drift or with it)
        procs.append({"rate": E.var(b), "kind": "const",
                      "transitions": [({"type": "B", "origin": None, "dest": W, "mag": E.num(r.choice([1, 2]))} if r.random() < 0.5 else
                                       {"type": "D", "origin": W, "dest": None, "mag": E.num(1)})]})
    r.shuffle(procs)
    w_in_rates = False                                   # no RATE depends on W: it may go without a lower limit
    expr = {"down_const": E.neg(E.var(k)), "up_const": E.var(k), "down_linear": E.neg(E.mul(E.var(k), E.var(W))),
            "up_by_other": E.mul(E.var(k), E.add(E.num(1), E.var(S))), "down_by_other": E.neg(E.mul(E.var(k), E.add(E.num(1), E.var(S))))}[form]
    odes = [{"state": W, "expr": expr}]
    if len(others) == 2 and r.random() < 0.25:
        odes.append({"state": others[1], "expr": E.var(k) if r.random() < 0.5 else E.neg(E.var(k))})
    # limits of W: the bound the drift runs into, written in every way the declaration allows
    if up:
        hi = r.choice([3, 5, 8, 12, 40])
        wlim = r.choice([(0, hi), (0, hi), (None, hi), (1, hi)])
        w0 = max(hi - r.choice([0, 1, 2, 3, 6]), (wlim[0] or 0))
    else:
        lo = r.choice([0, 0, 0, 1, 2])
        hi = lo + r.choice([6, 10, 40])
        wlim = r.choice([None, (0, None), (0, hi)]) if lo == 0 else r.choice([(lo, None), (lo, hi)])
        w0 = lo + r.choice([0, 1, 2, 3, 6])
    lims = []
    for n in decl:
        if n == W:
            lims.append(wlim)
        else:
            lims.append(r.choice([None, None, (0, None), (0, r.choice([5, 10, 30])), (0, None)]))
    abstract = {"decl_states": decl, "states": list(decl), "params": [b, g, k], "derived": [], "procs": procs, "odes": odes, "lims": lims}
    spec, meta = gen.make_spec(r, abstract, gen.ALL_ROUTES)
    x0 = []
    for n, l in zip(decl, lims):
        if n == W:
            x0.append(int(w0))
        else:
            top = l[1] if (l is not None and l[1] is not None) else 12
            x0.append(r.randint(0, min(6, top)))
    pv = {b: r.choice([0.03125, 0.0625, 0.125, 0.25]), g: r.choice([0.03125, 0.0625, 0.125]), k: r.choice([0.5, 1.0, 2.0, 3.0])}
    tot = SC.total_rate(spec, meta, x0, pv)
    if tot is None or tot <= 0:
        return None
    return {"spec": spec, "meta": meta, "x0": x0, "params": pv, "tot0": tot, "has_ode": True, "drift": form}


def drift_settings(r, base, mode):
    """slow events and a leap in which the drift moves W by 1/8 .. 6 units: most leaps fire no event at all"""
    t0 = r.choice([0.0, 0.0, 1.0, 2.5])
    T = t0 + r.choice([6.0, 10.0, 16.0])
    s = {"mode": mode, "t0": t0, "T": float(T), "np_seed": r.randrange(2 ** 31), "epsilon": None, "pre_tau": None}
    if mode == "tau_fixed":
        s["pre_tau"] = r.choice([0.25, 0.5, 1.0, 2.0])
    if mode != "exact" and r.random() < 0.5:
        s["epsilon"] = r.choice([0.03, 0.1, 0.3])
    return s


def drift_cases(rng, n, n_sessions, budget):
    cases = []
    while len(cases) < n:
        r = random.Random(rng.getrandbits(64))
        base = gen_drift_case(r)
        if base is None:
            continue
        c = dict(base)
        c["sim"] = drift_settings(r, base, gen.wchoice(r, [("tau_fixed", 5), ("tau_adaptive", 4), ("exact", 1)]))
        if r.random() < 0.4:
            c["sim"]["time"] = SC.gen_grid_time(r, c["sim"]["t0"], c["sim"]["T"], past=(1, 1, 1, 2))
        else:
            c["sim"]["time"] = SC.gen_scalar_time(r, c["sim"]["T"])
        c["sim"]["T"] = c["sim"]["time"]["values"][-1]
        _forms(r, base, c["sim"])
        c["max_steps"] = budget.get("max_steps", SC.MAX_STEPS)
        cases.append(c)
    k = 0
    while k < n_sessions:
        r = random.Random(rng.getrandbits(64))
        base = gen_drift_case(r)
        if base is None:
            continue
        c = dict(base)
        c["sim"] = drift_settings(r, base, r.choice(["tau_fixed", "tau_fixed", "tau_adaptive"]))
        _forms(r, base, c["sim"])
        c["session"] = SC.gen_session(r, base, c["sim"], lims=SC.declared_limits(base["spec"]), grid_share=0.4, exact_share=0.2)
        c["max_steps"] = budget.get("max_steps", SC.MAX_STEPS)
        cases.append(c)
        k += 1
    return cases


def make_cases(rng, tier, budget):
    cases = []
    while len(cases) < 3 * budget["models"]:
        r = random.Random(rng.getrandbits(64))
        base = SC.gen_sim_case(r, limits=True, max_x0=12)
        if base is None:
            continue
        for mode in ("exact", "tau_adaptive", "tau_fixed"):
            c = dict(base)
            c["sim"] = SC.sim_settings(r, base, mode, big_tau=True, steps=budget.get("steps"))
            if mode == "tau_adaptive" and c["sim"]["epsilon"] is None and r.random() < 0.5:
                c["sim"]["epsilon"] = r.choice([0.1, 0.3])
            if r.random() < 0.4:
                c["sim"]["time"] = SC.gen_grid_time(r, c["sim"]["t0"], c["sim"]["T"], past=(1, 1, 1, 2))
            else:
                c["sim"]["time"] = SC.gen_scalar_time(r, c["sim"]["T"])
            c["sim"]["T"] = c["sim"]["time"]["values"][-1]
            _forms(r, base, c["sim"])
            c["max_steps"] = budget.get("max_steps", SC.MAX_STEPS)
            cases.append(c)
    n = 0
    while n < budget.get("sessions", 0):
        r = random.Random(rng.getrandbits(64))
        base = SC.gen_sim_case(r, limits=True, max_x0=12)
        sib = SC.gen_sim_case(r, limits=True, max_x0=12)
        if base is None:
            continue
        c = dict(base)
        c["sim"] = SC.sim_settings(r, base, r.choice(["exact", "tau_adaptive", "tau_fixed"]), big_tau=True,
                                   steps=budget.get("session_steps", budget.get("steps")))
        _forms(r, base, c["sim"])
        c["session"] = SC.gen_session(r, base, c["sim"], lims=SC.declared_limits(base["spec"]), grid_share=0.4, exact_share=0.4, sibling_base=sib)
        c["max_steps"] = budget.get("max_steps", SC.MAX_STEPS)
        cases.append(c)
        n += 1
    cases += drift_cases(rng, budget.get("drift", 0), budget.get("drift_sessions", 0), budget)
    return cases


def search_cases(rng, tier, budget):
    return make_cases(rng, tier, {**budget, "models": budget["models"] * 3, "sessions": budget.get("sessions", 0) * 3,
                                  "drift": budget.get("drift", 0) * 3, "drift_sessions": budget.get("drift_sessions", 0) * 3})


def run_case(case):
    spec, meta = case["spec"], case["meta"]
    tags, mism, viol = [], [], []
    lims = SC.declared_limits(spec)
    nS, nE = len(meta["states"]), len(meta["procs"])
    has_range = any(":" in n for n, _ in SC.declared_entries(spec))
    decl = "range_style_decl" if has_range else "plain_decl"
    tags += ["nS=%d" % nS, "nE=%d" % nE, decl]
    for _, (lo, hi) in lims:
        tags.append("lim:%s" % ("none" if lo is None and hi is None else "upper" if lo is None else "lower" if hi is None else "two-sided"))
    if any(tr["mag"] != ["num", "1"] for p in meta["procs"] for tr in p["transitions"]): tags.append("magnitude>1")
    if case.get("drift"): tags += ["events+explicit-ode", "drift:" + case["drift"]]
    where = lambda i: decl
    S = {"lr": None, "accepted": 0, "rej_tau": 0, "retry_ok": 0, "rej_first": 0, "quiet": 0, "quiet_rej": 0}

    def judge(call, model):
        sim, exact, tr = call.sim, call.exact, call.tr
        tags.append("mode:" + sim["mode"]); tags.append("grid" if call.is_grid else "scalar_horizon")
        if sim.get("epsilon") is not None: tags.append("epsilon=%s" % sim["epsilon"])
        sl = getattr(model, "_state_lims", None)
        if S["lr"] is None:
            S["lr"] = SC.lean_lims(spec)
            if sl is not None and [list(l) for l in sl] != S["lr"]["lims"]:
                mism.append({"what": "state_lims", "detail": "python _state_lims %s lean %s (declaration %s)" % (sl, S["lr"]["lims"], spec["state"])})
            if [list(l) for _, l in lims] != S["lr"]["lims"] and not SC.LEGACY_STATE_LIMS:
                mism.append({"what": "state_lims:harness-vs-lean", "detail": "harness %s lean %s" % (lims, S["lr"]["lims"])})
        lr = S["lr"]
        if SC.within(lims, np.array(call.x0, float)):
            raise AssertionError("generator produced an initial state outside the limits")
        modek = sim["mode"].split("_")[0]
        gridded = call.is_grid
        post_crash = tr.error is not None and len(tr.jumps) == sim["iterations"] and gridded
        if post_crash:
            # every _jump call returned its raw path; the gridding of solve_stochast raised afterwards (C15's concern:
            # `_addJumpsBetweenTime` on a path without events).  The raw paths are judged here.
            tags.append("gridding_raised:%s" % type(tr.error).__name__)
            tr.result = ([j["X"] for j in tr.jumps], [j["J"] for j in tr.jumps], [j["T"] for j in tr.jumps])
            gridded = False
        if tr.error is not None and not post_crash and SC.unbounded_adaptive_tau(tr, sim):
            # the recorded C04 defect (the run does not return); no recorded state left its limits unless judged below
            states = [e[2] for e in tr.log if e[0] == "fn"]
            if not any(SC.within(lims, s) for s in states):
                tags.append("raised:unbounded-adaptive-tau(C04 finding)")
                return False
        if tr.error is not None and not post_crash:
            # a crash: look at the states the loop was in (recorded evaluator arguments) before judging
            states = [e[2] for e in tr.log if e[0] == "fn"]
            bad = [SC.within(lims, s) for s in states]
            bad = [b for b in bad if b]
            if bad:
                i, name, v, kind, lim = bad[0][0]
                viol.append({"what": "state %s its declared limit during the run (then solve_stochast raised %s)" % (kind, type(tr.error).__name__),
                             "signature": "C11:%s:%s:trace:%s" % (kind, modek, decl),
                             "detail": "state %s (index %d) = %r, limit %s; x0=%s declaration=%s _state_lims=%s" % (name, i, v, lim, call.x0, spec["state"], sl)})
            else:
                viol.append({"what": "solve_stochast raised %s: %s" % (type(tr.error).__name__, str(tr.error)[:200]),
                             "signature": "C11:raise:%s:%s:%s" % (type(tr.error).__name__, modek, decl),
                             "detail": "x0=%s (%s) time=%s op %d" % (call.x0, sim["x0_form"], call.ts, call.index)})
            tags.append("raised")
            return False
        Xs, Js, Ts = tr.result
        for p in range(len(Xs)):
            jr = tr.jumps[p]
            if jr["J"].ndim == 1:
                jr["J"] = jr["J"].reshape(0, nE)
            its = SC.segment(tr.log[jr["log"][0]:jr["log"][1]], exact)
            try:
                st = SC.tie_steps(model, call.case, jr, its, lr["lims"], mism, tags)
            except (KeyError, IndexError, ValueError) as exc:
                mism.append({"what": "trace:unparsed", "detail": "%s: %s" % (type(exc).__name__, exc)})
                st = {"stop": None, "rejected_tau": 0, "retries_ok": 0}
            S["rej_tau"] += st["rejected_tau"]; S["retry_ok"] += st["retries_ok"]; S["rej_first"] += (st["stop"] == "rejected")
            if not exact:
                # leaps in which every event fired zero times while the explicit ODE terms moved the state (accepted / rejected)
                for it in its:
                    if it.get("complete") and it.get("pois") and not any(v for _, v in it["pois"]) and np.any(np.ravel(it.get("pure", 0.0))):
                        S["quiet_rej" if it.get("retry") else "quiet"] += 1
            arrays = [("raw states", jr["X"])]
            arrays.append(("gridded states" if gridded else "returned states", np.array(Xs[p], float)))
            n_before = len(viol)
            SC.oracle_c11(lims, arrays, viol, modek, where, slack=1e-9 if (gridded and not exact) else 0.0)
            for vv in viol[n_before:]:
                vv["detail"] += " [call at op %d, path %d, x0 %s handed over as %s, time %s]" % (call.index, p, call.x0, sim["x0_form"], call.ts["kind"])
            S["accepted"] = max(S["accepted"], len(jr["T"]) - 1)
            if jr["truncated"]: tags.append("truncated")
            # rejected steps: same (x, t) afterwards, and the public step functions return the old state and time
            try:
                check_rejections(model, its, jr, exact, sl, viol, mism, modek, lims)
            except (KeyError, IndexError, ValueError) as exc:
                mism.append({"what": "trace:unparsed", "detail": "rejections: %s: %s" % (type(exc).__name__, exc)})
        return True

    SC.run_session(case, judge, "C11", tags, mism, viol, max_steps=case.get("max_steps", SC.MAX_STEPS))
    n_rej = S["rej_tau"] + S["rej_first"]
    if S["rej_tau"]: tags.append("tau_rejected")
    if S["retry_ok"]: tags.append("retry_accepted")
    if S["rej_first"]: tags.append("first_reaction_rejected")
    if S["quiet"]: tags.append("zero_event_leap_with_drift:accepted")
    if S["quiet_rej"]: tags.append("zero_event_leap_with_drift:rejected(the drift alone leaves the limits)")
    tags.append("rejections=%s" % ("0" if n_rej == 0 else "1-5" if n_rej <= 5 else ">5"))
    return {"nontrivial": S["accepted"] >= 5, "mismatches": mism, "violations": viol, "tags": tags,
            "sample": {"spec": spec, "x0": case["x0"], "params": case["params"], "sim": case["sim"], "session": case.get("session"),
                       "accepted_steps": S["accepted"], "rejected_tau": S["rej_tau"], "retries_accepted": S["retry_ok"],
                       "first_reaction_rejected": S["rej_first"], "zero_event_leaps_with_drift": S["quiet"],
                       "zero_event_leaps_rejected_for_drift": S["quiet_rej"]}}


def check_rejections(model, its, jr, exact, sl, viol, mism, modek, lims=None, max_replays=6):
    """direct oracle for 'a step that would leave the limits is not taken and leaves state and time unchanged'"""
    if sl is None:
        return
    X, T = jr["X"], jr["T"]
    nrec = len(T) - 1
    done = 0
    for k, it in enumerate(its):
        if not it.get("complete") or done >= max_replays:
            continue
        x, t = it["x"], it["t"]
        if it["retry"] and len(it["pois"]) == len(np.ravel(it["rates"])) and not np.all(np.ravel(it["rates"]) == 0):
            # the tau-leap of this iteration was rejected; replay it through the public function
            done += 1
            const = lambda v: (lambda *_a, **_k: v)
            V = np.asarray(it["V"], float).reshape(len(x), -1)
            args = (x.copy(), sl, t, const(V), np.asarray(model._lambdaMat), const(np.ravel(it["rates"])),
                    const(np.ravel(it.get("mu", np.zeros(0)))), const(np.ravel(it.get("sigma2", np.zeros(0)))),
                    const(np.ravel(it["pure"])))
            out = SC.replay_function("tauLeap", args, {"epsilon": model._epsilon, "seed": None, "pre_tau": model.pre_tau},
                                     pois=[v for _, v in it["pois"]])
            prop = None
            if not np.any(np.ravel(it["pure"])):
                prop = x + V.dot(np.array([v for _, v in it["pois"]], float))    # the proposed state, computed here
            judge_rejected(out, x, t, "tauLeap", viol, modek, prop, lims)
        if k == nrec and k == len(its) - 1 and it["expo"] and not np.all(np.ravel(it["rates"]) == 0):
            # the loop was left by a rejected first-reaction step
            done += 1
            const = lambda v: (lambda *_a, **_k: v)
            V = np.asarray(it.get("retry_V", it["V"]), float).reshape(len(x), -1)
            out = SC.replay_function("firstReaction", (x.copy(), sl, t, const(V), const(np.ravel(it["rates"]))),
                                     expo=[v for _, v in it["expo"]])
            rates = np.ravel(it["rates"]); pos = [j for j, r in enumerate(rates) if r > 0]
            times = [v for _, v in it["expo"]]
            prop = x + V[:, pos[int(np.argmin(times))]] if len(times) == len(pos) and pos else None
            judge_rejected(out, x, t, "firstReaction", viol, modek, prop, lims)


def judge_rejected(out, x, t, fname, viol, modek, prop=None, lims=None):
    if not (isinstance(out, tuple) and len(out) == 5):
        viol.append({"what": "%s did not return (t, dt, x, jumps, success) for a rejected step" % fname,
                     "signature": "C11:rejected-return-shape:%s" % fname, "detail": repr(out)[:300]})
        return
    t_new, dt, x_new, jumps, success = out
    if success:
        return  # the replay was accepted: not a rejected step after all (the tie reports the disagreement)
    if prop is not None and lims is not None and not SC.within(lims, prop):
        viol.append({"what": "a step that stays within the declared limits was rejected (%s)" % fname,
                     "signature": "C11:legal-step-rejected:%s:%s" % (fname, modek),
                     "detail": "x=%s proposed %s limits %s" % (x.tolist(), np.asarray(prop).tolist(), [l for _, l in lims])})
    if not (np.array_equal(np.asarray(x_new, float), x) and float(t_new) == float(t)):
        viol.append({"what": "a rejected step does not leave state and time unchanged (%s)" % fname,
                     "signature": "C11:rejected-changes-state:%s:%s" % (fname, modek),
                     "detail": "x=%s t=%r -> returned x=%s t=%r success=%s" % (x.tolist(), t, np.asarray(x_new).tolist(), float(t_new), success)})
