"""
C11 - declared state limits are never violated in stochastic simulation.

Proof: Pygom/Props/C11.lean (`checkJump_reject_unchanged`, `checkJump_accept_within`, `path_within_limits`,
`limits_default`, `stateLims_aligned`, and the counterexample for the limit list of the unrepaired tree).
Tie: C04's per-iteration replay through the Lean driver (accept/reject decision, branch, retry), the limit
list itself (`state_lims` op against `model._state_lims`), and a replay of every rejected step through the
public step functions `tauLeap` / `firstReaction` with the recorded variates.
Direct oracle (no Lean): min / max of the real raw and gridded arrays against the declared limits (lower
limit 0 for EVERY state that declares none, a range-style entry's limit for each of its states); a rejected
step returns the old state and time.
"""
import random

import numpy as np

from .. import gen
from . import stoch_common as SC

PROP = "C11"
LEAN = {"module": "Pygom.Props.C11",
        "required": ["Pygom.C11.checkJump_reject_unchanged", "Pygom.C11.checkJump_accept_within",
                     "Pygom.C11.path_within_limits", "Pygom.C11.limits_default", "Pygom.C11.stateLims_aligned",
                     "Pygom.C11.legacy_limits_counterexample"]}
BUDGET = {"quick": {"models": 120}, "thorough": {"models": 1000, "max_steps": 2000, "steps": [40, 150, 600, 1500]}}
RULE = ("bounded-rate event models (shared generator, incl. range-style state names) with small integer populations (0-12), "
        "lower / upper / two-sided / absent / default limits per declared state, magnitudes 1-3, x {exact, adaptive tau with "
        "epsilon in {0.01..0.3}, large fixed tau (2-10 expected events per step)} x 2 paths, scalar horizon or list/tuple/array grid; "
        "a case is non-trivial when some path has >= 5 accepted steps; rejected tau-leaps, accepted retries and rejected "
        "first-reaction steps are counted in the tags")
ASSUMPTIONS = ["the initial state is within the declared limits (hypothesis of path_within_limits)",
               "gridded tau-leap rows are numpy's linear interpolation of raw states (convex combinations), checked by the direct oracle only",
               "rates stay non-negative: a state without a lower limit does not occur in any rate (generator)"]
TRUSTED = ["harness generator and tracer (numpy.random / evaluator / _jump wrappers)", "Lean driver JSON codec"]


def make_cases(rng, tier, budget):
    cases = []
    while len(cases) < 3 * budget["models"]:
        r = random.Random(rng.getrandbits(64))
        base = SC.gen_sim_case(r, limits=True, max_x0=12)
        if base is None:
            continue
        for mode in ("exact", "tau_adaptive", "tau_fixed"):
            c = dict(base)
            c["sim"] = SC.sim_settings(r, base, mode, big_tau=True, steps=budget.get("steps"))
            if mode == "tau_adaptive" and c["sim"]["epsilon"] is None and r.random() < 0.5:
                c["sim"]["epsilon"] = r.choice([0.1, 0.3])
            if r.random() < 0.4:
                n = r.randint(2, 8)
                t0, T = c["sim"]["t0"], c["sim"]["T"]
                c["sim"]["grid"] = [t0 + (T - t0) * k / (n - 1) for k in range(n)]
                c["sim"]["grid_kind"] = r.choice(["list", "tuple", "array"])
            c["max_steps"] = budget.get("max_steps", SC.MAX_STEPS)
            cases.append(c)
    return cases


def search_cases(rng, tier, budget):
    return make_cases(rng, tier, {"models": budget["models"] * 3, **{k: v for k, v in budget.items() if k != "models"}})


def time_arg(sim):
    if sim.get("grid"):
        g = sim["grid"]
        return {"list": list(g), "tuple": tuple(g), "array": np.array(g, float)}[sim["grid_kind"]]
    return sim["T"]


def run_case(case):
    spec, meta, sim = case["spec"], case["meta"], case["sim"]
    tags, mism, viol = [], [], []
    exact = sim["mode"] == "exact"
    model = SC.build_model(case)
    lims = SC.declared_limits(spec)
    nS, nE = len(meta["states"]), len(meta["procs"])
    has_range = any(":" in n for n, _ in SC.declared_entries(spec))
    decl = "range_style_decl" if has_range else "plain_decl"
    tags += ["mode:" + sim["mode"], "nS=%d" % nS, "nE=%d" % nE, decl, "grid" if sim.get("grid") else "scalar_horizon"]
    for _, (lo, hi) in lims:
        tags.append("lim:%s" % ("none" if lo is None and hi is None else "upper" if lo is None else "lower" if hi is None else "two-sided"))
    if any(tr["mag"] != ["num", "1"] for p in meta["procs"] for tr in p["transitions"]): tags.append("magnitude>1")
    if sim.get("epsilon") is not None: tags.append("epsilon=%s" % sim["epsilon"])

    lr = SC.lean_lims(spec)
    sl = getattr(model, "_state_lims", None)
    if sl is not None and [list(l) for l in sl] != lr["lims"]:
        mism.append({"what": "state_lims", "detail": "python _state_lims %s lean %s (declaration %s)" % (sl, lr["lims"], spec["state"])})
    if [list(l) for _, l in lims] != lr["lims"] and not SC.LEGACY_STATE_LIMS:
        mism.append({"what": "state_lims:harness-vs-lean", "detail": "harness %s lean %s" % (lims, lr["lims"])})
    x0 = np.array(case["x0"], float)
    if SC.within(lims, x0):
        raise AssertionError("generator produced an initial state outside the limits")

    tr = SC.traced_run(model, time_arg(sim), exact, sim["np_seed"], iterations=2, max_steps=case.get("max_steps", SC.MAX_STEPS))
    modek = sim["mode"].split("_")[0]
    where = lambda i: decl
    post_crash = tr.error is not None and len(tr.jumps) == 2 and sim.get("grid")
    if post_crash:
        # every _jump call returned its raw path; the gridding of solve_stochast raised afterwards (C15's concern:
        # `_addJumpsBetweenTime` on a path without events).  The raw paths are judged here.
        tags.append("gridding_raised:%s" % type(tr.error).__name__)
        tr.result = ([j["X"] for j in tr.jumps], [j["J"] for j in tr.jumps], [j["T"] for j in tr.jumps])
        sim = dict(sim); sim["grid"] = None
    if tr.error is not None and not post_crash and SC.unbounded_adaptive_tau(tr, sim):
        # the recorded C04 defect (the run does not return); no recorded state left its limits unless judged below
        states = [e[2] for e in tr.log if e[0] == "fn"]
        if not any(SC.within(lims, s) for s in states):
            return {"nontrivial": False, "mismatches": mism, "violations": viol, "tags": tags + ["raised:unbounded-adaptive-tau(C04 finding)"]}
    if tr.error is not None and not post_crash:
        # a crash: look at the states the loop was in (recorded evaluator arguments) before judging
        states = [e[2] for e in tr.log if e[0] == "fn"]
        bad = [SC.within(lims, s) for s in states]
        bad = [b for b in bad if b]
        if bad:
            i, name, v, kind, lim = bad[0][0]
            viol.append({"what": "state %s its declared limit during the run (then solve_stochast raised %s)" % (kind, type(tr.error).__name__),
                         "signature": "C11:%s:%s:trace:%s" % (kind, modek, decl),
                         "detail": "state %s (index %d) = %r, limit %s; x0=%s declaration=%s _state_lims=%s" % (name, i, v, lim, case["x0"], spec["state"], sl)})
        else:
            viol.append({"what": "solve_stochast raised %s: %s" % (type(tr.error).__name__, str(tr.error)[:200]),
                         "signature": "C11:raise:%s:%s:%s" % (type(tr.error).__name__, modek, decl), "detail": "x0=%s" % case["x0"]})
        return {"nontrivial": False, "mismatches": mism, "violations": viol, "tags": tags + ["raised"]}

    Xs, Js, Ts = tr.result
    accepted = 0
    n_rej_tau = n_retry_ok = n_rej_first = 0
    for p in range(len(Xs)):
        jr = tr.jumps[p]
        if jr["J"].ndim == 1:
            jr["J"] = jr["J"].reshape(0, nE)
        its = SC.segment(tr.log[jr["log"][0]:jr["log"][1]], exact)
        st = SC.tie_steps(model, case, jr, its, lr["lims"], mism, tags)
        n_rej_tau += st["rejected_tau"]; n_retry_ok += st["retries_ok"]; n_rej_first += (st["stop"] == "rejected")
        arrays = [("raw states", jr["X"])]
        if sim.get("grid"):
            arrays.append(("gridded states", np.array(Xs[p], float)))
        else:
            arrays.append(("returned states", np.array(Xs[p], float)))
        SC.oracle_c11(lims, arrays, viol, modek, where, slack=1e-9 if (sim.get("grid") and not exact) else 0.0)
        accepted = max(accepted, len(jr["T"]) - 1)
        if jr["truncated"]: tags.append("truncated")
        # rejected steps: same (x, t) afterwards, and the public step functions return the old state and time
        check_rejections(model, its, jr, exact, sl, viol, mism, modek, lims)
    if n_rej_tau: tags.append("tau_rejected")
    if n_retry_ok: tags.append("retry_accepted")
    if n_rej_first: tags.append("first_reaction_rejected")
    tags.append("rejections=%s" % ("0" if n_rej_tau + n_rej_first == 0 else "1-5" if n_rej_tau + n_rej_first <= 5 else ">5"))
    return {"nontrivial": accepted >= 5, "mismatches": mism, "violations": viol, "tags": tags,
            "sample": {"spec": spec, "x0": case["x0"], "params": case["params"], "sim": sim, "accepted_steps": accepted,
                       "rejected_tau": n_rej_tau, "retries_accepted": n_retry_ok, "first_reaction_rejected": n_rej_first}}


def check_rejections(model, its, jr, exact, sl, viol, mism, modek, lims=None, max_replays=6):
    """direct oracle for 'a step that would leave the limits is not taken and leaves state and time unchanged'"""
    if sl is None:
        return
    X, T = jr["X"], jr["T"]
    nrec = len(T) - 1
    done = 0
    for k, it in enumerate(its):
        if not it.get("complete") or done >= max_replays:
            continue
        x, t = it["x"], it["t"]
        if it["retry"] and len(it["pois"]) == len(np.ravel(it["rates"])) and not np.all(np.ravel(it["rates"]) == 0):
            # the tau-leap of this iteration was rejected; replay it through the public function
            done += 1
            const = lambda v: (lambda *_a, **_k: v)
            V = np.asarray(it["V"], float).reshape(len(x), -1)
            args = (x.copy(), sl, t, const(V), np.asarray(model._lambdaMat), const(np.ravel(it["rates"])),
                    const(np.ravel(it.get("mu", np.zeros(0)))), const(np.ravel(it.get("sigma2", np.zeros(0)))),
                    const(np.ravel(it["pure"])))
            out = SC.replay_function("tauLeap", args, {"epsilon": model._epsilon, "seed": None, "pre_tau": model.pre_tau},
                                     pois=[v for _, v in it["pois"]])
            prop = None
            if not np.any(np.ravel(it["pure"])):
                prop = x + V.dot(np.array([v for _, v in it["pois"]], float))    # the proposed state, computed here
            judge_rejected(out, x, t, "tauLeap", viol, modek, prop, lims)
        if k == nrec and k == len(its) - 1 and it["expo"] and not np.all(np.ravel(it["rates"]) == 0):
            # the loop was left by a rejected first-reaction step
            done += 1
            const = lambda v: (lambda *_a, **_k: v)
            V = np.asarray(it.get("retry_V", it["V"]), float).reshape(len(x), -1)
            out = SC.replay_function("firstReaction", (x.copy(), sl, t, const(V), const(np.ravel(it["rates"]))),
                                     expo=[v for _, v in it["expo"]])
            rates = np.ravel(it["rates"]); pos = [j for j, r in enumerate(rates) if r > 0]
            times = [v for _, v in it["expo"]]
            prop = x + V[:, pos[int(np.argmin(times))]] if len(times) == len(pos) and pos else None
            judge_rejected(out, x, t, "firstReaction", viol, modek, prop, lims)


def judge_rejected(out, x, t, fname, viol, modek, prop=None, lims=None):
    if not (isinstance(out, tuple) and len(out) == 5):
        viol.append({"what": "%s did not return (t, dt, x, jumps, success) for a rejected step" % fname,
                     "signature": "C11:rejected-return-shape:%s" % fname, "detail": repr(out)[:300]})
        return
    t_new, dt, x_new, jumps, success = out
    if success:
        return  # the replay was accepted: not a rejected step after all (the tie reports the disagreement)
    if prop is not None and lims is not None and not SC.within(lims, prop):
        viol.append({"what": "a step that stays within the declared limits was rejected (%s)" % fname,
                     "signature": "C11:legal-step-rejected:%s:%s" % (fname, modek),
                     "detail": "x=%s proposed %s limits %s" % (x.tolist(), np.asarray(prop).tolist(), [l for _, l in lims])})
    if not (np.array_equal(np.asarray(x_new, float), x) and float(t_new) == float(t)):
        viol.append({"what": "a rejected step does not leave state and time unchanged (%s)" % fname,
                     "signature": "C11:rejected-changes-state:%s:%s" % (fname, modek),
                     "detail": "x=%s t=%r -> returned x=%s t=%r success=%s" % (x.tolist(), t, np.asarray(x_new).tolist(), float(t_new), success)})
