"""
C10 - closed compartmental models conserve the total population.

Lean: ode_sum_zero / vmat_col_sum_zero (any field, symbolic magnitudes), flow_sum_const (calculus),
path_sum_const (induction over steps).  Tie: C01's correspondence covers the assembly; here the real paths
are replayed through the driver's `apply_counts` (the function the path theorem is about).  Direct oracle:
the property itself on the real objects (exact-point sum of get_ode_eqn(), integrate(t).sum(axis=1),
solve_stochast paths .sum(axis=1)).
"""
import contextlib
import io
import json
import random
from fractions import Fraction

import numpy as np

from .. import exprs as E
from .. import gen, leanio, pymodel
from ..runner import CaseTimeout, time_limit
from .common import build_both, compare_errors, fl, mpf, mpf_s, net_oracle
from . import stoch_common as SC

PROP = "C10"
LEAN = {"module": "Pygom.Props.C10", "extra_modules": ["Pygom.Props.C10Link"],
        "required": ["Pygom.C10Link.stoch_path_sum_const", "Pygom.C10Link.stoch_path_sum_const_int",
                     "Pygom.C10Link.stoch_path_eq_c10_path", "Pygom.C10Link.stoch_path_sum_const_via_c10",
                     "Pygom.C10Link.stoch_path_sum_const_model",
                     "Pygom.C10.ode_sum_zero", "Pygom.C10.vmat_col_sum_zero", "Pygom.C10.flow_sum_const",
                     "Pygom.C10.step_sum_const", "Pygom.C10.path_sum_const"]}
BUDGET = {"quick": {"models": 90, "runs": 2, "long": 24}, "thorough": {"models": 1500, "runs": 4, "long": 240}}
RULE = ("transition-only models (2-5 states, 1-5 events of 1-3 T transitions, all rate kinds incl. time-periodic; a third with symbolic "
        "magnitudes (ODE part only), the rest integer magnitudes 1-3 also simulated in a session of six calls on the one instance, in "
        "random order: {exact, adaptive tau, fixed tau} x {raw, gridded}, 2-4 paths each; before each call the initial state is "
        "re-assigned as int / int32 / float64 ndarray, list or tuple of ints or floats (integer forms preferred for gridded tau-leap), "
        "t0 as numpy float64 / int64 / float32, the time argument as float / int / numpy scalar / one-element list or tuple, or a "
        "list / tuple / array grid of float or int dtype (some starting after t0, some extending 10x past the horizon); a third of the "
        "calls on a population scaled by 20; exact calls keep whatever pre_tau the previous call left; with and without full_output; "
        "row sums of every returned array are taken after the call AND again after all later calls; the caller's arrays and "
        "model.initial_state are compared with the harness's own copies (a side effect there is a tag and a broken correspondence, "
        "not a violation: C10 states totals); "
        "non-trivial = at least one event fired in some path or a non-zero ODE component.  ROUND D, `long` cases (deterministic part): closed "
        "SEIRS / SIRS / two-strain / seasonally forced SEIRS models with waning immunity, 1e5-1e7 heads, beta 1-3, gamma 0.3-0.6, waning "
        "0.005-0.02 per day, observed yearly for 3-6 years / once after two years and then every 10 days / at 3-5 irregular days in "
        "[200, 2500]; x0 as float list / int list / array, the grid as array / list; integrate(t) and integrate(t, full_output=True) are "
        "both judged by the row sums (1e-6 of the head count), whatever message odeint reports; an independent step count (scipy odeint on "
        "model.ode, mxstep 200000) tags the work per gap and excludes cases needing more than 5000 steps in one gap (half the documented "
        "mxstep = 10000); non-trivial = some gap needs more than 500 steps (LSODA's own default limit)")
ASSUMPTIONS = ["deterministic conservation is checked to 1e-6 relative (scipy odeint tolerance assumed)",
               "gridded tau-leap rows are float interpolations of integer records, column by column: their sum is compared to 1e-9 relative "
               "(rounding of the interpolation is ~1e-16); raw paths and gridded exact rows are compared exactly",
               "numpy's generator only supplies the draws; conservation must hold for every draw list (proved)"]
TRUSTED = ["harness generator / interpreter", "Lean driver JSON codec"]


def make_cases(rng, tier, budget):
    cases = []
    for i in range(budget["models"]):
        r = random.Random(rng.getrandbits(64))
        sym = (i % 3 == 0)
        spec, meta = gen.gen_model(r, min_states=2, min_events=1, types=(("T", 1),), allow_ode=False, sym_mag=sym,
                                   allow_range=True)
        pt = gen.rand_point(r, meta)
        x0 = [r.randint(0, 25) for _ in meta["states"]]
        if sum(x0) < 5:
            x0[0] += 8
        theta = {p: Fraction(r.randint(1, 20), 20) for p in meta["params"]}
        cases.append({"spec": spec, "meta": meta, "point": {k: str(v) for k, v in pt.items()}, "sym": sym, "x0": x0,
                      "theta": {k: str(v) for k, v in theta.items()}, "seed": r.randint(0, 2 ** 31 - 1),
                      "runs": budget["runs"], "pre_tau": r.choice([None, None, 0.05, 0.3]), "float_x0": r.random() < 0.5})
    shift = rng.randrange(12)                      # drawn after everything above: the earlier cases are the same as before
    for i in range(budget.get("long", 0)):
        cases.append(_long_case(random.Random(rng.getrandbits(64)), i + shift))
    return cases


def search_cases(rng, tier, budget):
    return make_cases(rng, tier, {"models": budget["models"] * 3, "runs": budget["runs"], "long": budget.get("long", 0) * 2})


# ---- ROUND D: long, sparsely sampled horizons on closed oscillatory models with head-count populations ------------------
LONG_MODELS = ("SEIRS", "SIRS", "two-strain", "SEIRS-seasonal")


def _long_spec(name):
    V, M, D, N_ = E.var, E.mul, E.div, E.num
    def ev(rate, o, d):
        return {"rate": rate, "transitions": [gen.transition_json({"type": "T", "origin": o, "dest": d, "mag": N_(1)})]}
    tot = lambda sts: (lambda acc: acc)(__import__("functools").reduce(E.add, [V(x) for x in sts]))
    if name in ("SEIRS", "SEIRS-seasonal"):
        states, params = ["S", "E", "I", "R"], ["beta", "sigma", "gamma", "delta"] + (["a"] if name == "SEIRS-seasonal" else [])
        foi = D(M(M(V("beta"), V("S")), V("I")), tot(states))
        if name == "SEIRS-seasonal":      # beta (1 + a cos(2 pi t / 365))
            foi = M(E.add(N_(1), M(V("a"), E.fn("cos", D(M(M(N_(2), E.PI), V("t")), N_(365))))), foi)
        events = [ev(foi, "S", "E"), ev(M(V("sigma"), V("E")), "E", "I"), ev(M(V("gamma"), V("I")), "I", "R"), ev(M(V("delta"), V("R")), "R", "S")]
    elif name == "SIRS":
        states, params = ["S", "I", "R"], ["beta", "gamma", "delta"]
        events = [ev(D(M(M(V("beta"), V("S")), V("I")), tot(states)), "S", "I"), ev(M(V("gamma"), V("I")), "I", "R"), ev(M(V("delta"), V("R")), "R", "S")]
    else:                                 # two strains, one recovered class, waning immunity
        states, params = ["S", "A", "B", "R"], ["beta", "kappa", "gamma", "delta"]
        events = [ev(D(M(M(V("beta"), V("S")), V("A")), tot(states)), "S", "A"), ev(D(M(M(V("kappa"), V("S")), V("B")), tot(states)), "S", "B"),
                  ev(M(V("gamma"), V("A")), "A", "R"), ev(M(V("gamma"), V("B")), "B", "R"), ev(M(V("delta"), V("R")), "R", "S")]
    spec = {"state": {"list": states}, "param": {"list": params}, "derived": [],
            "ctor": {"event": events, "transition": [], "birth_death": [], "ode": []}, "then": []}
    return spec, states, params


def _long_case(r, i):
    """a CLOSED model whose solution oscillates for years (recurrent epidemics damped by waning immunity, or seasonally forced), a
    population of 1e5-1e7 HEADS, observed a few times only - yearly, or once after a long gap and then densely, or irregularly: each
    gap between requested times costs the integrator hundreds to thousands of internal steps (seeded C10-d1: without mxstep odeint
    gives up after 500 steps per gap, warns, and returns uninitialised rows)."""
    name = LONG_MODELS[i % len(LONG_MODELS)]
    spec, states, params = _long_spec(name)
    Ntot = r.choice([10 ** 5, 10 ** 6, 10 ** 7])
    inf = r.randint(1, 20)
    x0 = [0] * len(states)
    if name == "two-strain":
        x0[1], x0[2] = inf, r.randint(1, 20)
    else:
        x0[states.index("I")] = inf
    x0[0] = Ntot - sum(x0)
    th = {"beta": round(r.uniform(1.0, 3.0), 3), "gamma": round(r.uniform(0.3, 0.6), 3), "delta": round(r.uniform(0.005, 0.02), 4)}
    if "sigma" in params: th["sigma"] = round(r.uniform(0.3, 0.6), 3)
    if "kappa" in params: th["kappa"] = round(th["beta"] * r.uniform(0.8, 1.2), 3)
    if "a" in params: th["a"] = round(r.uniform(0.1, 0.3), 3)
    shape = ["yearly", "long-first-gap-then-dense", "irregular"][(i // len(LONG_MODELS)) % 3]
    if shape == "yearly":
        grid = [365.0 * k for k in range(1, r.randint(4, 7))]
    elif shape == "long-first-gap-then-dense":
        grid = [730.0 + 10.0 * k for k in range(r.randint(4, 8))]
    else:
        grid = sorted(set(float(r.randint(200, 2500)) for _ in range(r.randint(3, 5))))
    return {"kind": "long", "name": name, "spec": spec, "states": states, "params": params, "x0": x0, "theta": {k: str(th[k]) for k in params},
            "grid": grid, "grid_shape": shape, "grid_form": r.choice(["array", "list"]), "x0_form": r.choice(["list_float", "list_int", "array"])}


def run_long(case):
    tags, mism, viol = ["family:long-horizon", "long:" + case["name"], "grid:" + case["grid_shape"]], [], []
    lr, model, perr, stage = build_both(case["spec"])
    mism += compare_errors(lr, perr, stage)
    if perr is not None or lr.get("err") is not None:
        viol.append({"what": "well-formed model rejected: %s" % perr, "signature": "reject:%s" % perr, "detail": ""})
        return {"nontrivial": False, "mismatches": mism, "violations": viol, "tags": tags + ["rejected"]}
    states = [str(s_) for s_ in model.state_list]; params = [str(p_) for p_ in model.param_list]
    theta = [float(case["theta"][p_]) for p_ in params]
    model.parameters = theta
    total = float(sum(case["x0"]))
    grid = np.array(case["grid"], float)
    # how much work do these gaps need?  An independent count: scipy's odeint on the model's own right-hand side with a generous
    # step budget; a gap that needs more than half of pygom's documented budget (mxstep = 10000) is not judged
    from scipy.integrate import odeint
    x0f = np.array(case["x0"], float)
    with quiet():
        ref, info = odeint(lambda x, t: np.asarray(model.ode(x, t), float).ravel(), x0f, np.concatenate([[0.0], grid]), mxstep=200000, full_output=True)
    nst = np.diff(np.concatenate([[0], np.asarray(info["nst"], int)]))
    tags.append("steps-per-gap<=%d" % (10 ** len(str(int(nst.max())))))
    if info.get("message") != "Integration successful." or nst.max() > 5000:
        return {"nontrivial": False, "mismatches": mism, "violations": viol, "tags": tags + ["long:too-much-work-for-the-documented-budget(not judged)"]}
    if nst.max() > 500:
        tags.append("long:a-gap-needs-more-than-500-steps")
    x0_arg = {"list_float": [float(v) for v in case["x0"]], "list_int": [int(v) for v in case["x0"]], "array": x0f.copy()}[case["x0_form"]]
    t_arg = grid.tolist() if case["grid_form"] == "list" else grid.copy()
    model.initial_values = (x0_arg, 0.0)
    outs = []
    for full in (False, True):
        try:
            with quiet():
                out = model.integrate(t_arg, full_output=True) if full else model.integrate(t_arg)
        except Exception as exc:
            viol.append({"what": "integrate(t) raised %s: %s" % (type(exc).__name__, str(exc)[:160]), "signature": "integrate:long-horizon:raises", "detail": json.dumps(case["theta"])})
            break
        sol = np.asarray(out[0] if full else out, float)
        if full and isinstance(out[1], dict):
            tags.append("odeint-message:" + str(out[1].get("message", "?"))[:40])
        sums = sol.sum(axis=1) if sol.ndim == 2 else np.array([np.nan])
        # DIRECT ORACLE: the row sums (C10's statement), every requested row, relative 1e-6 of the head count
        if sol.ndim != 2 or sol.shape[1] != len(states) or not np.all(np.isfinite(sums)) or np.abs(sums - total).max() > 1e-6 * total:
            viol.append({"what": "integrate(t%s).sum(axis=1) is not the total population on a long, sparsely sampled horizon of a closed model (%s)"
                                 % (", full_output=True" if full else "", case["name"]),
                         "signature": "integrate-sum-drift:long-horizon",
                         "detail": "requested times %s: row sums %s, total %s; steps needed per gap (independent count) %s; theta %s"
                                   % (case["grid"], sums.tolist(), total, nst.tolist(), case["theta"])})
            break
        outs.append(sol)
    if not viol:
        tags.append("long:integrated")
    return {"nontrivial": bool(nst.max() > 500), "mismatches": mism, "violations": viol, "tags": tags,
            "sample": {"name": case["name"], "x0": case["x0"], "theta": case["theta"], "grid": case["grid"]}}


def quiet():
    return contextlib.redirect_stdout(io.StringIO())


def run_case(case):
    if case.get("kind") == "long":
        return run_long(case)
    spec, meta = case["spec"], case["meta"]
    tags, mism, viol = [], [], []
    lr, model, perr, stage = build_both(spec)
    mism += compare_errors(lr, perr, stage)
    if perr is not None or lr.get("err") is not None:
        viol.append({"what": "well-formed model rejected: %s" % perr, "signature": "reject:%s" % perr, "detail": ""})
        return {"nontrivial": False, "mismatches": mism, "violations": viol, "tags": ["rejected"]}
    states = [str(s) for s in model.state_list]; params = [str(p) for p in model.param_list]
    nS, nE = len(states), len(lr["rates"])
    tags += ["sym_mag" if case["sym"] else "int_mag", "nS=%d" % nS, "nE=%d" % nE] + ["rate:" + k for k in set(meta["kinds"])]
    nontrivial = False
    # 1. symbolic: components sum to zero identically (exact point, 50 digits) -- on the real object and on the model
    env = {k: Fraction(v) for k, v in case["point"].items()}
    try:
        vals_p = [E.sympy_eval(e, env) for e in model.get_ode_eqn()]
        vals_l = [E.ev(e, env) for e in lr["ode"]]
        scale = max([abs(v) for v in vals_p] + [mpf(1)])
        has_float = any("." in str(e) for e in model.get_ode_eqn())
        tol = mpf("1e-12") if has_float else mpf("1e-30")
        if abs(sum(vals_l)) > mpf("1e-30") * scale:
            mism.append({"what": "model ode sum != 0", "detail": mpf_s(sum(vals_l))})
        if abs(sum(vals_p)) > tol * scale:
            viol.append({"what": "sum(get_ode_eqn()) != 0 for a transition-only model", "signature": "ode-sum-nonzero",
                         "detail": "sum=%s at %s" % (mpf_s(sum(vals_p)), case["point"])})
        if any(abs(v) > 0 for v in vals_p):
            nontrivial = True
    except E.Undefined:
        tags.append("undefined_point")
    theta = [float(Fraction(case["theta"][p])) for p in params]
    model.parameters = theta
    x0 = [float(v) for v in case["x0"]]
    f = np.asarray(model.ode(x0, 0.5), float)
    if abs(f.sum()) > 1e-9 * (1 + np.abs(f).max()):
        viol.append({"what": "sum(ode(x,t)) != 0", "signature": "ode-eval-sum-nonzero", "detail": str(f.tolist())})
    # 2. deterministic solution keeps the total
    a0 = np.asarray(model.eventRateVector(x0, 0.0), float)
    bound = float(np.abs(a0).sum()) * 4 + 1.0
    T = min(2.0, 120.0 / bound)
    grid = np.linspace(T / 6, T, 6)
    try:
        model.initial_values = (np.array(x0), np.float64(0))
        with quiet():
            sol, info = model.integrate(grid, full_output=True)
        sums = np.asarray(sol, float).sum(axis=1)
        if info.get("message") != "Integration successful.":
            tags.append("integration_failed:odeint")     # e.g. finite-time blow-up: no solution to judge
        elif np.all(np.isfinite(sol)) and np.abs(sol).max() < 1e6:
            if np.abs(sums - sum(x0)).max() > 1e-6 * (1 + np.abs(sol).max()):
                viol.append({"what": "integrate(t).sum(axis=1) not constant", "signature": "integrate-sum-drift",
                             "detail": "sums=%s x0 sum=%s" % (sums.tolist(), sum(x0))})
            tags.append("integrated")
        else:
            tags.append("integration_unbounded")
    except Exception as exc:
        tags.append("integration_failed:%s" % type(exc).__name__)
    if case["sym"]:
        return {"nontrivial": nontrivial, "mismatches": mism, "violations": viol, "tags": tags, "sample": {"spec": spec}}
    # 3. stochastic paths keep the total exactly: a SESSION of calls on this one instance (see stoch_plan).  The Lean statement
    #    (`stoch_path_sum_const_model`) is about one path as a pure function of (x0, V, counts); here every mode, raw and gridded,
    #    every form / dtype of x0 and of the time argument, left-over pre_tau, and all returned arrays summed AGAIN at the end.
    Vm = np.asarray(model.vMat(x0, 0.0), float).reshape(nS, nE)
    if not np.all(Vm == np.round(Vm)):
        mism.append({"what": "vMat not integer for integer magnitudes", "detail": str(Vm.tolist())})
        return {"nontrivial": nontrivial, "mismatches": mism, "violations": viol, "tags": tags}
    cols = [[int(Vm[i, j]) for i in range(nS)] for j in range(nE)]
    import copy
    fired = 0
    kept = []          # (label, returned arrays themselves, total they must keep, tolerance)
    handed = []        # (label, object handed to pygom, the harness's copy)
    for k, st in enumerate(stoch_plan(case, T)):
        name = st["mode"] + (":gridded" if st["grid"] else ":raw")
        xs = [int(v) * st["scale"] for v in case["x0"]]
        total = int(sum(xs))
        x0_arg = SC.make_x0(xs, st["x0_form"])
        handed.append(("x0 of call %d (%s)" % (k, st["x0_form"]), x0_arg, copy.deepcopy(x0_arg)))
        model.initial_values = (x0_arg, SC.make_t0(0.0, st["t0_form"]))
        if st["mode"] == "tau_fixed":
            model.pre_tau = st["pre_tau"]
        elif st["mode"] == "tau_adaptive":
            model.pre_tau = None
        elif model.pre_tau is not None:
            tags.append("exact_with_leftover_pre_tau")      # exact=True: whatever pre_tau an earlier call left behind stays
        exact = st["mode"] == "exact"
        t_arg = SC.time_obj(st["time"])
        handed.append(("time argument of call %d (%s)" % (k, st["time"]["kind"]), t_arg, copy.deepcopy(t_arg)))
        np.random.seed(st["seed"])
        try:
            with quiet(), time_limit(8):
                out = model.solve_stochast(t_arg, case["runs"], exact=exact, full_output=st["full_output"])
        except CaseTimeout:
            # adaptive tau can shrink without bound near extinction (termination is a probability-one
            # statement, see C04 path_exit_partial); a slow run is not a conservation verdict
            tags.append("mode_timeout:" + name)
            continue
        except Exception as exc:
            # a crash yields no path to judge; legality of paths / limits / gridding are C04, C11, C15
            tags.append("raised:%s:%s" % (name, type(exc).__name__))
            continue
        X, J = (out[0], out[1]) if st["full_output"] else (out, None)
        gridded_tau = st["grid"] and not exact
        # interpolated rows (tau-leap on a grid) are sums of separately rounded float interpolations: 1e-9 relative; else exact
        tol = 1e-9 * (1.0 + total) if gridded_tau else 0.0
        sig = "path-sum:%s" % ("gridded" if (st["grid"] and exact) else "gridded-tau" if st["grid"] else st["mode"])
        where = "call %d: %s, x0 %s handed over as %s, time as %s, %s" % (k, name, xs, st["x0_form"], st["time"]["kind"], "full_output" if st["full_output"] else "states only")
        kept.append((where, sig, list(X), total, tol, [np.array(np.asarray(Xr, float), copy=True) for Xr in X]))
        for p, Xr in enumerate(X):
            Xa = np.asarray(Xr, float)
            sums = Xa.sum(axis=1)
            if not st["grid"] and J is not None:
                fired += len(J[p])
            elif st["grid"] and len(Xa) and np.any(Xa != Xa[0]):
                fired += 1
            if Xa.ndim != 2 or Xa.shape[1] != nS or np.any(np.abs(sums - total) > tol):
                viol.append({"what": "stochastic path (%s) does not keep the total%s" % (name, "" if gridded_tau else " exactly"), "signature": sig,
                             "detail": "%s, path %d: sums=%s total=%s" % (where, p, sums.tolist()[:20], total)})
                break
            if not st["grid"] and not np.array_equal(Xa[0], np.array(xs, float)):
                # not what C10 states (the total is judged above, against the total of the ASSIGNED state); the model's path
                # starts at the assigned state: a broken correspondence
                tags.append("side_effect:path-start")
                mism.append({"what": "pure-model:path-start", "detail": "%s, path %d: first record %s" % (where, p, Xa[0].tolist())})
            # the real path is the model's path for the same counts
            if not st["grid"] and J is not None and len(J[p]) and np.all(Xa == np.round(Xa)):
                steps = [[int(round(float(np.asarray(c).ravel()[0]))) for c in row] for row in J[p]]
                resp = leanio.driver().call({"op": "apply_counts", "x0": [int(v) for v in Xa[0]], "cols": cols, "steps": steps})
                if resp["path"] != [[int(v) for v in row] for row in Xa]:
                    mism.append({"what": "path != applyCounts(x0, V, counts) (%s)" % name,
                                 "detail": "real %s model %s" % (Xa.tolist()[:6], resp["path"][:6])})
        tags += ["mode:" + ("gridded" if (st["grid"] and exact) else "gridded-tau:" + st["mode"] if st["grid"] else st["mode"]),
                 "x0_form:" + st["x0_form"], "time:" + st["time"]["kind"]]
        if st["scale"] > 1: tags.append("large_population")
        # what the caller handed over and what the model holds are what they were
        # (side effects the pure model excludes but C10 does not state: tag + broken correspondence, never a violation)
        for label, obj, snap in handed:
            if not SC._same_obj(obj, snap):
                tags.append("side_effect:caller-argument-modified")
                mism.append({"what": "pure-model:caller-argument-modified",
                             "detail": "%s: %s now %s, was %s" % (where, label, np.asarray(obj).tolist(), np.asarray(snap).tolist())})
                handed = [h for h in handed if h[1] is not obj]
                break
        held = np.asarray(model.initial_state, float).ravel()
        if not np.array_equal(held, np.array(xs, float)):
            tags.append("side_effect:initial-state-modified")
            mism.append({"what": "pure-model:initial-state-modified", "detail": "%s: model.initial_state=%s" % (where, held.tolist())})
    # every path of every call, again, after all the calls that followed
    for where, sig, X, total, tol, then in kept:
        for p, Xr in enumerate(X):
            now = np.asarray(Xr, float)
            if now.shape != then[p].shape or not np.array_equal(now, then[p]):
                sums = now.sum(axis=1) if now.ndim == 2 else now
                viol.append({"what": "a path returned by an earlier call was changed by later calls on the model", "signature": sig + ":kept",
                             "detail": "%s, path %d: sums now %s (total %s), first rows then %s now %s" % (where, p, sums.tolist()[:20], total, then[p][:2].tolist(), now[:2].tolist())})
                break
    if fired > 0:
        nontrivial = True
        tags.append("events_fired")
    return {"nontrivial": nontrivial, "mismatches": mism, "violations": viol, "tags": tags,
            "sample": {"spec": spec, "x0": case["x0"], "theta": case["theta"]}}


def stoch_plan(case, T):
    """the calls of the stochastic session of a case: determined by the case (its own generator seeded by case["seed"]), so a
    replay reproduces them.  Each mode raw and gridded, in random order; x0 / t0 / time argument in a random form each time;
    a third of the calls on a population scaled by 20 (tau-leap paths without any first-reaction retry stay all-integer)."""
    if case.get("plan"):
        return [dict(st) for st in case["plan"]]        # a stored (corpus) case may spell its calls out
    r = random.Random(case["seed"] ^ 0x5DEECE66D)
    nS = len(case["x0"])
    forms = [f for f in SC.X0_FORMS if f != "scalar"]
    float_first = bool(case.get("float_x0"))
    plan = []
    for mode in ("exact", "tau_adaptive", "tau_fixed"):
        for grid in (False, True):
            plan.append({"mode": mode, "grid": grid})
    r.shuffle(plan)
    if case.get("calls"):
        plan = plan[:case["calls"]]
    for k, st in enumerate(plan):
        st["x0_form"] = r.choice(forms)
        if st["grid"] and st["mode"] != "exact" and r.random() < 0.6:
            st["x0_form"] = r.choice(["arr_int", "list_int", "tuple_int", "arr_i32"])      # all-integer paths are where a dtype slip shows
        st["t0_form"] = r.choice(["np_f64", "np_f64", "np_i64", "np_f32"])
        st["scale"] = 20 if r.random() < 0.35 else 1
        Tk = T / st["scale"]            # rates of the generated kinds grow at most ~ quadratically: keep the expected work comparable
        st["pre_tau"] = (case.get("pre_tau") or 0.1) / st["scale"]
        st["seed"] = r.randrange(2 ** 31)
        st["full_output"] = True if not st["grid"] else r.random() < 0.5
        if st["grid"]:
            if Tk >= 0.5 and r.random() < 0.3:
                hi = max(1, int(np.ceil(Tk)))
                vals = sorted(set([0, hi] + [r.randint(0, hi) for _ in range(3)]))
                st["time"] = {"kind": r.choice(["list_int", "tuple_int", "array_int"]), "values": [float(v) for v in vals]}
            else:
                n = r.randint(3, 9)
                vals = [Tk * i / (n - 1) for i in range(n)]
                if r.random() < 0.15:
                    vals = vals[1:]             # grid starting after t0
                if r.random() < 0.2:
                    vals = vals + [Tk * 3, Tk * 10]    # far past the horizon of the raw calls (extinction / absorbing states)
                st["time"] = {"kind": r.choice(["list", "tuple", "array"]), "values": [float(v) for v in vals]}
        else:
            st["time"] = SC.gen_scalar_time(r, Tk, kinds=("float", "float", "np_f64", "list1", "tuple1") + (("int", "np_i64", "list1_int") if Tk >= 0.5 else ()))
    return plan
