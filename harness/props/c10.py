"""
C10 - closed compartmental models conserve the total population.

Lean: ode_sum_zero / vmat_col_sum_zero (any field, symbolic magnitudes), flow_sum_const (calculus),
path_sum_const (induction over steps).  Tie: C01's correspondence covers the assembly; here the real paths
are replayed through the driver's `apply_counts` (the function the path theorem is about).  Direct oracle:
the property itself on the real objects (exact-point sum of get_ode_eqn(), integrate(t).sum(axis=1),
solve_stochast paths .sum(axis=1)).
"""
import contextlib
import io
import json
import random
from fractions import Fraction

import numpy as np

from .. import exprs as E
from .. import gen, leanio, pymodel
from ..runner import CaseTimeout, time_limit
from .common import build_both, compare_errors, fl, mpf, mpf_s, net_oracle

PROP = "C10"
LEAN = {"module": "Pygom.Props.C10", "extra_modules": ["Pygom.Props.C10Link"],
        "required": ["Pygom.C10Link.stoch_path_sum_const", "Pygom.C10Link.stoch_path_sum_const_int",
                     "Pygom.C10Link.stoch_path_eq_c10_path", "Pygom.C10Link.stoch_path_sum_const_via_c10",
                     "Pygom.C10Link.stoch_path_sum_const_model",
                     "Pygom.C10.ode_sum_zero", "Pygom.C10.vmat_col_sum_zero", "Pygom.C10.flow_sum_const",
                     "Pygom.C10.step_sum_const", "Pygom.C10.path_sum_const"]}
BUDGET = {"quick": {"models": 90, "runs": 2}, "thorough": {"models": 1500, "runs": 4}}
RULE = ("transition-only models (2-5 states, 1-5 events of 1-3 T transitions, all rate kinds incl. time-periodic; a third with symbolic "
        "magnitudes (ODE part only), the rest integer magnitudes 1-3 also simulated: exact, adaptive tau, fixed tau, gridded exact); "
        "non-trivial = at least one event fired in some path or a non-zero ODE component")
ASSUMPTIONS = ["deterministic conservation is checked to 1e-6 relative (scipy odeint tolerance assumed)",
               "numpy's generator only supplies the draws; conservation must hold for every draw list (proved)"]
TRUSTED = ["harness generator / interpreter", "Lean driver JSON codec"]


def make_cases(rng, tier, budget):
    cases = []
    for i in range(budget["models"]):
        r = random.Random(rng.getrandbits(64))
        sym = (i % 3 == 0)
        spec, meta = gen.gen_model(r, min_states=2, min_events=1, types=(("T", 1),), allow_ode=False, sym_mag=sym,
                                   allow_range=True)
        pt = gen.rand_point(r, meta)
        x0 = [r.randint(0, 25) for _ in meta["states"]]
        if sum(x0) < 5:
            x0[0] += 8
        theta = {p: Fraction(r.randint(1, 20), 20) for p in meta["params"]}
        cases.append({"spec": spec, "meta": meta, "point": {k: str(v) for k, v in pt.items()}, "sym": sym, "x0": x0,
                      "theta": {k: str(v) for k, v in theta.items()}, "seed": r.randint(0, 2 ** 31 - 1),
                      "runs": budget["runs"], "pre_tau": r.choice([None, None, 0.05, 0.3]), "float_x0": r.random() < 0.5})
    return cases


def search_cases(rng, tier, budget):
    return make_cases(rng, tier, {"models": budget["models"] * 3, "runs": budget["runs"]})


def quiet():
    return contextlib.redirect_stdout(io.StringIO())


def run_case(case):
    spec, meta = case["spec"], case["meta"]
    tags, mism, viol = [], [], []
    lr, model, perr, stage = build_both(spec)
    mism += compare_errors(lr, perr, stage)
    if perr is not None or lr.get("err") is not None:
        viol.append({"what": "well-formed model rejected: %s" % perr, "signature": "reject:%s" % perr, "detail": ""})
        return {"nontrivial": False, "mismatches": mism, "violations": viol, "tags": ["rejected"]}
    states = [str(s) for s in model.state_list]; params = [str(p) for p in model.param_list]
    nS, nE = len(states), len(lr["rates"])
    tags += ["sym_mag" if case["sym"] else "int_mag", "nS=%d" % nS, "nE=%d" % nE] + ["rate:" + k for k in set(meta["kinds"])]
    nontrivial = False
    # 1. symbolic: components sum to zero identically (exact point, 50 digits) -- on the real object and on the model
    env = {k: Fraction(v) for k, v in case["point"].items()}
    try:
        vals_p = [E.sympy_eval(e, env) for e in model.get_ode_eqn()]
        vals_l = [E.ev(e, env) for e in lr["ode"]]
        scale = max([abs(v) for v in vals_p] + [mpf(1)])
        has_float = any("." in str(e) for e in model.get_ode_eqn())
        tol = mpf("1e-12") if has_float else mpf("1e-30")
        if abs(sum(vals_l)) > mpf("1e-30") * scale:
            mism.append({"what": "model ode sum != 0", "detail": mpf_s(sum(vals_l))})
        if abs(sum(vals_p)) > tol * scale:
            viol.append({"what": "sum(get_ode_eqn()) != 0 for a transition-only model", "signature": "ode-sum-nonzero",
                         "detail": "sum=%s at %s" % (mpf_s(sum(vals_p)), case["point"])})
        if any(abs(v) > 0 for v in vals_p):
            nontrivial = True
    except E.Undefined:
        tags.append("undefined_point")
    theta = [float(Fraction(case["theta"][p])) for p in params]
    model.parameters = theta
    x0 = [float(v) for v in case["x0"]]
    f = np.asarray(model.ode(x0, 0.5), float)
    if abs(f.sum()) > 1e-9 * (1 + np.abs(f).max()):
        viol.append({"what": "sum(ode(x,t)) != 0", "signature": "ode-eval-sum-nonzero", "detail": str(f.tolist())})
    # 2. deterministic solution keeps the total
    a0 = np.asarray(model.eventRateVector(x0, 0.0), float)
    bound = float(np.abs(a0).sum()) * 4 + 1.0
    T = min(2.0, 120.0 / bound)
    grid = np.linspace(T / 6, T, 6)
    try:
        model.initial_values = (np.array(x0), np.float64(0))
        with quiet():
            sol, info = model.integrate(grid, full_output=True)
        sums = np.asarray(sol, float).sum(axis=1)
        if info.get("message") != "Integration successful.":
            tags.append("integration_failed:odeint")     # e.g. finite-time blow-up: no solution to judge
        elif np.all(np.isfinite(sol)) and np.abs(sol).max() < 1e6:
            if np.abs(sums - sum(x0)).max() > 1e-6 * (1 + np.abs(sol).max()):
                viol.append({"what": "integrate(t).sum(axis=1) not constant", "signature": "integrate-sum-drift",
                             "detail": "sums=%s x0 sum=%s" % (sums.tolist(), sum(x0))})
            tags.append("integrated")
        else:
            tags.append("integration_unbounded")
    except Exception as exc:
        tags.append("integration_failed:%s" % type(exc).__name__)
    if case["sym"]:
        return {"nontrivial": nontrivial, "mismatches": mism, "violations": viol, "tags": tags, "sample": {"spec": spec}}
    # 3. stochastic paths keep the total exactly
    Vm = np.asarray(model.vMat(x0, 0.0), float).reshape(nS, nE)
    if not np.all(Vm == np.round(Vm)):
        mism.append({"what": "vMat not integer for integer magnitudes", "detail": str(Vm.tolist())})
        return {"nontrivial": nontrivial, "mismatches": mism, "violations": viol, "tags": tags}
    cols = [[int(Vm[i, j]) for i in range(nS)] for j in range(nE)]
    x0i = np.array(case["x0"], dtype=float if case["float_x0"] else int)
    total = int(sum(case["x0"]))
    modes = [("exact", True, None), ("tau_adaptive", False, None), ("tau_fixed", False, case["pre_tau"] or 0.1)]
    fired = 0
    for name, exact, pre_tau in modes:
        model.initial_values = (x0i.copy(), np.float64(0))
        model.pre_tau = pre_tau
        np.random.seed(case["seed"])
        try:
            with quiet(), time_limit(8):
                X, J, Tm = model.solve_stochast(T, case["runs"], exact=exact, full_output=True)
        except CaseTimeout:
            # adaptive tau can shrink without bound near extinction (termination is a probability-one
            # statement, see C04 path_exit_partial); a slow run is not a conservation verdict
            tags.append("mode_timeout:" + name)
            continue
        except Exception as exc:
            # a crash yields no path to judge; legality of paths / limits / gridding are C04, C11, C15
            tags.append("raised:%s:%s" % (name, type(exc).__name__))
            continue
        for Xr, Jr in zip(X, J):
            Xr = np.asarray(Xr, float)
            sums = Xr.sum(axis=1)
            fired += len(Jr)
            if not np.all(sums == total):
                viol.append({"what": "stochastic path (%s) does not keep the total exactly" % name, "signature": "path-sum:%s" % name,
                             "detail": "sums=%s total=%s" % (sums.tolist()[:20], total)})
                break
            # the real path is the model's path for the same counts
            if len(Jr) and np.all(Xr == np.round(Xr)):
                steps = [[int(round(float(np.asarray(c).ravel()[0]))) for c in row] for row in Jr]
                resp = leanio.driver().call({"op": "apply_counts", "x0": [int(v) for v in Xr[0]], "cols": cols, "steps": steps})
                if resp["path"] != [[int(v) for v in row] for row in Xr]:
                    mism.append({"what": "path != applyCounts(x0, V, counts) (%s)" % name,
                                 "detail": "real %s model %s" % (Xr.tolist()[:6], resp["path"][:6])})
        tags.append("mode:" + name)
    # gridded exact
    model.initial_values = (x0i.copy(), np.float64(0)); model.pre_tau = None
    np.random.seed(case["seed"] + 1)
    try:
        with quiet():
            Xg = model.solve_stochast(np.linspace(0, T, 7), 1, exact=True, full_output=False)
        sums = np.asarray(Xg[0], float).sum(axis=1)
        if not np.all(sums == total):
            viol.append({"what": "gridded exact path does not keep the total", "signature": "path-sum:gridded", "detail": str(sums.tolist())})
        tags.append("mode:gridded")
    except Exception as exc:
        tags.append("raised:gridded:%s" % type(exc).__name__)
    if fired > 0:
        nontrivial = True
        tags.append("events_fired")
    return {"nontrivial": nontrivial, "mismatches": mism, "violations": viol, "tags": tags,
            "sample": {"spec": spec, "x0": case["x0"], "theta": case["theta"]}}
