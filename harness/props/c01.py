"""
C01 - a model definition is assembled into exactly the equations it describes.

Correspondence: the Lean `assemble` (folds proved in Pygom/Props/C01.lean to equal Σ rate·net + explicit
terms and V·a + pure) against the real pygom objects, symbolically (exact point evaluation, 50 digits)
and numerically (compiled evaluators).  Direct oracle (no Lean): the harness's own interpreter computes
Σ rate × net + ODE terms from the abstract process set.

History / input-form / second-instance probes (all fixed by the case JSON, all judged by the same direct oracle).  The
Lean `assemble` is a pure function of the definition and an evaluator is a function of (definition, parameter values,
x, t) only, so each of these is a statement of the model which the real code may break without any single call
compared on its own being wrong:
 * every result of ode / vMat / eventRateVector / pureOdeVector is KEPT as returned and judged a second time after all
   later calls (4 points, parameter re-assignment, second instance, deep copy) - returned-array aliasing; ODE = V.a + pure
   is checked on the kept arrays; afterwards the caller overwrites the arrays it was given and evaluates again;
 * x as list / tuple / ndarray, float and (integer-valued point, some states exactly 0) int / int32 / int64; t as float /
   int / numpy scalar; parameters as list / tuple / ndarray / dict / (name, value) pairs (an argument that was written to is a
   pure side effect: tagged `side-effect:*`, never a violation - only wrong returned values are);
 * same (x, t) after `model.parameters` was re-assigned, and again after the first values were restored;
 * a second live instance under the same names (state declaration reversed, parameter declaration permuted, derived
   parameter redefined, last event entered incrementally), built IN STAGES - constructor, all evaluators called, then one
   incremental operation at a time with the first instance evaluating in between, every intermediate model judged against
   the spec read so far - then both instances evaluated alternately, the first one without re-assigning its parameters;
 * copy.deepcopy of the evaluated model as a third instance with other parameter values; the twin ode_T(t, x).
"""
import copy
import json
import random

import numpy as np

from .. import exprs as E
from .. import gen
from fractions import Fraction

from .. import pymodel
from .common import (BIG_FORMS, Kept, dtype_probe, as_params, as_t, as_x, build_both, compare_errors, fl, freeze, lean_assemble, mpf, mpf_s, multiset_close,
                     NAMED_TRAPS, net_oracle, net_oracle_bounds, printer_check, scaled_close, wide_tags, spec_oracle, sym_vs_lean, vec_close)

PROP = "C01"
LEAN = {"module": "Pygom.Props.C01",
        "required": ["Pygom.C01.ode_entry", "Pygom.C01.vmat_entry", "Pygom.C01.rate_entry", "Pygom.C01.pure_entry",
                     "Pygom.C01.ode_eq_vmat_mul_rates", "Pygom.C01.reactant_entry", "Pygom.C01.derived_subst",
                     "Pygom.C01.stateIndex_error_iff", "Pygom.C01.assemble_spec", "Pygom.C01.resolveEvents_wf"]}
BUDGET = {"quick": {"models": 160, "wide": 70, "cython": 3, "malformed": 24},
          "thorough": {"models": 3000, "wide": 900, "cython": 40, "malformed": 300}}
RULE = ("random model definitions (1-5 states incl. range-style names, 1-5 params, 0-5 events of 1-3 B/D/T transitions, numeric "
        "and symbolic magnitudes, linear/mass-action/saturating/exponential/time-periodic rates, explicit ODE terms, derived "
        "parameters, every API route) + a malformed stream; per model 4 points (one integer valued with zero states) in varied "
        "container / dtype forms, all evaluator results kept and re-judged after the later calls, parameter re-assignment and "
        "restoration at a fixed (x,t), a permuted / redefined second instance built in stages and evaluated alternately, a deep "
        "copy; a case is non-trivial when it has >=1 event and a non-zero ODE value.  WIDE input space (tag `wide`, a fixed number of "
        "cases per tier): state / parameter / derived names that collide with Python locals, builtins, sympy and numpy names and with "
        "each other as prefixes (i, j, k, n, e, s/i/r, S, I, E, N, Q, O, C, beta/beta1/betaS, gamma, zeta, pi, exp, Max, len, S1/S10 ...: "
        "those the unchanged pygom accepts); compound magnitudes (1 - p, n0 + n1, 2*k, k/2, -k, p*(1 - q), k**2) and magnitudes / derived "
        "parameters that contain a STATE (vMat is then judged as vMat(x,t)); the strings handed to pygom written as a user would "
        "(natural operator precedence without redundant parentheses, extra blanks, ** powers, unary minus, 1e-3 / 0.25 / 1/3 / "
        "Rational literals - tag `syntax:*`; the printer is checked per case against Python's own grammar); 8-12 states, 8-12 parameters "
        "or 8-12 events in every twelfth wide case each; one extra point with parameters 1e-9..1e8 and states 1e-3..1e6 judged "
        "relatively PER ENTRY against a cancellation-aware bound (no absolute floor)")
ASSUMPTIONS = ["sympy parser/subs and lambdify/autowrap are translation-validated per case, not proved",
               "identity of expressions is decided by exact evaluation at 3 random rational points (50 digits)"]
TRUSTED = ["harness generator, AST printer (exprs.to_str) and interpreter (exprs.ev)", "Lean driver JSON codec",
           "natural-precedence printer exprs.user_str (checked on every case it is used for against Python's own parser, exprs.python_value)",
           "exprs.ev_bound (cancellation-aware scale of the direct oracle's tolerance)"]


def malform(rng, spec, meta):
    """one structural defect the real code and the model must both reject (or both accept)"""
    spec = copy.deepcopy(spec)
    kind = rng.choice(["unknown_state", "ode_in_event", "two_equations", "same_origin_dest", "death_with_dest",
                       "no_rate", "rate_and_equation", "birth_both_ends", "t_missing_dest", "unknown_ode_state"])
    st = meta["states"]
    rate = E.mul(E.var(meta["params"][0]), E.var(st[0]))
    T = lambda **k: dict({"type": "T", "origin": st[0], "dest": st[-1], "mag": E.num(1), "eq": None}, **k)
    ev = None
    if kind == "unknown_state":
        ev = {"rate": rate, "transitions": [{"type": "D", "origin": "Q9", "dest": None, "mag": E.num(1), "eq": None}]}
    elif kind == "ode_in_event":
        ev = {"rate": rate, "transitions": [{"type": "ODE", "origin": st[0], "dest": None, "mag": E.num(1), "eq": None}]}
    elif kind == "two_equations":
        ev = {"rate": None, "transitions": [{"type": "D", "origin": st[0], "dest": None, "mag": E.num(1), "eq": rate},
                                            {"type": "B", "origin": None, "dest": st[-1], "mag": E.num(1), "eq": rate}]}
    elif kind == "same_origin_dest":
        ev = {"rate": rate, "transitions": [T(dest=st[0])]}
    elif kind == "death_with_dest":
        ev = {"rate": rate, "transitions": [{"type": "D", "origin": st[0], "dest": st[-1], "mag": E.num(1), "eq": None}]}
    elif kind == "no_rate":
        ev = {"rate": None, "transitions": [{"type": "D", "origin": st[0], "dest": None, "mag": E.num(1), "eq": None}]}
    elif kind == "rate_and_equation":
        ev = {"rate": rate, "transitions": [{"type": "D", "origin": st[0], "dest": None, "mag": E.num(1), "eq": rate}]}
    elif kind == "birth_both_ends":
        ev = {"rate": rate, "transitions": [{"type": "B", "origin": st[0], "dest": st[-1], "mag": E.num(2), "eq": None}]}
    elif kind == "t_missing_dest":
        ev = {"rate": rate, "transitions": [{"type": "T", "origin": st[0], "dest": None, "mag": E.num(1), "eq": None}]}
    elif kind == "unknown_ode_state":
        spec["ctor"]["ode"].append({"type": "ODE", "origin": "Q9", "dest": None, "mag": E.num(1), "eq": rate})
    if ev is not None:
        if rng.random() < 0.5:
            spec["ctor"]["event"].append(ev)
        else:
            spec["then"].append(dict(op="add_event", **ev))
    return spec, kind


N_POINTS = 4          # three rational points and one integer-valued point (handed over as ints / integer arrays)


def probe_for(r, spec, meta, pts):
    """everything the history / input-form / second-instance probes need, drawn here so that the case JSON fixes it"""
    from .common import gen_forms
    nP = len(meta["params"])
    perm = list(range(nP))
    r.shuffle(perm)
    big = gen.rand_point(r, meta, integer=True, big=True)
    return {"big": {"point": {k: str(v) for k, v in big.items()}, "x": r.choice(BIG_FORMS)},
            "forms": gen_forms(r, pts, meta["states"]),
            "reassign_form": r.choice(["list", "tuple", "ndarray", "dict_name", "pairs"]),
            "sibling": {"state_rev": r.random() < 0.7, "param_perm": perm, "derived_bump": True,
                        "last_event_incremental": r.random() < 0.5}}


def points_for(r, meta, n=N_POINTS):
    pts = [gen.rand_point(r, meta) for _ in range(n - 1)]
    pts.append(gen.rand_point(r, meta, integer=True, zeros=True))
    return pts


def wide_options(r, i):
    """the widened input space of wide case number i (see RULE); every twelfth case is a large model of each kind"""
    w = {"names": r.random() < 0.75, "mags": r.random() < 0.75, "state_mags": 0.35, "derived_states": 0.5 if r.random() < 0.6 else 0.0,
         "consts": r.random() < 0.6, "syntax": r.random() < 0.85}
    if i % 12 in (3, 7, 11):
        w["size"] = {3: "many_states", 7: "many_params", 11: "many_events"}[i % 12]
    return w


def wide_case(r, i, backend="lambda"):
    w = wide_options(r, i)
    spec, meta = gen.gen_model(r, wide=w)
    pts = points_for(r, meta)
    probe = probe_for(r, spec, meta, pts)
    probe["extreme"] = {k: str(v) for k, v in gen.rand_point_extreme(r, meta).items()}
    return {"spec": spec, "meta": meta, "points": [{k: str(v) for k, v in p.items()} for p in pts], "backend": backend,
            "malformed": None, "probe": probe, "wide": w}


def make_cases(rng, tier, budget):
    cases = []
    for i in range(budget["models"]):
        r = random.Random(rng.getrandbits(64))
        spec, meta = gen.gen_model(r)
        pts = points_for(r, meta)
        cases.append({"spec": spec, "meta": meta, "points": [{k: str(v) for k, v in p.items()} for p in pts],
                      "backend": "cython" if i < budget["cython"] else "lambda", "malformed": None,
                      "probe": probe_for(r, spec, meta, pts)})
    for i in range(budget["malformed"]):
        r = random.Random(rng.getrandbits(64))
        spec, meta = gen.gen_model(r, min_events=1)
        spec2, kind = malform(r, spec, meta)
        cases.append({"spec": spec2, "meta": meta, "points": [], "backend": "lambda", "malformed": kind})
    # the wide cases are drawn AFTER the classic ones (whose random stream is what it was) and spread over the run
    wide = []
    for i in range(budget.get("wide", 0)):
        wide.append(wide_case(random.Random(rng.getrandbits(64)), i))
    step = max(1, len(cases) // max(1, len(wide)))
    for k, c in enumerate(wide):
        cases.insert(min(len(cases), k * (step + 1)), c)
    return cases


def search_cases(rng, tier, budget):
    out = []
    for i in range(budget["models"] * 3):
        r = random.Random(rng.getrandbits(64))
        spec, meta = gen.gen_model(r)
        pts = points_for(r, meta)
        out.append({"spec": spec, "meta": meta, "points": [{k: str(v) for k, v in p.items()} for p in pts],
                    "backend": "lambda", "malformed": None, "probe": probe_for(r, spec, meta, pts)})
    for i in range(budget.get("wide", 0) * 3):
        out.append(wide_case(random.Random(rng.getrandbits(64)), i))
    return out


EVALUATORS = ("ode", "vMat", "eventRateVector", "pureOdeVector")


class Session(object):
    """One live model instance together with its Lean response, its direct oracle and every result it has handed
    out so far.  `step` = set the parameters, call every evaluator C01 observes at one point, judge private copies
    of the results at once; `finish` = judge the KEPT result objects after everything else has happened."""

    def __init__(self, case, spec, meta, who="", partner=None, touch_env=None):
        self.case, self.spec, self.meta, self.who = case, spec, meta, who
        self.tags, self.mism, self.viol = [], [], []
        self.kept = Kept()
        self.steps = []            # dict(label, env, vals (copies), oracle)
        self.nonzero = False
        self.model = None
        self.dead = False
        self.cur = {}
        backend = case.get("backend", "lambda")
        n_then = len(spec.get("then", []))
        staged = (partner is not None and n_then > 0 and backend == "lambda"
                  and all(o["op"] in pymodel.SETTER for o in spec["then"]))
        if not staged:
            self.lr, self.model, self.perr, self.stage = build_both(spec, backend=backend)
            return
        # staged construction: constructor keywords only, every evaluator called once (they are compiled now), then
        # the incremental operations one at a time; after each of them ANOTHER live instance evaluates before this
        # one does.  The intermediate models are judged against the spec read up to that operation.
        self.lr = lean_assemble(spec)
        self.perr, self.stage = None, None
        self.tags.append("staged_build")
        try:
            self.model = pymodel.build(spec, backend=backend, upto=0)
            self.touch(touch_env, 0)
            for k in range(n_then):
                pymodel.apply_then(self.model, spec["then"][k], sx=spec.get("syntax"))
                partner.touch(touch_env, None)
                self.touch(touch_env, k + 1)
            for g in ("get_ode_eqn", "get_StateChangeMatrix", "get_EventRateVector", "get_pureOdeVector"):
                getattr(self.model, g)()
        except Exception as exc:
            self.perr, self.stage = pymodel.err_enum(exc), "build"
            self.model = None

    def touch(self, env, upto):
        """call every evaluator at `env` without keeping anything; ode is judged against the (prefix of the) spec"""
        if self.model is None or env is None:
            return
        m = self.model
        states = [str(s) for s in m.state_list]; params = [str(p) for p in m.param_list]
        x = fl(env, states); t = float(env["t"])
        try:
            m.parameters = fl(env, params)
            self.cur = {p: env[p] for p in params}
        except Exception:
            self.tags.append("touch:parameters-not-settable")
            return
        got = {}
        for name in EVALUATORS:
            try:
                got[name] = np.array(getattr(m, name)(x, t), dtype=float)
            except Exception as exc:
                self.tags.append("touch:%s-raised" % name)
        if "ode" not in got:
            return
        try:
            if upto is None:
                f_o = net_oracle(self.meta, self.spec, env)[0]
            else:
                f_o = spec_oracle(self.spec, states, env, upto=upto)[0]
        except E.Undefined:
            return
        if not vec_close(got["ode"].ravel(), f_o):
            what = ("ode(x,t) of the model as built so far (constructor + %d incremental operations) != sum rate*net + explicit terms"
                    % upto) if upto is not None else "ode(x,t) changed after another instance was extended"
            self.viol.append({"what": self.who + what, "signature": "staged:" + sig(self.meta, "ode"),
                              "detail": "ode=%s expected=%s at %s" % (got["ode"].ravel().tolist(), [mpf_s(v) for v in f_o],
                                                                      {k: str(v) for k, v in env.items()})})

    # -- symbolic objects and names ---------------------------------------------------------------------
    def open(self):
        """names, symbolic objects, reactant matrix; returns False when nothing more can be compared"""
        lr, model, spec, meta, case = self.lr, self.model, self.spec, self.meta, self.case
        tags, mism, viol = self.tags, self.mism, self.viol
        mism += compare_errors(lr, self.perr, self.stage)
        tags.append("malformed:%s" % case["malformed"] if case.get("malformed") else "wellformed")
        if self.perr is not None or lr.get("err") is not None:
            tags.append("rejected:%s" % (self.perr or lr.get("err")))
            if not case.get("malformed") and self.perr is not None:
                # a well-formed definition the real code rejects: the property cannot hold for it
                viol.append({"what": "well-formed model definition rejected with %s at %s" % (self.perr, self.stage),
                             "signature": "reject:%s:%s:%s" % (self.perr, self.stage, ",".join(sorted(set(meta["routes"])))),
                             "detail": json.dumps(spec)[:1500]})
            self.dead = True
            self.result = {"nontrivial": case.get("malformed") is not None, "mismatches": mism, "violations": viol, "tags": tags,
                           "sample": {"malformed": case.get("malformed"), "python": self.perr, "lean": lr.get("err")}}
            return False
        if case.get("malformed"):
            tags.append("malformed_accepted")
            self.dead = True
            self.result = {"nontrivial": True, "mismatches": mism, "violations": viol, "tags": tags}
            return False
        self.states = states = [str(s) for s in model.state_list]
        self.params = params = [str(p) for p in model.param_list]
        if states != lr["states"] or params != lr["params"]:
            mism.append({"what": "names", "detail": "python %s %s lean %s %s" % (states, params, lr["states"], lr["params"])})
            self.dead = True
            self.result = {"nontrivial": False, "mismatches": mism, "violations": viol, "tags": tags}
            return False
        if states != meta["states"] or params != meta["params"]:
            viol.append({"what": "declared names / order not kept: states %s params %s, declared %s %s" % (states, params, meta["states"], meta["params"]),
                         "signature": "declared-names", "detail": json.dumps(spec)[:800]})
            self.dead = True
            self.result = {"nontrivial": False, "mismatches": mism, "violations": viol, "tags": tags}
            return False
        self.nS, self.nE = nS, nE = len(states), len(lr["rates"])
        for k in set(meta["kinds"]):
            tags.append("rate:" + k)
        for r in set(meta["routes"]):
            tags.append("route:" + r)
        tags.append("nS=%d" % nS); tags.append("nE=%d" % nE)
        if meta["odes"]: tags.append("has_ode")
        if meta["derived"]: tags.append("has_derived")
        if any(":" in str(x) for x in (spec["state"].get("list") or [spec["state"].get("str")])): tags.append("range_names")
        tags.append("backend:" + case.get("backend", "lambda"))
        if case.get("wide") is not None and not self.who:
            tags += wide_tags(spec, meta, case["wide"], NAMED_TRAPS)
            tags.append("nP=%d" % len(params))
        self.symbolic()
        lam = model.get_ReactantMatrix()
        lam_l = lr["react_cols"]
        lam_p = [[int(lam[i, j]) for i in range(nS)] for j in range(nE)]
        if lam_p != lam_l:
            mism.append({"what": "reactant_matrix", "detail": "python %s lean %s" % (lam_p, lam_l)})
        return True

    def symbolic(self):
        model = self.model
        self.ode_s = list(model.get_ode_eqn())
        self.V_s = model.get_StateChangeMatrix()
        self.a_s = list(model.get_EventRateVector())
        self.p_s = list(model.get_pureOdeVector())

    def sym_check(self, env):
        lr, nS, nE = self.lr, self.nS, self.nE
        sym_vs_lean(self.ode_s, lr["ode"], env, "get_ode_eqn", self.mism, self.tags)
        sym_vs_lean([self.V_s[i, j] for j in range(nE) for i in range(nS)], [e for col in lr["vmat_cols"] for e in col], env,
                    "get_StateChangeMatrix", self.mism, self.tags)
        sym_vs_lean(self.a_s, lr["rates"], env, "get_EventRateVector", self.mism, self.tags)
        sym_vs_lean(self.p_s, lr["pure"], env, "get_pureOdeVector", self.mism, self.tags)

    # -- one evaluation of every evaluator ---------------------------------------------------------------
    def step(self, env, form, label, symbolic=False, set_params=True):
        """returns True when the step was judged clean"""
        if self.dead:
            return False
        lr, model, meta, spec = self.lr, self.model, self.meta, self.spec
        nS, nE, states, params = self.nS, self.nE, self.states, self.params
        mism, viol, tags = self.mism, self.viol, self.tags
        n0 = len(mism) + len(viol)
        pt = {k: str(v) for k, v in env.items()}
        if symbolic:
            self.sym_check(env)
        x = as_x(env, states, form["x"]); t = as_t(env, form["t"])
        tags.append("x:" + form["x"]); tags.append("t:" + form["t"])
        try:
            if set_params:
                th = as_params(env, params, form["p"])
                fth = freeze(th)
                model.parameters = th
                self.cur = {p: env[p] for p in params}
                tags.append("p:" + form["p"])
                if freeze(th) != fth:
                    # a pure side effect (the values judged below decide): tagged, not a violation of this property
                    tags.append("side-effect:parameters-object-modified:" + form["p"])
            vals = {}
            vals["ode"] = self.kept.call(model, "ode", x, t, label).ravel()
            vals["vMat"] = self.kept.call(model, "vMat", x, t, label).reshape(nS, nE) if nE > 0 else np.zeros((nS, 0))
            vals["eventRateVector"] = self.kept.call(model, "eventRateVector", x, t, label).ravel() if nE > 0 else np.zeros(0)
            vals["pureOdeVector"] = self.kept.call(model, "pureOdeVector", x, t, label).ravel()
        except Exception as exc:
            if nE == 0:
                tags.append("no_events_evaluator_error")
                return True
            viol.append({"what": self.who + "evaluator raised %s: %s" % (type(exc).__name__, str(exc)[:200]),
                         "signature": "evaluator-raise:%s:x=%s,t=%s" % (type(exc).__name__, form["x"], form["t"]), "detail": json.dumps(pt)})
            return False
        try:
            lean = {"ode": [E.ev(e, env) for e in lr["ode"]], "vMat": [[E.ev(e, env) for e in col] for col in lr["vmat_cols"]],
                    "eventRateVector": [E.ev(e, env) for e in lr["rates"]], "pureOdeVector": [E.ev(e, env) for e in lr["pure"]]}
            (f_o, V_o, a_o, p_o), bounds = net_oracle_bounds(meta, spec, env)
            if not self.steps:
                # the two references of the harness (abstract process set / API-level spec) must agree
                f_s = spec_oracle(spec, states, env)[0] if all(o["op"] in pymodel.SETTER for o in spec.get("then", [])) else f_o
                if not vec_close(f_s, f_o):
                    mism.append({"what": "harness_error", "detail": "spec_oracle %s != net_oracle %s" % ([mpf_s(v) for v in f_s], [mpf_s(v) for v in f_o])})
        except E.Undefined:
            tags.append("undefined_point")
            return True
        if any(abs(v) > 1e-12 for v in lean["ode"]):
            self.nonzero = True
        st = {"label": label, "pt": pt, "vals": vals, "lean": lean, "oracle": (f_o, V_o, a_o, p_o), "bounds": bounds, "first_row": len(self.kept.rows) - 4}
        self.steps.append(st)
        self.judge(st, vals, "")
        return len(mism) + len(viol) == n0

    def printer_check(self, env):
        printer_check(self.spec, env, self.mism, self.tags)

    def extreme(self, env):
        """one point with very small and very large values (parameters 1e-9..1e8, states 1e-3..1e6): every entry of ode /
        vMat / eventRateVector / pureOdeVector is judged RELATIVELY against the cancellation-aware bound of the direct oracle
        (no absolute floor); the Lean expressions are judged the same way"""
        if self.dead or self.mism or self.viol:
            return True
        nS, nE, model = self.nS, self.nE, self.model
        pt = {k: str(v) for k, v in env.items()}
        try:
            (f_o, V_o, a_o, p_o), (Bf, BV, Ba, Bp) = net_oracle_bounds(self.meta, self.spec, env)
            lean = {"ode": [E.ev(e, env) for e in self.lr["ode"]], "eventRateVector": [E.ev(e, env) for e in self.lr["rates"]],
                    "pureOdeVector": [E.ev(e, env) for e in self.lr["pure"]]}
        except (E.Undefined, ZeroDivisionError, OverflowError):
            self.tags.append("extreme:undefined_point")
            return True
        try:
            model.parameters = fl(env, self.params)
            self.cur = {p: env[p] for p in self.params}
            x, t = fl(env, self.states), float(env["t"])
            with np.errstate(all="ignore"):
                f_n = np.array(model.ode(x, t), float).ravel()
                p_n = np.array(model.pureOdeVector(x, t), float).ravel()
                a_n = np.array(model.eventRateVector(x, t), float).ravel() if nE > 0 else np.zeros(0)
                V_n = np.array(model.vMat(x, t), float).reshape(nS, nE) if nE > 0 else np.zeros((nS, 0))
        except Exception as exc:
            if nE == 0:
                return True
            self.viol.append({"what": "evaluator raised %s at a point with very small / very large values: %s" % (type(exc).__name__, str(exc)[:200]),
                              "signature": "evaluator-raise:%s:extreme" % type(exc).__name__, "detail": json.dumps(pt)})
            return False
        self.tags.append("extreme_point")
        sg = lambda w: "extreme:" + sig(self.meta, w)
        pre = "[parameters 1e-9..1e8, states 1e-3..1e6; relative per entry] "
        if not (scaled_close(lean["ode"], f_o, Bf) and scaled_close(lean["pureOdeVector"], p_o, Bp)):
            self.mism.append({"what": "extreme:lean-vs-oracle", "detail": "lean ode %s oracle %s at %s" % ([mpf_s(v) for v in lean["ode"]], [mpf_s(v) for v in f_o], pt)})
        if not scaled_close(f_n, f_o, Bf):
            self.viol.append({"what": pre + "ode(x,t) != sum rate*net + explicit terms", "signature": sg("ode"),
                              "detail": "ode=%s expected=%s bound=%s at %s" % (list(f_n), [mpf_s(v) for v in f_o], [mpf_s(v) for v in Bf], pt)})
        if not scaled_close(p_n, p_o, Bp):
            self.viol.append({"what": pre + "pureOdeVector(x,t) != explicit terms", "signature": sg("pure"),
                              "detail": "pure=%s expected=%s at %s" % (list(p_n), [mpf_s(v) for v in p_o], pt)})
        # (rate, column) pairs as a multiset: greedy matching with the per-entry bounds of the expected pair
        okp = pairs_close(a_n, [V_n[:, k] for k in range(nE)], a_o, V_o, Ba, BV)
        if not okp:
            self.viol.append({"what": pre + "(eventRateVector, vMat column) pairs != declared (rate, magnitudes)", "signature": sg("rates+vmat"),
                              "detail": "rates=%s vMat=%s expected rates=%s columns=%s at %s" % (list(a_n), V_n.tolist(), [mpf_s(v) for v in a_o],
                                                                                              [[mpf_s(v) for v in c] for c in V_o], pt)})
        return not (self.mism or self.viol)

    def keep_params(self, env):
        """(x, t) of `env` with the parameter values this instance currently holds"""
        e = dict(env); e.update(self.cur)
        return e

    def clone(self):
        """copy.deepcopy of the configured, already evaluated model as one more live instance (same definition, so the
        same Lean response and the same oracle)"""
        C = object.__new__(Session)
        C.__dict__.update(self.__dict__)
        C.tags, C.mism, C.viol, C.kept, C.steps = [], [], [], Kept(), []
        C.who = "copy.deepcopy of the model: "
        try:
            C.model = copy.deepcopy(self.model)
            C.symbolic()
        except Exception as exc:
            self.tags.append("deepcopy-raised:%s" % type(exc).__name__)
            return None
        C.cur = dict(self.cur)
        return C

    def twins(self, env, label):
        """the solver-facing twin ode_T(t, x) at a point already judged"""
        if self.dead or self.mism or self.viol:
            return
        try:
            f_o = net_oracle(self.meta, self.spec, env)[0]
        except E.Undefined:
            return
        try:
            got = np.array(self.model.ode_T(float(env["t"]), fl(env, self.states)), float).ravel()
        except Exception as exc:
            self.viol.append({"what": self.who + "ode_T raised %s: %s" % (type(exc).__name__, str(exc)[:200]), "signature": "evaluator-raise:ode_T:%s" % type(exc).__name__,
                              "detail": ""})
            return
        self.tags.append("ode_T")
        if not vec_close(got, f_o):
            self.viol.append({"what": self.who + "[%s] ode_T(t,x) != sum rate*net + explicit terms" % label, "signature": "ode_T:" + sig(self.meta, "ode"),
                              "detail": "ode_T=%s expected=%s" % (got.tolist(), [mpf_s(v) for v in f_o])})

    def judge(self, st, vals, kind):
        """`kind` = "" for the copies taken at the time of the call (model comparison + direct oracle),
        "kept" for the result objects themselves, looked at after all later calls (direct oracle only)"""
        nS, nE, meta, pt, label = self.nS, self.nE, self.meta, st["pt"], st["label"]
        mism, viol = self.mism, self.viol
        f_n, V_n, a_n, p_n = vals["ode"], vals["vMat"], vals["eventRateVector"], vals["pureOdeVector"]
        f_o, V_o, a_o, p_o = st["oracle"]
        pre = self.who + ("[%s] " % label) + ("KEPT result, looked at after the later calls: " if kind else "")
        sg = (lambda w: "kept:" + w) if kind else (lambda w: ("history:" if label in HISTORY_LABELS else "") + w)
        Vn_cols = [[V_n[i, j] for i in range(nS)] for j in range(nE)]
        if not kind:
            lean = st["lean"]
            if not vec_close(f_n, lean["ode"]): mism.append({"what": "ode(x,t)", "detail": "python %s lean %s at %s" % (list(f_n), [mpf_s(v) for v in lean["ode"]], pt)})
            if not vec_close(a_n, lean["eventRateVector"]): mism.append({"what": "eventRateVector(x,t)", "detail": "python %s lean %s" % (list(a_n), [mpf_s(v) for v in lean["eventRateVector"]])})
            if not vec_close(p_n, lean["pureOdeVector"]): mism.append({"what": "pureOdeVector(x,t)", "detail": "python %s lean %s" % (list(p_n), [mpf_s(v) for v in lean["pureOdeVector"]])})
            if not all(vec_close(c1, c2) for c1, c2 in zip(Vn_cols, lean["vMat"])):
                mism.append({"what": "vMat(x,t)", "detail": "python %s lean %s" % (Vn_cols, [[mpf_s(v) for v in c] for c in lean["vMat"]])})
        # direct oracle, no Lean: the property itself.  Every entry is judged RELATIVELY against the cancellation-aware bound of
        # the oracle's own terms (common.net_oracle_bounds): no absolute floor, so an entry of size 1e-9 (or a rate
        # a*exp(-b*X) of size 1e-40) is held to 9 digits like any other
        Bf, BV, Ba, Bp = st["bounds"]
        if not scaled_close(f_n, f_o, Bf):
            viol.append({"what": pre + "ode(x,t) != sum rate*net + explicit terms", "signature": sg(sig(meta, "ode")),
                         "detail": "ode=%s expected=%s at %s" % (list(f_n), [mpf_s(v) for v in f_o], pt)})
        if not scaled_close(p_n, p_o, Bp):
            viol.append({"what": pre + "pureOdeVector(x,t) != explicit terms", "signature": sg(sig(meta, "pure")),
                         "detail": "pure=%s expected=%s at %s" % (list(p_n), [mpf_s(v) for v in p_o], pt)})
        # event order depends on the route (constructor keywords are processed event, transition, birth_death,
        # then add_* calls), so rates and columns are compared as a multiset of (rate, column) pairs
        got = sorted([[float(a_n[j])] + [float(v) for v in Vn_cols[j]] for j in range(nE)])
        exp = sorted([[float(a_o[j])] + [float(v) for v in V_o[j]] for j in range(len(a_o))])
        if not pairs_close(a_n, Vn_cols, a_o, V_o, Ba, BV):
            viol.append({"what": pre + "(eventRateVector, vMat column) pairs != declared (rate, magnitudes)", "signature": sg(sig(meta, "rates+vmat")),
                         "detail": "got=%s expected=%s at %s" % (got, exp, pt)})
        recon = V_n.dot(a_n) + p_n if nE > 0 else p_n
        if not scaled_close(f_n, [mpf(float(v)) for v in recon], Bf, rel=1e-8):
            viol.append({"what": pre + "ode != vMat . eventRateVector + pureOdeVector", "signature": sg(sig(meta, "recon")),
                         "detail": "ode=%s V.a+p=%s at %s" % (list(f_n), list(recon), pt)})

    def finish(self):
        """the kept result objects, after every later call on this and on the other instance"""
        if self.dead or self.mism or self.viol:
            return
        nS, nE = self.nS, self.nE
        for label, name in self.kept.input_changed:
            # writing into the caller's state vector / time is a side effect outside this property: tagged only
            self.tags.append("side-effect:input-modified:%s" % name)
        changed = self.kept.changed()
        if changed:
            self.tags.append("kept_result_changed")
        for st in self.steps:
            r0 = st["first_row"]
            rows = {r["name"]: r for r in self.kept.rows[r0:r0 + 4]} if nE > 0 else {}
            if set(rows) != set(EVALUATORS):
                continue
            raw = {"ode": np.asarray(rows["ode"]["raw"], float).ravel(), "vMat": np.asarray(rows["vMat"]["raw"], float).reshape(nS, nE),
                   "eventRateVector": np.asarray(rows["eventRateVector"]["raw"], float).ravel(),
                   "pureOdeVector": np.asarray(rows["pureOdeVector"]["raw"], float).ravel()}
            self.judge(st, raw, "kept")
            if self.viol:
                break
        if changed and not self.viol:
            # a kept array was written to by a later call but every kept value still satisfies the oracle: a side effect
            # (a view of internal state) without a wrong value - tagged, not judged
            self.tags.append("side-effect:kept-array-rewritten-with-right-values")
        self.tags.append("kept_judged:%d" % len(self.steps))

    def after_scribble(self, env, form, label):
        """the caller overwrites the arrays it was given (they are its own), then evaluates again"""
        if self.dead or self.mism or self.viol:
            return
        n = self.kept.scribble()
        self.tags.append("scribbled" if n else "nothing_to_scribble")
        self.kept = Kept()
        self.step(env, form, label)


HISTORY_LABELS = ("reassigned", "restored", "after-sibling", "after-copy", "copy-after-original", "after-caller-wrote-into-results")


def run_case(case):
    if case.get("malformed") or not case.get("points"):
        A = Session(case, case["spec"], case["meta"])
        A.open()
        return A.result if A.dead else {"nontrivial": False, "mismatches": A.mism, "violations": A.viol, "tags": A.tags}
    spec, meta = case["spec"], case["meta"]
    pts = [{k: Fraction(v) for k, v in p.items()} for p in case["points"]]
    probe = case.get("probe") or {}
    forms = probe.get("forms") or [{"x": "list", "t": "float", "p": "list"}] * len(pts)
    A = Session(case, spec, meta)
    if not A.open():
        return A.result
    ok = True
    A.printer_check(pts[0])
    for k, env in enumerate(pts):
        ok = A.step(env, forms[k], "point%d" % k, symbolic=True)
        if not ok:
            break
    B = None
    if ok and probe.get("big") and A.nE > 0:
        # populations of 1e4..1e6 with an integer dtype against the same numbers as floats (see common.dtype_probe)
        envb = {k: Fraction(v) for k, v in probe["big"]["point"].items()}
        v_, tg_ = dtype_probe(A.model, EVALUATORS, A.states, A.params, envb, probe["big"]["x"])
        A.viol += v_; A.tags += tg_
        A.cur = {p: envb[p] for p in A.params}
        ok = not A.viol
    if ok and probe.get("extreme"):
        ok = A.extreme({k: Fraction(v) for k, v in probe["extreme"].items()})
    if ok and probe and len(pts) >= 2:
        # history on one instance: same (x, t) as point 0 with the parameter values of point 1, then the first values again
        env_r = dict(pts[0]); env_r.update({p: pts[1][p] for p in A.params})
        fr = dict(forms[0], p=probe.get("reassign_form", "list"))
        ok = A.step(env_r, fr, "reassigned") and A.step(pts[0], dict(forms[0], p=forms[1]["p"]), "restored")
    if ok and probe.get("sibling"):
        # a second live instance under the same names (declaration orders permuted, derived parameter redefined),
        # constructed in stages with the first instance evaluating in between, then both evaluated alternately
        sb = probe["sibling"]
        s2, m2, changed = gen.sibling_spec(spec, meta, state_rev=sb.get("state_rev", True), param_perm=sb.get("param_perm"),
                                           derived_bump=sb.get("derived_bump", True), last_event_incremental=sb.get("last_event_incremental", False))
        if changed or s2.get("then"):
            A.tags.append("sibling_checked")
            for c in changed:
                A.tags.append("sibling:" + c)
            B = Session(case, s2, m2, who="second model with the same names: ", partner=A, touch_env=pts[0])
            if B.open():
                okB = B.step(pts[0], forms[0], "point0", symbolic=True)
                # the first instance again, WITHOUT touching its parameters (they are still those of point 0)
                okA = A.step(A.keep_params(pts[1]), forms[1], "after-sibling", set_params=False) if okB else False
                if okA and okB:
                    B.step(pts[1], forms[1], "point1") and A.step(pts[2 % len(pts)], forms[2 % len(pts)], "after-sibling")
    C = None
    if ok and probe and not (A.mism or A.viol) and (B is None or not (B.mism or B.viol)):
        # a deep copy of the evaluated model is one more live instance: it gets other parameter values, the original is
        # evaluated again without being touched, and the other way round
        A.twins(A.keep_params(pts[1]), "twin")
        C = A.clone()
        if C is not None:
            A.tags.append("deepcopy_checked")
            e2 = dict(pts[1]); e2.update({p: pts[2 % len(pts)][p] for p in A.params})
            C.step(e2, forms[1], "copy-point1") and A.step(A.keep_params(pts[0]), forms[0], "after-copy", set_params=False) \
                and C.step(C.keep_params(pts[0]), forms[0], "copy-after-original", set_params=False)
    A.finish()
    if B is not None and not B.dead:
        B.finish()
    if C is not None:
        C.finish()
        A.viol += [dict(v, signature="deepcopy:" + v.get("signature", "")) for v in C.viol]
        A.mism += [dict(m_, what="deepcopy:" + m_["what"]) for m_ in C.mism]
    if not (A.mism or A.viol) and (B is None or not (B.mism or B.viol)):
        A.after_scribble(pts[1 % len(pts)], forms[1 % len(pts)], "after-caller-wrote-into-results")
    r = {"nontrivial": bool(A.nE >= 1 and A.nonzero), "mismatches": A.mism, "violations": A.viol, "tags": A.tags,
         "sample": {"spec": spec, "point": case["points"][0] if case["points"] else None}}
    if B is not None:
        for v in B.viol:
            v = dict(v); v["signature"] = "sibling:" + v.get("signature", "")
            r["violations"].append(v)
        for m_ in B.mism:
            r["mismatches"].append(dict(m_, what="sibling:" + m_["what"]))
        r["tags"] += [tg for tg in B.tags if tg.startswith(("staged", "touch", "kept", "x:", "t:", "p:"))]
        if B.viol or B.mism:
            r["sample"] = {"first": spec, "second": B.spec}
    return r


def pairs_close(a_n, V_cols_n, a_o, V_o, Ba, BV):
    """the (rate, state-change column) pairs of the real model equal the declared ones as a multiset; greedy matching, every
    entry relative to the bound of the expected entry (no absolute floor)"""
    n = len(a_o)
    if len(a_n) != n:
        return False
    used = [False] * n
    for j in range(n):
        for k in range(n):
            if not used[k] and scaled_close([a_n[k]], [a_o[j]], [Ba[j]]) and scaled_close(V_cols_n[k], V_o[j], BV[j]):
                used[k] = True
                break
        else:
            return False
    return True


def sig(meta, what):
    return "%s:routes=%s" % (what, ",".join(sorted(set(meta["routes"]))))
