"""
C01 - a model definition is assembled into exactly the equations it describes.

Correspondence: the Lean `assemble` (folds proved in Pygom/Props/C01.lean to equal Σ rate·net + explicit
terms and V·a + pure) against the real pygom objects, symbolically (exact point evaluation, 50 digits)
and numerically (compiled evaluators).  Direct oracle (no Lean): the harness's own interpreter computes
Σ rate × net + ODE terms from the abstract process set.
"""
import copy
import json
import random

import numpy as np

from .. import exprs as E
from .. import gen
from .common import (multiset_close, build_both, compare_errors, fl, lean_assemble, mpf, net_oracle, num_close, sym_vs_lean, vec_close, mpf_s)

PROP = "C01"
LEAN = {"module": "Pygom.Props.C01",
        "required": ["Pygom.C01.ode_entry", "Pygom.C01.vmat_entry", "Pygom.C01.rate_entry", "Pygom.C01.pure_entry",
                     "Pygom.C01.ode_eq_vmat_mul_rates", "Pygom.C01.reactant_entry", "Pygom.C01.derived_subst",
                     "Pygom.C01.stateIndex_error_iff", "Pygom.C01.assemble_spec", "Pygom.C01.resolveEvents_wf"]}
BUDGET = {"quick": {"models": 160, "cython": 3, "malformed": 24},
          "thorough": {"models": 3000, "cython": 40, "malformed": 300}}
RULE = ("random model definitions (1-5 states incl. range-style names, 1-5 params, 0-5 events of 1-3 B/D/T transitions, numeric "
        "and symbolic magnitudes, linear/mass-action/saturating/exponential/time-periodic rates, explicit ODE terms, derived "
        "parameters, every API route) + a malformed stream; a case is non-trivial when it has >=1 event and a non-zero ODE value")
ASSUMPTIONS = ["sympy parser/subs and lambdify/autowrap are translation-validated per case, not proved",
               "identity of expressions is decided by exact evaluation at 3 random rational points (50 digits)"]
TRUSTED = ["harness generator, AST printer (exprs.to_str) and interpreter (exprs.ev)", "Lean driver JSON codec"]


def malform(rng, spec, meta):
    """one structural defect the real code and the model must both reject (or both accept)"""
    spec = copy.deepcopy(spec)
    kind = rng.choice(["unknown_state", "ode_in_event", "two_equations", "same_origin_dest", "death_with_dest",
                       "no_rate", "rate_and_equation", "birth_both_ends", "t_missing_dest", "unknown_ode_state"])
    st = meta["states"]
    rate = E.mul(E.var(meta["params"][0]), E.var(st[0]))
    T = lambda **k: dict({"type": "T", "origin": st[0], "dest": st[-1], "mag": E.num(1), "eq": None}, **k)
    ev = None
    if kind == "unknown_state":
        ev = {"rate": rate, "transitions": [{"type": "D", "origin": "Q9", "dest": None, "mag": E.num(1), "eq": None}]}
    elif kind == "ode_in_event":
        ev = {"rate": rate, "transitions": [{"type": "ODE", "origin": st[0], "dest": None, "mag": E.num(1), "eq": None}]}
    elif kind == "two_equations":
        ev = {"rate": None, "transitions": [{"type": "D", "origin": st[0], "dest": None, "mag": E.num(1), "eq": rate},
                                            {"type": "B", "origin": None, "dest": st[-1], "mag": E.num(1), "eq": rate}]}
    elif kind == "same_origin_dest":
        ev = {"rate": rate, "transitions": [T(dest=st[0])]}
    elif kind == "death_with_dest":
        ev = {"rate": rate, "transitions": [{"type": "D", "origin": st[0], "dest": st[-1], "mag": E.num(1), "eq": None}]}
    elif kind == "no_rate":
        ev = {"rate": None, "transitions": [{"type": "D", "origin": st[0], "dest": None, "mag": E.num(1), "eq": None}]}
    elif kind == "rate_and_equation":
        ev = {"rate": rate, "transitions": [{"type": "D", "origin": st[0], "dest": None, "mag": E.num(1), "eq": rate}]}
    elif kind == "birth_both_ends":
        ev = {"rate": rate, "transitions": [{"type": "B", "origin": st[0], "dest": st[-1], "mag": E.num(2), "eq": None}]}
    elif kind == "t_missing_dest":
        ev = {"rate": rate, "transitions": [{"type": "T", "origin": st[0], "dest": None, "mag": E.num(1), "eq": None}]}
    elif kind == "unknown_ode_state":
        spec["ctor"]["ode"].append({"type": "ODE", "origin": "Q9", "dest": None, "mag": E.num(1), "eq": rate})
    if ev is not None:
        if rng.random() < 0.5:
            spec["ctor"]["event"].append(ev)
        else:
            spec["then"].append(dict(op="add_event", **ev))
    return spec, kind


def make_cases(rng, tier, budget):
    cases = []
    for i in range(budget["models"]):
        r = random.Random(rng.getrandbits(64))
        spec, meta = gen.gen_model(r)
        pts = [gen.rand_point(r, meta) for _ in range(3)]
        cases.append({"spec": spec, "meta": meta, "points": [{k: str(v) for k, v in p.items()} for p in pts],
                      "backend": "cython" if i < budget["cython"] else "lambda", "malformed": None})
    for i in range(budget["malformed"]):
        r = random.Random(rng.getrandbits(64))
        spec, meta = gen.gen_model(r, min_events=1)
        spec2, kind = malform(r, spec, meta)
        cases.append({"spec": spec2, "meta": meta, "points": [], "backend": "lambda", "malformed": kind})
    return cases


def search_cases(rng, tier, budget):
    out = []
    for i in range(budget["models"] * 3):
        r = random.Random(rng.getrandbits(64))
        spec, meta = gen.gen_model(r)
        pts = [gen.rand_point(r, meta) for _ in range(2)]
        out.append({"spec": spec, "meta": meta, "points": [{k: str(v) for k, v in p.items()} for p in pts],
                    "backend": "lambda", "malformed": None})
    return out


def sibling(spec, meta):
    """a second definition with the SAME names: derived parameters redefined (if any) and the state list
    declared in reverse order.  Built in the same process right after the first model, it exposes state that
    leaks between model instances (module-level caches keyed by strings, shared class attributes)."""
    import copy
    s2, m2 = copy.deepcopy(spec), copy.deepcopy(meta)
    changed = False
    if s2.get("derived"):
        s2["derived"][0][1] = E.add(s2["derived"][0][1], E.num(1))
        changed = True
    st = s2["state"]
    if "list" in st and len(st["list"]) >= 2:
        st["list"] = list(reversed(st["list"]))
        m2["states"] = gen.expand_decl([x if isinstance(x, str) else x[0] for x in st["list"]])
        changed = True
    return (s2, m2) if changed else (None, None)


def run_case(case):
    r = check_model(case)
    if case.get("malformed") or r["mismatches"] or r["violations"] or not case.get("points"):
        return r
    s2, m2 = sibling(case["spec"], case["meta"])
    if s2 is None:
        return r
    c2 = dict(case, spec=s2, meta=m2, points=case["points"][:1])
    r2 = check_model(c2)
    r["tags"].append("sibling_checked")
    for v in r2["violations"]:
        v = dict(v); v["what"] = "second model with the same names (built after the first): " + v["what"]
        v["signature"] = "sibling:" + v.get("signature", "")
        r["violations"].append(v)
    for m_ in r2["mismatches"]:
        r["mismatches"].append(dict(m_, what="sibling:" + m_["what"]))
    if r2["violations"] or r2["mismatches"]:
        r["sample"] = {"first": case["spec"], "second": s2}
    return r


def check_model(case):
    from fractions import Fraction
    spec, meta = case["spec"], case["meta"]
    tags, mism, viol = [], [], []
    lr, model, perr, stage = build_both(spec, backend=case.get("backend", "lambda"))
    mism += compare_errors(lr, perr, stage)
    tags.append("malformed:%s" % case["malformed"] if case.get("malformed") else "wellformed")
    if perr is not None or lr.get("err") is not None:
        tags.append("rejected:%s" % (perr or lr.get("err")))
        if not case.get("malformed") and perr is not None:
            # a well-formed definition the real code rejects: the property cannot hold for it
            viol.append({"what": "well-formed model definition rejected with %s at %s" % (perr, stage),
                         "signature": "reject:%s:%s:%s" % (perr, stage, ",".join(sorted(set(meta["routes"])))),
                         "detail": json.dumps(spec)[:1500]})
        return {"nontrivial": case.get("malformed") is not None, "mismatches": mism, "violations": viol, "tags": tags,
                "sample": {"malformed": case.get("malformed"), "python": perr, "lean": lr.get("err")}}
    if case.get("malformed"):
        tags.append("malformed_accepted")
        return {"nontrivial": True, "mismatches": mism, "violations": viol, "tags": tags}

    states = [str(s) for s in model.state_list]
    params = [str(p) for p in model.param_list]
    if states != lr["states"] or params != lr["params"]:
        mism.append({"what": "names", "detail": "python %s %s lean %s %s" % (states, params, lr["states"], lr["params"])})
        return {"nontrivial": False, "mismatches": mism, "violations": viol, "tags": tags}
    nS, nE = len(states), len(lr["rates"])
    for k in set(meta["kinds"]):
        tags.append("rate:" + k)
    for r in set(meta["routes"]):
        tags.append("route:" + r)
    tags.append("nS=%d" % nS); tags.append("nE=%d" % nE)
    if meta["odes"]: tags.append("has_ode")
    if meta["derived"]: tags.append("has_derived")
    if any(":" in str(x) for x in (spec["state"].get("list") or [spec["state"].get("str")])): tags.append("range_names")
    tags.append("backend:" + case.get("backend", "lambda"))

    ode_s = list(model.get_ode_eqn())
    V_s = model.get_StateChangeMatrix()
    a_s = list(model.get_EventRateVector())
    p_s = list(model.get_pureOdeVector())
    lam = model.get_ReactantMatrix()
    # reactant matrix exactly
    lam_l = lr["react_cols"]
    lam_p = [[int(lam[i, j]) for i in range(nS)] for j in range(nE)]
    if lam_p != lam_l:
        mism.append({"what": "reactant_matrix", "detail": "python %s lean %s" % (lam_p, lam_l)})
    nonzero = False
    for pt in case["points"]:
        env = {k: Fraction(v) for k, v in pt.items()}
        sym_vs_lean(ode_s, lr["ode"], env, "get_ode_eqn", mism, tags)
        sym_vs_lean([V_s[i, j] for j in range(nE) for i in range(nS)], [e for col in lr["vmat_cols"] for e in col], env,
                    "get_StateChangeMatrix", mism, tags)
        sym_vs_lean(a_s, lr["rates"], env, "get_EventRateVector", mism, tags)
        sym_vs_lean(p_s, lr["pure"], env, "get_pureOdeVector", mism, tags)
        # numeric evaluators
        x = fl(env, states); th = fl(env, params); t = float(env["t"])
        try:
            model.parameters = th
            f_n = np.asarray(model.ode(x, t), float).ravel()
            V_n = np.asarray(model.vMat(x, t), float).reshape(nS, nE) if nE > 0 else np.zeros((nS, 0))
            a_n = np.asarray(model.eventRateVector(x, t), float).ravel() if nE > 0 else np.zeros(0)
            p_n = np.asarray(model.pureOdeVector(x, t), float).ravel()
        except Exception as exc:
            if nE == 0:
                tags.append("no_events_evaluator_error")
                f_n = None
            else:
                viol.append({"what": "evaluator raised %s: %s" % (type(exc).__name__, str(exc)[:200]),
                             "signature": "evaluator-raise:%s" % type(exc).__name__, "detail": json.dumps(pt)})
                break
        if f_n is None:
            continue
        try:
            f_l = [E.ev(e, env) for e in lr["ode"]]
            V_l = [[E.ev(e, env) for e in col] for col in lr["vmat_cols"]]
            a_l = [E.ev(e, env) for e in lr["rates"]]
            p_l = [E.ev(e, env) for e in lr["pure"]]
            f_o, V_o, a_o, p_o = net_oracle(meta, spec, env)
        except E.Undefined:
            tags.append("undefined_point")
            continue
        if any(abs(v) > 1e-12 for v in f_l):
            nonzero = True
        if not vec_close(f_n, f_l): mism.append({"what": "ode(x,t)", "detail": "python %s lean %s at %s" % (list(f_n), [mpf_s(v) for v in f_l], pt)})
        if not vec_close(a_n, a_l): mism.append({"what": "eventRateVector(x,t)", "detail": "python %s lean %s" % (list(a_n), [mpf_s(v) for v in a_l])})
        if not vec_close(p_n, p_l): mism.append({"what": "pureOdeVector(x,t)", "detail": "python %s lean %s" % (list(p_n), [mpf_s(v) for v in p_l])})
        Vn_cols = [[V_n[i, j] for i in range(nS)] for j in range(nE)]
        if not all(vec_close(c1, c2) for c1, c2 in zip(Vn_cols, V_l)):
            mism.append({"what": "vMat(x,t)", "detail": "python %s lean %s" % (Vn_cols, [[mpf_s(v) for v in c] for c in V_l])})
        # direct oracle, no Lean: the property itself
        if not vec_close(f_n, f_o):
            viol.append({"what": "ode(x,t) != sum rate*net + explicit terms", "signature": sig(meta, "ode"),
                         "detail": "ode=%s expected=%s at %s" % (list(f_n), [mpf_s(v) for v in f_o], pt)})
        # event order depends on the route (constructor keywords are processed event, transition, birth_death,
        # then add_* calls), so rates and columns are compared as a multiset of (rate, column) pairs
        got = sorted([[float(a_n[j])] + [float(v) for v in Vn_cols[j]] for j in range(nE)])
        exp = sorted([[float(a_o[j])] + [float(v) for v in V_o[j]] for j in range(len(a_o))])
        if not multiset_close(got, exp):
            viol.append({"what": "(eventRateVector, vMat column) pairs != declared (rate, magnitudes)", "signature": sig(meta, "rates+vmat"),
                         "detail": "got=%s expected=%s" % (got, exp)})
        recon = V_n.dot(a_n) + p_n if nE > 0 else p_n
        if not vec_close(f_n, recon, rel=1e-8, abs_=1e-9):
            viol.append({"what": "ode != vMat . eventRateVector + pureOdeVector", "signature": sig(meta, "recon"),
                         "detail": "ode=%s V.a+p=%s" % (list(f_n), list(recon))})
        if viol or mism:
            break
    return {"nontrivial": bool(nE >= 1 and nonzero), "mismatches": mism, "violations": viol, "tags": tags,
            "sample": {"spec": spec, "point": case["points"][0] if case["points"] else None}}


def sig(meta, what):
    routes = set(meta["routes"])
    if "legacy" in routes and any(tr["mag"] != ["num", "1"] for p, r in zip(meta["procs"], meta["routes"]) if r == "legacy" for tr in p["transitions"]):
        return "legacy-route-drops-magnitude"
    return "%s:routes=%s" % (what, ",".join(sorted(routes)))
