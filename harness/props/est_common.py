"""
Shared by C17 / C18: the catalogue of pygom.common_models used for estimation cases, reference
trajectories, loss-object construction "from scratch", exact float <-> rational conversion.
"""
import math
from fractions import Fraction

import numpy as np

from .. import bootstrap

# name -> dict(params (model order), states (model order), fixed (not estimated), ranges for true values,
#              x0 builder, time horizon).   All values are drawn by the case generators from `rng`.
CATALOGUE = {
    "SIR_norm": dict(params=["beta", "gamma"], states=["S", "I", "R"], fixed={},
                     true={"beta": (0.3, 0.9), "gamma": (0.1, 0.4)}, scale=1.0, horizon=(20, 60), epi="I"),
    "SIR": dict(params=["beta", "gamma", "N"], states=["S", "I", "R"], fixed={"N": (200, 2000)},
                true={"beta": (0.3, 0.9), "gamma": (0.1, 0.4)}, scale="N", horizon=(20, 60), epi="I"),
    "SIS": dict(params=["beta", "gamma", "N"], states=["S", "I"], fixed={"N": (200, 2000)},
                true={"beta": (0.4, 0.9), "gamma": (0.1, 0.3)}, scale="N", horizon=(15, 40), epi="I"),
    "SEIR": dict(params=["beta", "alpha", "gamma", "N"], states=["S", "E", "I", "R"], fixed={"N": (200, 2000)},
                 true={"beta": (0.4, 0.9), "alpha": (0.2, 0.8), "gamma": (0.1, 0.4)}, scale="N", horizon=(30, 80), epi="I"),
    "Lotka_Volterra": dict(params=["alpha", "beta", "gamma", "delta"], states=["x", "y"], fixed={},
                           true={"alpha": (0.5, 1.2), "beta": (0.2, 0.6), "gamma": (0.2, 0.6), "delta": (0.5, 1.2)},
                           scale=None, horizon=(6, 14), epi=None),
    "SIR_Birth_Death": dict(params=["beta", "gamma", "mu"], states=["S", "I", "R", "N"], fixed={"mu": (0.01, 0.03)},
                            true={"beta": (0.5, 1.5), "gamma": (0.1, 0.4)}, scale=1.0, horizon=(20, 50), epi="I"),
}


def frac(x):
    """exact rational of a float as the driver's string, 'inf' for +inf, None for nan/-inf"""
    x = float(x)
    if math.isnan(x):
        return None
    if math.isinf(x):
        return "inf" if x > 0 else None
    f = Fraction(x)
    return str(f.numerator) if f.denominator == 1 else "%d/%d" % (f.numerator, f.denominator)


def unfrac(s):
    if s is None:
        return float("nan")
    if s == "inf":
        return float("inf")
    return float(Fraction(s))


def uexact(s):
    """driver rational string -> Fraction (None for null, 'inf' stays)"""
    if s is None or s == "inf":
        return s
    return Fraction(s)


def make_model(name, values):
    """a FRESH common_models object with the documented lambda back-end; `values` = all parameters by name"""
    bootstrap.init()
    from pygom import common_models
    m = getattr(common_models, name)(dict(values))
    bootstrap.fast_backend(m)
    return m


def draw_setup(rng, name, n_obs=None):
    """true parameters, fixed parameters, initial state, observation times for a catalogue model"""
    c = CATALOGUE[name]
    vals = {}
    for k, (lo, hi) in c["fixed"].items():
        vals[k] = float(round(rng.uniform(lo, hi))) if hi > 10 else round(rng.uniform(lo, hi), 4)
    for k, (lo, hi) in c["true"].items():
        vals[k] = round(rng.uniform(lo, hi), 4)
    if name == "Lotka_Volterra":
        x0 = [round(rng.uniform(0.8, 2.0), 3), round(rng.uniform(0.8, 2.0), 3)]
    else:
        scale = vals["N"] if c["scale"] == "N" else 1.0
        i0 = round(rng.uniform(0.005, 0.03) * scale, 6 if scale == 1.0 else 0) or 1.0
        st = c["states"]
        x0 = [0.0] * len(st)
        x0[st.index("I")] = float(i0)
        if "E" in st:
            x0[st.index("E")] = float(round(0.5 * i0, 6 if scale == 1.0 else 0))
        if name == "SIR_Birth_Death":
            x0[3] = 1.0
            x0[0] = float(1.0 - x0[1] - x0[2])
        else:
            x0[0] = float(scale - sum(x0[1:]))
    T = rng.uniform(*c["horizon"])
    n = n_obs or rng.randint(8, 16)
    t = [0.0] + [round(T * (k + 1) / n, 6) for k in range(n)]
    return vals, x0, t


def reference(name, values, x0, t):
    """reference trajectory (all states) at t[1:], from a fresh model"""
    m = make_model(name, values)
    m.initial_values = (list(x0), t[0])
    sol = m.integrate(t[1:])
    return np.asarray(sol)[1:, :]


def loss_class(name):
    import pygom
    return getattr(pygom, name)


def fresh_loss(loss, name, values, x0, t, y, obs, target, theta, sigma=None, weight=None):
    """a loss object built from scratch: fresh model, `target` names bound to `theta` BY NAME"""
    m = make_model(name, values)
    L = loss_class(loss)
    kw = dict(target_param=list(target))
    if weight is not None:
        kw["state_weight"] = weight
    if loss == "NormalLoss":
        return L(list(theta), m, list(x0), t[0], t[1:], y, list(obs), sigma=sigma if sigma is not None else 1.0, **kw)
    if loss == "GammaLoss":
        return L(list(theta), m, list(x0), t[0], t[1:], y, list(obs), shape=sigma if sigma is not None else 2.0, **kw)
    if loss == "NegBinomLoss":
        return L(list(theta), m, list(x0), t[0], t[1:], y, list(obs), k=sigma if sigma is not None else 1.0, **kw)
    return L(list(theta), m, list(x0), t[0], t[1:], y, list(obs), **kw)


def rel_close(a, b, rel=1e-9, abs_=1e-12):
    a, b = float(a), float(b)
    if math.isnan(a) or math.isnan(b):
        return False
    if math.isinf(a) or math.isinf(b):
        return a == b
    return abs(a - b) <= abs_ + rel * max(abs(a), abs(b))
