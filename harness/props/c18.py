"""
C18 - fit stays inside the box and never returns something worse than its start.   (PARTIAL: the optimiser is assumed)

Correspondence (model <-> code): `scipy.optimize.minimize` *as seen from pygom.loss.base_loss* is wrapped for the
duration of the call; the bounds array, the method and the start it receives are compared with the Lean model
(`Pygom.Fit.boxBounds`, `chooseMethod`, `prepBounds`: op `boxBounds`), exactly (floats as rationals), including the
InputError paths and the lb=None / ub=None paths.  The optimiser contract assumed by the theorems
(`BoxDescent`, `StopsAtStationary`) is observed on every call: what minimize returned lies in the bounds it was
given, its objective is not above the start's, and a zero gradient at the start returns the start.

Direct oracle (no Lean): result inside [lb, ub] exactly; cost(result) <= cost(x) (+1e-9 relative), both recomputed by a
loss object built from scratch with the parameters bound by name; fit(theta*) = theta* to 1e-5 on noise-free data
generated from a reference trajectory.

SEQUENCES and FORMS (STRENGTHEN_GUIDE families 1-5).  Two in five of the cases continue with 1-2 FURTHER fit calls on the
SAME loss object (`case["then"]`): another box that excludes the optimum of the earlier call in one coordinate, a sub-box, the
same box from another start, a wider box; between the calls the user may evaluate the cost elsewhere, scramble the shared
ode's parameters, let another loss object on the same ode fit, or continue on a `copy.deepcopy` of the object;
`full_output=True` is the secondary output form.  Every call of the sequence is judged by the same direct oracle with the
box and the start OF THAT CALL (the from-scratch objects know nothing of the history), the last call is repeated on a fresh
object as reference, all returned estimates are kept and compared at the end with the copies taken when they were
returned; x / lb / ub objects that come back changed are tagged `input-modified:*` (a side effect, not a violation).  The box and the start are handed over in the
form the call names: list / tuple / float ndarray / list of numpy scalars, and - with integer-valued bounds whose top (or
bottom) unit slice contains the start or the generating parameters - list / tuple / ndarray of INTEGERS and numpy integer
scalars; an upper bound may have `None` or `inf` entries (the form scipy takes for "unbounded").
In the Lean model `Fit.fit` is a function of (minimize, cost, sens, x, lb, ub) and nothing else - there is no instance
state, bounds are rationals whatever container or dtype carried them (`prepBounds` / `boxBounds`), so a second call is
independent of the first by construction; that is compared here as a correspondence (result on the reused object = result
on a fresh object, bounds handed to the optimiser = the exact rationals of the numbers given), while the violations come
from the direct oracle.
"""
import copy
import json
import math
import random

import numpy as np

from .. import bootstrap, gen, leanio, pymodel
from . import est_common as EC

PROP = "C18"
LEVEL = "proof"
LEAN = {"module": "Pygom.Props.C18",
        "required": ["Pygom.C18.box_bounds_rows", "Pygom.C18.fit_in_box_partial", "Pygom.C18.fit_contract_partial", "Pygom.C18.fit_at_truth_partial",
                     "Pygom.C18.fit_at_truth_of_zero_residual", "Pygom.C18.box_bounds_C_counterexample", "Pygom.C18.grad_zero_at_truth",
                     "Pygom.C18.prepBounds_ok", "Pygom.C18.fit_contract_all_forms_partial", "Pygom.C18.fit_lower_only_partial",
                     "Pygom.C18.fit_unbounded_partial", "Pygom.C18.fit_at_truth_all_forms_partial", "Pygom.C18.fit_rejects_bad_lengths"]}
BUDGET = {"quick": {"fits": 130, "random": 20, "malformed": 14, "intbox": 24},
          "thorough": {"fits": 2400, "random": 320, "malformed": 120, "intbox": 300}}
RULE = ("real fit(x, lb, ub) on pygom.common_models SIR_norm / SIR / SIS / SEIR / Lotka_Volterra / SIR_Birth_Death and random closed "
        "(T-only, linear/mass-action) models; SquareLoss / NormalLoss / PoissonLoss / GammaLoss / NegBinomLoss; 1-2 observed "
        "states; all or a subset of the parameters as targets in random order; noise-free or noisy data; starts inside the box, "
        "on its boundary, and at the generating parameters; also lb=None / ub=None and mismatched lengths.  A case is "
        "non-trivial when the box has >= 2 coordinates with lb != ub-pattern distinguishable from a C-order packing "
        "(i.e. n >= 2) or the start is the truth.  Two in five of the fit cases go on with 1-2 further fit calls on the same object "
        "(other box excluding the earlier optimum / sub-box / same box / wider box; interludes: cost elsewhere, ode parameters "
        "scrambled, another loss object on the same ode fitting, deepcopy; full_output=True), each judged with its own box and "
        "start, the last repeated on a fresh object (tags call:k:*, then:*, interlude:*); x/lb/ub are handed over as list / tuple / "
        "float array / numpy scalars, 'intbox' cases (and some further calls) use integer-valued bounds as int list / tuple / int "
        "array / numpy ints with the start or the generating parameters in the top or bottom unit slice (tags form:*); upper "
        "bounds may carry None / inf entries.")
ASSUMPTIONS = ["scipy L-BFGS-B returns a point of the box it was given (always) whose objective is not above the start's WHEN the jac it "
               "is handed is the gradient of fun (BoxDescent; gradient consistency is property C07) - observed on every call",
               "scipy L-BFGS-B returns its start when every component of the gradient it is handed there is <= pgtol = 1e-5 "
               "(StopsAtStationary) - observed on every such start",
               "the recomputation oracle uses pygom's own integrator and loss kernel through a freshly built loss object "
               "(C02/C06/C14 cover those)"]
TRUSTED = ["harness wrapper of base_loss.minimize", "exact float->rational conversion", "Lean driver JSON codec",
           "the optimiser contract (BoxDescent, StopsAtStationary) is a hypothesis of the Lean theorems"]

LOSSES = ["SquareLoss", "SquareLoss", "NormalLoss", "PoissonLoss", "GammaLoss", "NegBinomLoss"]


def gen_random_model(rng):
    """a closed random model: transitions only, linear / mass-action rates, unit magnitudes -> bounded, non-negative"""
    from fractions import Fraction
    from .. import exprs as E
    while True:
        spec, meta = gen.gen_model(rng, min_states=2, max_states=4, max_params=3, min_events=2, max_events=4,
                                   kinds=[("linear", 3), ("mass", 2)], allow_time=False, sym_mag=False, max_mag=1, allow_ode=False,
                                   allow_derived=False, allow_range=False, types=(("T", 1),), routes=("event",), max_trans=1)
        ok = True
        for p in meta["procs"]:
            env = {n: Fraction(1) for n in meta["states"] + meta["params"]}
            env["t"] = Fraction(0)
            env[p["transitions"][0]["origin"]] = Fraction(0)
            if E.ev(p["rate"], env) != 0:        # the rate must vanish with its origin: states stay in [0, total]
                ok = False
        if ok:
            return spec, meta


def gen_fit(rng, random_model=False):
    if random_model:
        spec, meta = gen_random_model(rng)
        params, states = meta["params"], meta["states"]
        vals = {p: round(rng.uniform(0.2, 1.0), 4) for p in params}
        x0 = [round(rng.uniform(0.5, 3.0), 3) for _ in states]
        T = rng.uniform(3, 8)
        n = rng.randint(8, 14)
        t = [0.0] + [round(T * (k + 1) / n, 6) for k in range(n)]
        model = {"random": spec, "params": params, "states": states}
        est = list(params)
        scale = 1.0
    else:
        name = rng.choice(list(EC.CATALOGUE))
        cat = EC.CATALOGUE[name]
        vals, x0, t = EC.draw_setup(rng, name)
        model = name
        params, states = cat["params"], cat["states"]
        est = list(cat["true"])
        scale = vals.get("N", 1.0) if cat["scale"] == "N" else 1.0
    loss = rng.choice(LOSSES)
    if loss == "PoissonLoss" and scale < 50:
        loss = "NegBinomLoss" if rng.random() < 0.5 else "SquareLoss"
    nobs = 1 if rng.random() < 0.6 else 2
    obs = rng.sample(states[1:] if len(states) > 2 else states, min(nobs, len(states) - 1 if len(states) > 2 else len(states)))
    rng.shuffle(est)
    if rng.random() < 0.4 and len(est) > 1:
        est = est[:rng.randint(1, len(est) - 1)]
    lb = [round(vals[p] * rng.uniform(0.2, 0.9), 5) for p in est]
    ub = [round(vals[p] * rng.uniform(1.1, 3.0), 5) for p in est]
    start_kind = rng.choice(["inside", "inside", "boundary", "truth", "truth", "corner"])
    if start_kind == "truth":
        x = [vals[p] for p in est]
    elif start_kind == "inside":
        x = [round(l + (u - l) * rng.uniform(0.05, 0.95), 6) for l, u in zip(lb, ub)]
    elif start_kind == "corner":
        x = [rng.choice([l, u]) for l, u in zip(lb, ub)]
    else:
        x = [round(l + (u - l) * rng.uniform(0.05, 0.95), 6) for l, u in zip(lb, ub)]
        k = rng.randrange(len(x))
        x[k] = rng.choice([lb[k], ub[k]])
    noise = "none" if start_kind == "truth" and rng.random() < 0.85 else rng.choice(["none", "noisy"])
    return {"kind": "fit", "model": model, "values": vals, "x0": x0, "t": t, "loss": loss, "obs": obs, "target": est,
            "spread": round(rng.uniform(0.5, 3.0), 3) if loss in ("NormalLoss", "GammaLoss", "NegBinomLoss") else None,
            "lb": lb, "ub": ub, "x": x, "start": start_kind, "noise": noise, "noise_seed": rng.getrandbits(31),
            "bounds_form": rng.choice(["list", "list", "array"]), "ref": rng.choice(["integrate2", "integrate2", "odeint"])}


FLOAT_FORMS = ["list", "list", "tuple", "array", "npfloat_list"]
INT_FORMS = ["int_list", "int_list", "int_tuple", "int_array", "npint_list"]


def _draw_start(rng, kind, lb, ub, truth):
    """a start of the named kind inside [lb, ub] (entries of ub may be None / inf: treated as lb + 2*|truth|)"""
    hi = [(u if (u is not None and math.isfinite(u)) else l + 2.0 * abs(v) + 1.0) for l, u, v in zip(lb, ub, truth)]
    inside = lambda: [round(l + (u - l) * rng.uniform(0.05, 0.95), 6) for l, u in zip(lb, hi)]
    if kind == "truth":
        return list(truth)
    if kind == "corner":
        return [rng.choice([l, u]) for l, u in zip(lb, hi)]
    if kind == "boundary":
        x = inside(); k = rng.randrange(len(x)); x[k] = rng.choice([lb[k], hi[k]])
        return x
    if kind == "top_slice":          # within the last unit below the upper bound, where that is inside the box
        return [round(max(l, u - rng.uniform(0.02, 0.6)), 6) for l, u in zip(lb, hi)]
    return inside()


def _int_box(rng, truth):
    """integer-valued bounds: the generating value lies in the top unit slice (ub = ceil) and, where it exceeds 1, possibly in
    the bottom one (lb = floor)"""
    lb, ub = [], []
    for v in truth:
        u = float(math.ceil(v * rng.choice([1.0, 1.0, 1.0, 1.3, 2.2])))
        if u < v or u == 0.0:
            u = float(math.ceil(v)) or 1.0
        l = float(math.floor(v * rng.choice([0.0, 0.0, 0.7, 1.0])))
        lb.append(l); ub.append(u if u > l else l + 1.0)
    return lb, ub


def _intbox_ok(c):
    """integer-valued bounds around rates below 1 mean lb = 0: a ZERO RATE is then inside the box.  That is a degenerate
    corner of the problem, not of fit: Lotka-Volterra without predation / death has no closed orbits and blows up
    (IntegrationError out of sensitivity), and the likelihood losses are undefined (log 0 -> nan) where a zero rate keeps an
    observed state at 0.  Integer boxes are therefore drawn for the bounded catalogue / random models with the square and
    normal losses only (found as false alarms of the first version of this probe, seeds 1 and 2)."""
    return c["model"] != "Lotka_Volterra" and c["loss"] in ("SquareLoss", "NormalLoss")


def _further_calls(rng, c):
    """1-2 more fit calls on the same loss object"""
    truth = [c["values"][p] for p in c["target"]]
    n = len(truth)
    out = []
    for _ in range(rng.choice([1, 1, 2])):
        kind = rng.choice(["exclude", "exclude", "subbox", "same", "wider", "intbox"])
        if kind == "intbox" and not _intbox_ok(c):
            kind = "subbox"
        forms = {"x": rng.choice(FLOAT_FORMS), "lb": rng.choice(FLOAT_FORMS), "ub": rng.choice(FLOAT_FORMS)}
        if kind == "exclude":        # the generating parameters (the optimum of the earlier call) are outside, in coordinate k
            lb = [round(v * rng.uniform(0.2, 0.9), 5) for v in truth]; ub = [round(v * rng.uniform(1.1, 3.0), 5) for v in truth]
            k = rng.randrange(n)
            if rng.random() < 0.5:
                lb[k], ub[k] = round(truth[k] * rng.uniform(1.15, 1.4), 5), round(truth[k] * rng.uniform(1.6, 3.0), 5)
            else:
                lb[k], ub[k] = round(truth[k] * rng.uniform(0.2, 0.5), 5), round(truth[k] * rng.uniform(0.6, 0.85), 5)
            start = rng.choice(["inside", "inside", "boundary", "corner"])
        elif kind == "subbox":
            lb = [round(v * rng.uniform(0.6, 0.95), 5) for v in truth]; ub = [round(v * rng.uniform(1.05, 1.5), 5) for v in truth]
            start = rng.choice(["inside", "boundary", "truth", "corner"])
        elif kind == "same":
            lb, ub = list(c["lb"]), list(c["ub"])
            start = rng.choice(["inside", "boundary", "truth", "corner"])
        elif kind == "wider":
            lb = [round(l * rng.uniform(0.3, 0.9), 5) for l in c["lb"]]; ub = [round(u * rng.uniform(1.2, 2.0), 5) for u in c["ub"]]
            start = rng.choice(["inside", "truth"])
            if rng.random() < 0.4:   # one coordinate unbounded above, in one of the two forms scipy accepts
                ub[rng.randrange(n)] = rng.choice([None, "inf"])
                forms["ub"] = "list"
        else:
            lb, ub = _int_box(rng, truth)
            start = rng.choice(["truth", "truth", "top_slice", "inside"])
            forms["ub"] = rng.choice(INT_FORMS)
            forms["lb"] = rng.choice(INT_FORMS + FLOAT_FORMS[:2])
        ubn = [(float("inf") if u == "inf" else u) for u in ub]
        out.append({"kind": kind, "lb": lb, "ub": ub, "x": _draw_start(rng, start, lb, ubn, truth), "start": start, "forms": forms,
                    "interlude": rng.choice([None, None, "cost_elsewhere", "ode_scramble", "other_object_fit", "deepcopy"]),
                    "full_output": rng.random() < 0.25})
    return out


def gen_session(rng, random_model=False):
    c = gen_fit(rng, random_model)
    c["forms"] = {"x": rng.choice(FLOAT_FORMS), "lb": rng.choice(FLOAT_FORMS), "ub": rng.choice(FLOAT_FORMS)}
    c["then"] = _further_calls(rng, c)
    return c


def gen_intbox(rng):
    """integer-valued box in integer form; start at the generating parameters of (mostly) noise-free data, in the top unit
    slice, or anywhere inside"""
    c = gen_fit(rng)
    while not _intbox_ok(c):
        c = gen_fit(rng)
    truth = [c["values"][p] for p in c["target"]]
    c["lb"], c["ub"] = _int_box(rng, truth)
    c["start"] = rng.choice(["truth", "truth", "top_slice", "inside"])
    c["x"] = _draw_start(rng, c["start"], c["lb"], c["ub"], truth)
    c["noise"] = "none" if c["start"] == "truth" and rng.random() < 0.85 else rng.choice(["none", "noisy"])
    c["forms"] = {"x": rng.choice(FLOAT_FORMS), "ub": rng.choice(INT_FORMS), "lb": rng.choice(INT_FORMS + FLOAT_FORMS[:2])}
    c["intbox"] = True
    if rng.random() < 0.3:
        c["then"] = _further_calls(rng, c)[:1]
    return c


def gen_malformed(rng):
    c = gen_fit(rng)
    n = len(c["x"])
    kind = rng.choice(["lb_none", "ub_none", "both_none", "len_lb_ub", "len_x"])
    c["malformed"] = kind
    if kind == "lb_none":
        c["lb"] = None
    elif kind == "ub_none":
        c["ub"] = None
    elif kind == "both_none":
        c["lb"] = c["ub"] = None
    elif kind == "len_lb_ub":
        c["ub"] = c["ub"] + [c["ub"][-1] * 2]
    else:
        c["lb"] = c["lb"] + [c["lb"][-1]]
        c["ub"] = c["ub"] + [c["ub"][-1]]
    return c


def make_cases(rng, tier, budget):
    cases = [(gen_session if i % 5 in (1, 3) else gen_fit)(random.Random(rng.getrandbits(64))) for i in range(budget["fits"])]
    cases += [(gen_session if i % 5 in (1, 3) else gen_fit)(random.Random(rng.getrandbits(64)), random_model=True) for i in range(budget["random"])]
    cases += [gen_malformed(random.Random(rng.getrandbits(64))) for _ in range(budget["malformed"])]
    cases += [gen_intbox(random.Random(rng.getrandbits(64))) for _ in range(budget.get("intbox", 0))]
    return cases


def search_cases(rng, tier, budget):
    return [(gen_session if i % 3 else gen_intbox)(random.Random(rng.getrandbits(64))) for i in range(budget["fits"] * 2)]


# ---------------------------------------------------------------------------------------------------------

def build_model(case):
    if isinstance(case["model"], dict):
        m = pymodel.build(case["model"]["random"], backend="lambda")
        m.parameters = dict(case["values"])
        return m
    return EC.make_model(case["model"], case["values"])


def states_of(case):
    return case["model"]["states"] if isinstance(case["model"], dict) else EC.CATALOGUE[case["model"]]["states"]


def make_loss(case, y, theta):
    """a loss object from scratch (fresh model), target parameters bound by name"""
    m = build_model(case)
    L = EC.loss_class(case["loss"])
    kw = {"target_param": list(case["target"])}
    sp = case.get("spread")
    if case["loss"] == "NormalLoss":
        kw["sigma"] = sp
    elif case["loss"] == "GammaLoss":
        kw["shape"] = sp
    elif case["loss"] == "NegBinomLoss":
        kw["k"] = sp
    return L(list(theta), m, list(case["x0"]), case["t"][0], case["t"][1:], y, list(case["obs"]), **kw)


def make_data(case):
    m = build_model(case)
    m.initial_values = (list(case["x0"]), case["t"][0])
    if case.get("ref") == "integrate2":      # the integrator the loss object itself uses: residual exactly 0 at the truth
        from pygom.model import ode_utils
        ref = np.asarray(ode_utils.integrateFuncJac(m.ode_T, m.jacobian_T, np.array(case["x0"], dtype=float), case["t"][0],
                                                    np.array(case["t"][1:], dtype=float), full_output=False, method=m._intName))
    else:
        ref = np.asarray(m.integrate(case["t"][1:]))[1:, :]
    st = states_of(case)
    y = ref[:, [st.index(s) for s in case["obs"]]].copy()
    rs = np.random.RandomState(case["noise_seed"])
    if case["loss"] == "PoissonLoss":
        y = rs.poisson(np.maximum(y, 1e-9)).astype(float) if case["noise"] == "noisy" else np.round(y)
    elif case["noise"] == "noisy":
        y = np.abs(y * (1.0 + 0.05 * rs.standard_normal(y.shape))) + 1e-9
    if y.shape[1] == 1:
        y = y[:, 0]
    return y


def bjson(v):
    if v is None:
        return None
    return [EC.frac(a) if a is not None else None for a in v]


def to_form(v, form):
    """hand a vector over in the named form; None / 'inf' entries only occur with the plain list form"""
    if v is None:
        return None
    v = [(float("inf") if a == "inf" else a) for a in v]
    if form == "tuple":
        return tuple(v)
    if form == "array":
        return np.array(v, dtype=float)
    if form == "npfloat_list":
        return [np.float64(a) for a in v]
    if form == "int_list":
        return [int(a) for a in v]
    if form == "int_tuple":
        return tuple(int(a) for a in v)
    if form == "int_array":
        return np.array([int(a) for a in v], dtype=int)
    if form == "npint_list":
        return [np.int64(a) for a in v]
    return list(v)


def _snapshot(v):
    return None if v is None else [None if a is None else float(a) for a in (v.tolist() if isinstance(v, np.ndarray) else list(v))]


def run_call(obj, case, call, y, k, tags, mism, viol, BL, judge=True):
    """one fit(x, lb, ub) on `obj`, recorded and judged with the box and start of THIS call.  Returns a dict
    (status: 'ok' | 'stop', out: estimate or None)"""
    n = len(call["x"])
    lb, ub = call["lb"], call["ub"]
    ubn = None if ub is None else [(float("inf") if a == "inf" else a) for a in ub]
    forms = call.get("forms") or {"x": "list" if call.get("bounds_form", "list") == "list" else "array",
                                  "lb": call.get("bounds_form", "list"), "ub": call.get("bounds_form", "list")}
    sig_tail = "%s:%dobs" % (case["loss"], len(case["obs"]))
    hist = "" if k == 0 else ":call%d-on-same-object:%s" % (k + 1, call.get("kind", "?"))
    if any(f.startswith("int") or f.startswith("npint") for f in (forms["lb"], forms["ub"])):
        hist += ":integer-bounds"
    if ubn is not None and any(a is None or (a is not None and math.isinf(a)) for a in ubn):
        hist += ":unbounded-above-entry"
    xarg, lbarg, ubarg = to_form(call["x"], forms["x"]), to_form(lb, forms["lb"]), to_form(ub, forms["ub"])
    given = [("x", xarg, _snapshot(xarg)), ("lb", lbarg, _snapshot(lbarg)), ("ub", ubarg, _snapshot(ubarg))]
    seen = []
    orig = BL.minimize

    def rec_minimize(fun, x0, *a, **kw):
        entry = {"x0": [float(v) for v in np.asarray(x0).ravel()], "bounds": kw.get("bounds"), "method": kw.get("method"),
                 "constraints": kw.get("constraints"), "jac_is_sens": kw.get("jac") == obj.sensitivity, "fun_is_cost": fun == obj.cost}
        try:
            entry["f0"] = float(fun(np.asarray(x0, dtype=float)))
            entry["g0"] = [float(v) for v in np.asarray(kw["jac"](np.asarray(x0, dtype=float))).ravel()] if kw.get("jac") is not None else None
        except Exception as exc:
            entry["f0"], entry["g0"] = None, None
            entry["probe_error"] = "%s: %s" % (type(exc).__name__, str(exc)[:120])
        seen.append(entry)
        r = orig(fun, x0, *a, **kw)
        entry["res_x"] = [float(v) for v in np.asarray(r["x"]).ravel()]
        entry["res_fun"] = float(r["fun"])
        entry["message"] = str(r.get("message"))
        return r

    BL.minimize = rec_minimize
    err = None
    out = None
    try:
        if call.get("full_output"):
            out, _res = obj.fit(xarg, lb=lbarg, ub=ubarg, full_output=True)
        else:
            out = obj.fit(xarg, lb=lbarg, ub=ubarg)
    except Exception as exc:
        err = exc
    finally:
        BL.minimize = orig
    for nm, o_, snap in given:
        if _snapshot(o_) != snap:
            tags.append("input-modified:" + nm)      # a side effect alone is not a violation of C18: tagged

    # ---------------- model <-> code : what the optimiser was handed ------------------------------------------
    has_inf = ubn is not None and any(a is not None and math.isinf(a) for a in ubn)
    if has_inf:
        # +inf is not a value of the Lean model's Option Rat bounds: the packing is compared here entry by entry
        # (row i = (lb[i], ub[i]), which is what C18.box_bounds_rows states)
        tags.append("bounds-with-inf:packing-compared-directly")
        lr = {"bounds": [[EC.frac(l), ("inf" if (u is not None and math.isinf(u)) else (None if u is None else EC.frac(u)))] for l, u in zip(lb, ubn)],
              "bounds_C": None, "method": "L-BFGS-B"}
    else:
        lr = leanio.driver().call({"op": "boxBounds", "n": n, "lb": bjson(lb), "ub": bjson(ubn), "hasA": False})
    if lr.get("err"):
        ename = type(err).__name__ if err is not None else None
        if ename != lr["err"]:
            mism.append({"what": "fit:accept/reject", "detail": "lean %s python %s (%s)" % (lr["err"], ename, str(err)[:200])})
        tags.append("both-raise:" + lr["err"])
        return {"status": "stop", "nontrivial": True}
    if err is not None and not seen:
        # raised before reaching the optimiser although the model accepts the arguments
        if case.get("malformed") in ("lb_none", "ub_none") and isinstance(err, ValueError):
            tags.append("numpy-reshape-error-on-one-sided-bounds")     # lengths differ: np.reshape raises; not modelled
            return {"status": "stop", "nontrivial": False}
        viol.append({"what": "fit raised %s before calling the optimiser: %s" % (type(err).__name__, str(err)[:160]),
                     "signature": "fit:raised-before-minimize:%s:%s%s" % (type(err).__name__, sig_tail, hist), "detail": str(err)[:300] + " forms=%s" % forms})
        return {"status": "stop", "nontrivial": True}
    if seen:
        s = seen[0]
        got = np.asarray(s["bounds"], dtype=object)
        fr = lambda v: None if v is None else ("inf" if math.isinf(float(v)) else EC.frac(float(v)))
        gotl = [[fr(v) for v in row] for row in got.tolist()] if got.ndim == 2 else None
        if gotl != lr["bounds"]:
            mism.append({"what": "fit:bounds handed to minimize", "detail": "python %s lean %s (forms %s)" % (gotl, lr["bounds"], forms)})
            if gotl == lr["bounds_C"]:
                tags.append("bounds-are-C-order")
        if s["method"] != lr["method"]:
            mism.append({"what": "fit:method", "detail": "python %s lean %s" % (s["method"], lr["method"])})
        if s["x0"] != [float(v) for v in call["x"]]:
            mism.append({"what": "fit:start handed to minimize", "detail": "python %s case %s" % (s["x0"], call["x"])})
        if not (s["jac_is_sens"] and s["fun_is_cost"]):
            mism.append({"what": "fit:fun/jac handed to minimize", "detail": "fun is cost: %s, jac is sensitivity: %s" % (s["fun_is_cost"], s["jac_is_sens"])})
        if s["constraints"]:
            mism.append({"what": "fit:constraints", "detail": str(s["constraints"])[:200]})
    if (case.get("malformed") or ":unbounded-above-entry" in hist) and err is not None:
        # lb=None and/or ub=None (or one entry of ub None / inf): the optimiser is not confined to a box (negative rates,
        # blow-up): outside the property
        tags.append("unbounded-side:raised:" + type(err).__name__)
        return {"status": "stop", "nontrivial": True}
    if err is not None:
        # the optimiser (or the cost / sensitivity it calls) raised: fit returned nothing
        viol.append({"what": "fit raised %s: %s" % (type(err).__name__, str(err)[:160]),
                     "signature": "fit:raised:%s:%s%s" % (type(err).__name__, sig_tail, hist),
                     "detail": json.dumps({kk: case[kk] for kk in ("model", "loss", "obs", "target")}, default=str)[:600] + " forms=%s" % forms})
        return {"status": "stop", "nontrivial": True}
    if case.get("malformed"):
        # lb=None / ub=None: nothing more to check than the packing
        return {"status": "stop", "nontrivial": True}

    ret = out
    out = [float(v) for v in np.asarray(out).ravel()]
    s = seen[0]
    if out != s["res_x"]:
        mism.append({"what": "fit:return value is not res['x']", "detail": "%s vs %s" % (out, s["res_x"])})
    # ---------------- the assumed optimiser contract, observed ------------------------------------------------
    hi = [(float("inf") if u is None else u) for u in ubn]
    inb = all(l <= v <= u for l, v, u in zip(lb, s["res_x"], hi))
    if not inb:
        tags.append("ASSUMPTION-FAILED:optimiser left its bounds")
    if math.isnan(s["res_fun"]):
        tags.append("optimiser-reports-fun-nan")
    elif s["f0"] is not None and not math.isnan(s["f0"]) and not (s["res_fun"] <= s["f0"] + 1e-9 * abs(s["f0"])):
        tags.append("ASSUMPTION-FAILED:optimiser objective above start")
    if s["g0"] is not None and all(abs(v) <= 1e-5 for v in s["g0"]):
        tags.append("gradient-below-pgtol-at-start")
        if s["res_x"] != s["x0"]:
            tags.append("ASSUMPTION-FAILED:optimiser moved from a stationary start")
    if not judge:
        return {"status": "ok", "out": out, "ret": ret, "nontrivial": False}

    # ---------------- direct oracle (no Lean; from-scratch loss objects that know nothing of the history) ------
    exact_data = case["noise"] == "none" and case["loss"] != "PoissonLoss"
    plist_model = case["model"]["params"] if isinstance(case["model"], dict) else EC.CATALOGUE[case["model"]]["params"]
    st_model = states_of(case)
    permuted = (case["target"] != [q for q in plist_model if q in case["target"]]) or (case["obs"] != [q for q in st_model if q in case["obs"]])
    if permuted and k == 0:
        tags.append("target-or-observed-order-permuted")
    where = "%s:%s%s%s" % (sig_tail, call["start"], ":permuted-order" if permuted else "", hist)
    if len(out) != n or not all(l <= v <= u for l, v, u in zip(lb, out, hi)):
        viol.append({"what": "fit returned a point outside [lb, ub]" + (" of the current call" if k else ""), "signature": "fit:outside-box:" + where,
                     "detail": "x=%s lb=%s ub=%s result=%s ; bounds given to the optimiser %s ; forms %s" % (call["x"], lb, ub, out, np.asarray(s["bounds"]).tolist(), forms)})
    c_start = float(make_loss(case, y, call["x"]).cost())
    c_out = float(make_loss(case, y, out).cost())
    tags.append("moved" if out != [float(v) for v in call["x"]] else "stayed")
    out_undefined = False
    if math.isnan(c_out) and not math.isnan(c_start):
        # the count / positive-support losses are undefined (nan) where the model's own prediction is <= 0: lsoda undershoots
        # a compartment that has decayed to ~1e-13 to -1e-13.  Such a point is outside the domain of the loss kernels
        # (C14: yhat > 0); the optimiser contract (finite objective) does not cover it and nothing is judged there.
        try:
            pred = np.asarray(make_loss(case, y, out)._getSolution(), float)
            out_undefined = bool(np.nanmin(pred) <= 0.0)
        except Exception:
            out_undefined = False
    if math.isnan(c_start):
        tags.append("start-cost-nan")
    elif out_undefined:
        tags.append("result-cost-nan:prediction-not-positive:not-judged")
    elif not (c_out <= c_start + 1e-9 * abs(c_start)):
        viol.append({"what": "fit returned a point with a larger cost than its start", "signature": "fit:worse-than-start:" + where,
                     "detail": "cost(start)=%r cost(result)=%r start=%s result=%s lb=%s ub=%s forms=%s bounds given to the optimiser %s message=%s" % (
                         c_start, c_out, call["x"], out, lb, ub, forms, np.asarray(s["bounds"]).tolist(), s["message"])})
    if call["start"] == "truth" and exact_data:
        # data from the loss object's own integrator: residual 0 up to 1e-10 -> 1e-5; data from scipy odeint differs from
        # that integrator by ~1e-6 relative, the least-squares minimiser then moves by (condition number) x 1e-6 -> 1e-3
        ttol = 1e-5 if case.get("ref") == "integrate2" else 1e-3
        if not all(abs(a - b) <= ttol * max(1.0, abs(b)) for a, b in zip(out, call["x"])):
            viol.append({"what": "fit started at the generating parameters of noise-free data moved away", "signature": "fit:truth-not-fixed-point:" + sig_tail + hist,
                         "detail": "truth=%s result=%s cost(truth)=%r cost(result)=%r g0=%s lb=%s ub=%s forms=%s" % (call["x"], out, c_start, c_out, s["g0"], lb, ub, forms)})
        tags.append("truth-start-exact-data")
    distinguishable = n >= 2 and [list(p_) for p_ in zip(lb, ub)] != [[(lb + ub)[2 * i], (lb + ub)[2 * i + 1]] for i in range(n)]
    return {"status": "ok", "out": out, "ret": ret, "c_start": c_start, "c_out": c_out,
            "nontrivial": bool(distinguishable or (call["start"] == "truth" and exact_data))}


def run_case(case):
    bootstrap.init()
    import pygom.loss.base_loss as BL
    tags, mism, viol = [], [], []
    y = make_data(case)
    mname = case["model"] if isinstance(case["model"], str) else "random"
    n = len(case["x"])
    first = {kk: case.get(kk) for kk in ("x", "lb", "ub", "start", "bounds_form", "forms")}
    first["kind"] = "first"
    calls = [first] + list(case.get("then") or [])
    tags += ["model:" + mname, "loss:" + case["loss"], "start:" + case["start"], "n=%d" % n, "nobs=%d" % len(case["obs"]),
             "noise:" + case["noise"], "bounds:" + case["bounds_form"], "calls=%d" % len(calls)]
    for c_ in calls:
        f_ = c_.get("forms")
        if f_:
            tags += ["form:x=" + f_["x"], "form:lb=" + f_["lb"], "form:ub=" + f_["ub"]]
    if case.get("malformed"): tags.append("malformed:" + case["malformed"])
    if case.get("intbox"): tags.append("intbox")
    if not np.all(np.isfinite(y)) or (case["loss"] in ("GammaLoss",) and np.any(np.asarray(y) <= 0)):
        return {"nontrivial": False, "tags": tags + ["bad-data"]}

    obj = make_loss(case, y, case["x"])
    truth = [case["values"][p] for p in case["target"]]
    kept, live = [], []
    nontrivial, last = False, None
    for k, call in enumerate(calls):
        target_obj = obj
        if k > 0:
            tags.append("then:" + call["kind"])
            il = call.get("interlude")
            if il:
                tags.append("interlude:" + il)
            try:
                if il == "cost_elsewhere":
                    obj.cost([v * 1.37 for v in truth])
                elif il == "ode_scramble":
                    obj._ode.parameters = {p: case["values"][p] * 1.9 for p in case["target"]}
                elif il == "other_object_fit":
                    other = dict(case); other["loss"] = "SquareLoss"; other["spread"] = None
                    m_ = obj._ode
                    L2 = EC.loss_class("SquareLoss")([v * 1.2 for v in truth], m_, list(case["x0"]), case["t"][0], case["t"][1:], y, list(case["obs"]),
                                                      target_param=list(case["target"]))
                    live.append(L2)
                    L2.fit([v * 1.2 for v in truth], lb=[v * 0.9 for v in truth], ub=[v * 2.0 for v in truth])
                elif il == "deepcopy":
                    target_obj = copy.deepcopy(obj)       # this call goes to the copy; the original carries on afterwards
                    live.append(target_obj)
            except Exception as exc:
                tags.append("interlude-raises:%s:%s" % (il, type(exc).__name__))
        r = run_call(target_obj, case, call, y, k, tags, mism, viol, BL)
        nontrivial = nontrivial or r.get("nontrivial", False)
        if r["status"] != "ok":
            last = None
            break
        kept.append((k, r["ret"], list(r["out"])))
        last = (k, call, r)
        if viol:
            break
    # ---------------- kept results: an estimate returned earlier is not changed by later calls ---------------------
    for k, ret, cp in kept:
        now = [float(v) for v in np.asarray(ret).ravel()]
        if now != cp:
            viol.append({"what": "the estimate returned by call %d was changed by a later call" % (k + 1), "signature": "fit:returned-array-changed-by-later-call",
                         "detail": "%s -> %s" % (cp, now)})
            break
    # ---------------- the last call of a sequence repeated on a FRESH object (Lean: fit is a function of its arguments) -----
    if last is not None and last[0] > 0 and not viol:
        k, call, r = last
        fresh = make_loss(case, y, call["x"])
        ftags, fm, fv = [], [], []
        rf = run_call(fresh, case, call, y, k, ftags, fm, fv, BL, judge=False)
        if rf["status"] == "ok":
            a, b = r["out"], rf["out"]
            if a == b:
                tags.append("sequence:last-call-equals-fresh-object:exactly")
            elif all(abs(u - v) <= 1e-9 * max(1.0, abs(v)) for u, v in zip(a, b)):
                tags.append("sequence:last-call-equals-fresh-object:1e-9")
            else:
                mism.append({"what": "fit:result depends on the history of the loss object (Lean Fit.fit is a function of x, lb, ub only)",
                             "detail": "call %d on the reused object %s ; same call on a fresh object %s" % (k + 1, a, b)})
    sample = None
    if last is not None:
        k, call, r = last
        sample = {"model": mname, "loss": case["loss"], "target": case["target"], "call": k + 1, "x": call["x"], "lb": call["lb"], "ub": call["ub"],
                  "result": r["out"], "cost_start": r.get("c_start"), "cost_result": r.get("c_out")}
    res = {"nontrivial": bool(nontrivial), "mismatches": mism, "violations": viol, "tags": tags}
    if sample:
        res["sample"] = sample
    return res
