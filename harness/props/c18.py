"""
C18 - fit stays inside the box and never returns something worse than its start.   (PARTIAL: the optimiser is assumed)

Correspondence (model <-> code): `scipy.optimize.minimize` *as seen from pygom.loss.base_loss* is wrapped for the
duration of the call; the bounds array, the method and the start it receives are compared with the Lean model
(`Pygom.Fit.boxBounds`, `chooseMethod`, `prepBounds`: op `boxBounds`), exactly (floats as rationals), including the
InputError paths and the lb=None / ub=None paths.  The optimiser contract assumed by the theorems
(`BoxDescent`, `StopsAtStationary`) is observed on every call: what minimize returned lies in the bounds it was
given, its objective is not above the start's, and a zero gradient at the start returns the start.

Direct oracle (no Lean): result inside [lb, ub] exactly; cost(result) <= cost(x) (+1e-9 relative), both recomputed by a
loss object built from scratch with the parameters bound by name; fit(theta*) = theta* to 1e-5 on noise-free data
generated from a reference trajectory.
"""
import json
import math
import random

import numpy as np

from .. import bootstrap, gen, leanio, pymodel
from . import est_common as EC

PROP = "C18"
LEVEL = "proof"
LEAN = {"module": "Pygom.Props.C18",
        "required": ["Pygom.C18.box_bounds_rows", "Pygom.C18.fit_in_box_partial", "Pygom.C18.fit_contract_partial", "Pygom.C18.fit_at_truth_partial",
                     "Pygom.C18.fit_at_truth_of_zero_residual", "Pygom.C18.box_bounds_C_counterexample", "Pygom.C18.grad_zero_at_truth"]}
BUDGET = {"quick": {"fits": 130, "random": 20, "malformed": 14},
          "thorough": {"fits": 3000, "random": 400, "malformed": 120}}
RULE = ("real fit(x, lb, ub) on pygom.common_models SIR_norm / SIR / SIS / SEIR / Lotka_Volterra / SIR_Birth_Death and random closed "
        "(T-only, linear/mass-action) models; SquareLoss / NormalLoss / PoissonLoss / GammaLoss / NegBinomLoss; 1-2 observed "
        "states; all or a subset of the parameters as targets in random order; noise-free or noisy data; starts inside the box, "
        "on its boundary, and at the generating parameters; also lb=None / ub=None and mismatched lengths.  A case is "
        "non-trivial when the box has >= 2 coordinates with lb != ub-pattern distinguishable from a C-order packing "
        "(i.e. n >= 2) or the start is the truth.")
ASSUMPTIONS = ["scipy L-BFGS-B returns a point of the box it was given (always) whose objective is not above the start's WHEN the jac it "
               "is handed is the gradient of fun (BoxDescent; gradient consistency is property C07) - observed on every call",
               "scipy L-BFGS-B returns its start when every component of the gradient it is handed there is <= pgtol = 1e-5 "
               "(StopsAtStationary) - observed on every such start",
               "the recomputation oracle uses pygom's own integrator and loss kernel through a freshly built loss object "
               "(C02/C06/C14 cover those)"]
TRUSTED = ["harness wrapper of base_loss.minimize", "exact float->rational conversion", "Lean driver JSON codec",
           "the optimiser contract (BoxDescent, StopsAtStationary) is a hypothesis of the Lean theorems"]

LOSSES = ["SquareLoss", "SquareLoss", "NormalLoss", "PoissonLoss", "GammaLoss", "NegBinomLoss"]


def gen_random_model(rng):
    """a closed random model: transitions only, linear / mass-action rates, unit magnitudes -> bounded, non-negative"""
    from fractions import Fraction
    from .. import exprs as E
    while True:
        spec, meta = gen.gen_model(rng, min_states=2, max_states=4, max_params=3, min_events=2, max_events=4,
                                   kinds=[("linear", 3), ("mass", 2)], allow_time=False, sym_mag=False, max_mag=1, allow_ode=False,
                                   allow_derived=False, allow_range=False, types=(("T", 1),), routes=("event",), max_trans=1)
        ok = True
        for p in meta["procs"]:
            env = {n: Fraction(1) for n in meta["states"] + meta["params"]}
            env["t"] = Fraction(0)
            env[p["transitions"][0]["origin"]] = Fraction(0)
            if E.ev(p["rate"], env) != 0:        # the rate must vanish with its origin: states stay in [0, total]
                ok = False
        if ok:
            return spec, meta


def gen_fit(rng, random_model=False):
    if random_model:
        spec, meta = gen_random_model(rng)
        params, states = meta["params"], meta["states"]
        vals = {p: round(rng.uniform(0.2, 1.0), 4) for p in params}
        x0 = [round(rng.uniform(0.5, 3.0), 3) for _ in states]
        T = rng.uniform(3, 8)
        n = rng.randint(8, 14)
        t = [0.0] + [round(T * (k + 1) / n, 6) for k in range(n)]
        model = {"random": spec, "params": params, "states": states}
        est = list(params)
        scale = 1.0
    else:
        name = rng.choice(list(EC.CATALOGUE))
        cat = EC.CATALOGUE[name]
        vals, x0, t = EC.draw_setup(rng, name)
        model = name
        params, states = cat["params"], cat["states"]
        est = list(cat["true"])
        scale = vals.get("N", 1.0) if cat["scale"] == "N" else 1.0
    loss = rng.choice(LOSSES)
    if loss == "PoissonLoss" and scale < 50:
        loss = "NegBinomLoss" if rng.random() < 0.5 else "SquareLoss"
    nobs = 1 if rng.random() < 0.6 else 2
    obs = rng.sample(states[1:] if len(states) > 2 else states, min(nobs, len(states) - 1 if len(states) > 2 else len(states)))
    rng.shuffle(est)
    if rng.random() < 0.4 and len(est) > 1:
        est = est[:rng.randint(1, len(est) - 1)]
    lb = [round(vals[p] * rng.uniform(0.2, 0.9), 5) for p in est]
    ub = [round(vals[p] * rng.uniform(1.1, 3.0), 5) for p in est]
    start_kind = rng.choice(["inside", "inside", "boundary", "truth", "truth", "corner"])
    if start_kind == "truth":
        x = [vals[p] for p in est]
    elif start_kind == "inside":
        x = [round(l + (u - l) * rng.uniform(0.05, 0.95), 6) for l, u in zip(lb, ub)]
    elif start_kind == "corner":
        x = [rng.choice([l, u]) for l, u in zip(lb, ub)]
    else:
        x = [round(l + (u - l) * rng.uniform(0.05, 0.95), 6) for l, u in zip(lb, ub)]
        k = rng.randrange(len(x))
        x[k] = rng.choice([lb[k], ub[k]])
    noise = "none" if start_kind == "truth" and rng.random() < 0.85 else rng.choice(["none", "noisy"])
    return {"kind": "fit", "model": model, "values": vals, "x0": x0, "t": t, "loss": loss, "obs": obs, "target": est,
            "spread": round(rng.uniform(0.5, 3.0), 3) if loss in ("NormalLoss", "GammaLoss", "NegBinomLoss") else None,
            "lb": lb, "ub": ub, "x": x, "start": start_kind, "noise": noise, "noise_seed": rng.getrandbits(31),
            "bounds_form": rng.choice(["list", "list", "array"]), "ref": rng.choice(["integrate2", "integrate2", "odeint"])}


def gen_malformed(rng):
    c = gen_fit(rng)
    n = len(c["x"])
    kind = rng.choice(["lb_none", "ub_none", "both_none", "len_lb_ub", "len_x"])
    c["malformed"] = kind
    if kind == "lb_none":
        c["lb"] = None
    elif kind == "ub_none":
        c["ub"] = None
    elif kind == "both_none":
        c["lb"] = c["ub"] = None
    elif kind == "len_lb_ub":
        c["ub"] = c["ub"] + [c["ub"][-1] * 2]
    else:
        c["lb"] = c["lb"] + [c["lb"][-1]]
        c["ub"] = c["ub"] + [c["ub"][-1]]
    return c


def make_cases(rng, tier, budget):
    cases = [gen_fit(random.Random(rng.getrandbits(64))) for _ in range(budget["fits"])]
    cases += [gen_fit(random.Random(rng.getrandbits(64)), random_model=True) for _ in range(budget["random"])]
    cases += [gen_malformed(random.Random(rng.getrandbits(64))) for _ in range(budget["malformed"])]
    return cases


def search_cases(rng, tier, budget):
    return [gen_fit(random.Random(rng.getrandbits(64)), random_model=(i % 6 == 0)) for i in range(budget["fits"] * 2)]


# ---------------------------------------------------------------------------------------------------------

def build_model(case):
    if isinstance(case["model"], dict):
        m = pymodel.build(case["model"]["random"], backend="lambda")
        m.parameters = dict(case["values"])
        return m
    return EC.make_model(case["model"], case["values"])


def states_of(case):
    return case["model"]["states"] if isinstance(case["model"], dict) else EC.CATALOGUE[case["model"]]["states"]


def make_loss(case, y, theta):
    """a loss object from scratch (fresh model), target parameters bound by name"""
    m = build_model(case)
    L = EC.loss_class(case["loss"])
    kw = {"target_param": list(case["target"])}
    sp = case.get("spread")
    if case["loss"] == "NormalLoss":
        kw["sigma"] = sp
    elif case["loss"] == "GammaLoss":
        kw["shape"] = sp
    elif case["loss"] == "NegBinomLoss":
        kw["k"] = sp
    return L(list(theta), m, list(case["x0"]), case["t"][0], case["t"][1:], y, list(case["obs"]), **kw)


def make_data(case):
    m = build_model(case)
    m.initial_values = (list(case["x0"]), case["t"][0])
    if case.get("ref") == "integrate2":      # the integrator the loss object itself uses: residual exactly 0 at the truth
        from pygom.model import ode_utils
        ref = np.asarray(ode_utils.integrateFuncJac(m.ode_T, m.jacobian_T, np.array(case["x0"], dtype=float), case["t"][0],
                                                    np.array(case["t"][1:], dtype=float), full_output=False, method=m._intName))
    else:
        ref = np.asarray(m.integrate(case["t"][1:]))[1:, :]
    st = states_of(case)
    y = ref[:, [st.index(s) for s in case["obs"]]].copy()
    rs = np.random.RandomState(case["noise_seed"])
    if case["loss"] == "PoissonLoss":
        y = rs.poisson(np.maximum(y, 1e-9)).astype(float) if case["noise"] == "noisy" else np.round(y)
    elif case["noise"] == "noisy":
        y = np.abs(y * (1.0 + 0.05 * rs.standard_normal(y.shape))) + 1e-9
    if y.shape[1] == 1:
        y = y[:, 0]
    return y


def bjson(v):
    if v is None:
        return None
    return [EC.frac(a) if a is not None else None for a in v]


def run_case(case):
    bootstrap.init()
    import pygom.loss.base_loss as BL
    tags, mism, viol = [], [], []
    y = make_data(case)
    mname = case["model"] if isinstance(case["model"], str) else "random"
    n = len(case["x"])
    tags += ["model:" + mname, "loss:" + case["loss"], "start:" + case["start"], "n=%d" % n, "nobs=%d" % len(case["obs"]),
             "noise:" + case["noise"], "bounds:" + case["bounds_form"]]
    if case.get("malformed"): tags.append("malformed:" + case["malformed"])
    exact_data = case["noise"] == "none" and case["loss"] != "PoissonLoss"
    sig_tail = "%s:%dobs" % (case["loss"], len(case["obs"]))
    if not np.all(np.isfinite(y)) or (case["loss"] in ("GammaLoss",) and np.any(np.asarray(y) <= 0)):
        return {"nontrivial": False, "tags": tags + ["bad-data"]}

    obj = make_loss(case, y, case["x"])
    lb, ub = case["lb"], case["ub"]
    conv = (lambda v: np.array(v, dtype=float)) if case["bounds_form"] == "array" else (lambda v: list(v))
    seen = []
    orig = BL.minimize

    def rec_minimize(fun, x0, *a, **k):
        entry = {"x0": [float(v) for v in np.asarray(x0).ravel()], "bounds": k.get("bounds"), "method": k.get("method"),
                 "constraints": k.get("constraints"), "jac_is_sens": k.get("jac") == obj.sensitivity, "fun_is_cost": fun == obj.cost}
        try:
            entry["f0"] = float(fun(np.asarray(x0, dtype=float)))
            entry["g0"] = [float(v) for v in np.asarray(k["jac"](np.asarray(x0, dtype=float))).ravel()] if k.get("jac") is not None else None
        except Exception as exc:
            entry["f0"], entry["g0"] = None, None
            entry["probe_error"] = "%s: %s" % (type(exc).__name__, str(exc)[:120])
        seen.append(entry)
        r = orig(fun, x0, *a, **k)
        entry["res_x"] = [float(v) for v in np.asarray(r["x"]).ravel()]
        entry["res_fun"] = float(r["fun"])
        entry["message"] = str(r.get("message"))
        return r

    BL.minimize = rec_minimize
    err = None
    out = None
    try:
        out = obj.fit(list(case["x"]) if case["bounds_form"] == "list" else np.array(case["x"], dtype=float),
                      lb=conv(lb) if lb is not None else None, ub=conv(ub) if ub is not None else None)
    except Exception as exc:
        err = exc
    finally:
        BL.minimize = orig

    # ---------------- model <-> code : what the optimiser was handed ------------------------------------------
    lr = leanio.driver().call({"op": "boxBounds", "n": n, "lb": bjson(lb), "ub": bjson(ub), "hasA": False})
    if lr.get("err"):
        ename = type(err).__name__ if err is not None else None
        if ename != lr["err"]:
            mism.append({"what": "fit:accept/reject", "detail": "lean %s python %s (%s)" % (lr["err"], ename, str(err)[:200])})
        tags.append("both-raise:" + lr["err"])
        return {"nontrivial": True, "mismatches": mism, "violations": viol, "tags": tags}
    if err is not None and not seen:
        # raised before reaching the optimiser although the model accepts the arguments
        if case.get("malformed") in ("lb_none", "ub_none") and isinstance(err, ValueError):
            tags.append("numpy-reshape-error-on-one-sided-bounds")     # lengths differ: np.reshape raises; not modelled
            return {"nontrivial": False, "mismatches": mism, "violations": viol, "tags": tags}
        viol.append({"what": "fit raised %s before calling the optimiser: %s" % (type(err).__name__, str(err)[:160]),
                     "signature": "fit:raised-before-minimize:%s:%s" % (type(err).__name__, sig_tail), "detail": str(err)[:300]})
        return {"nontrivial": True, "mismatches": mism, "violations": viol, "tags": tags}
    if seen:
        s = seen[0]
        got = np.asarray(s["bounds"], dtype=object)
        gotl = [[(None if v is None else EC.frac(float(v))) for v in row] for row in got.tolist()] if got.ndim == 2 else None
        if gotl != lr["bounds"]:
            mism.append({"what": "fit:bounds handed to minimize", "detail": "python %s lean %s" % (gotl, lr["bounds"])})
            if gotl == lr["bounds_C"]:
                tags.append("bounds-are-C-order")
        if s["method"] != lr["method"]:
            mism.append({"what": "fit:method", "detail": "python %s lean %s" % (s["method"], lr["method"])})
        if s["x0"] != [float(v) for v in case["x"]]:
            mism.append({"what": "fit:start handed to minimize", "detail": "python %s case %s" % (s["x0"], case["x"])})
        if not (s["jac_is_sens"] and s["fun_is_cost"]):
            mism.append({"what": "fit:fun/jac handed to minimize", "detail": "fun is cost: %s, jac is sensitivity: %s" % (s["fun_is_cost"], s["jac_is_sens"])})
        if s["constraints"]:
            mism.append({"what": "fit:constraints", "detail": str(s["constraints"])[:200]})
    if case.get("malformed") and err is not None:
        # lb=None and/or ub=None: the optimiser is not confined to a box (negative rates, blow-up): outside the property
        tags.append("unbounded-side:raised:" + type(err).__name__)
        return {"nontrivial": True, "mismatches": mism, "violations": viol, "tags": tags}
    if err is not None:
        # the optimiser (or the cost / sensitivity it calls) raised: fit returned nothing
        viol.append({"what": "fit raised %s: %s" % (type(err).__name__, str(err)[:160]),
                     "signature": "fit:raised:%s:%s" % (type(err).__name__, sig_tail), "detail": json.dumps({k: case[k] for k in ("model", "loss", "obs", "target")}, default=str)[:600]})
        return {"nontrivial": True, "mismatches": mism, "violations": viol, "tags": tags}
    if case.get("malformed"):
        # lb=None / ub=None: nothing more to check than the packing
        return {"nontrivial": True, "mismatches": mism, "violations": viol, "tags": tags}

    out = [float(v) for v in np.asarray(out).ravel()]
    s = seen[0]
    if out != s["res_x"]:
        mism.append({"what": "fit:return value is not res['x']", "detail": "%s vs %s" % (out, s["res_x"])})
    # ---------------- the assumed optimiser contract, observed ------------------------------------------------
    inb = all(l <= v <= u for l, v, u in zip(lb, s["res_x"], ub))
    if not inb:
        tags.append("ASSUMPTION-FAILED:optimiser left its bounds")
    if math.isnan(s["res_fun"]):
        tags.append("optimiser-reports-fun-nan")
    elif s["f0"] is not None and not math.isnan(s["f0"]) and not (s["res_fun"] <= s["f0"] + 1e-9 * abs(s["f0"])):
        tags.append("ASSUMPTION-FAILED:optimiser objective above start")
    if s["g0"] is not None and all(abs(v) <= 1e-5 for v in s["g0"]):
        tags.append("gradient-below-pgtol-at-start")
        if s["res_x"] != s["x0"]:
            tags.append("ASSUMPTION-FAILED:optimiser moved from a stationary start")

    # ---------------- direct oracle (no Lean) ---------------------------------------------------------------
    plist_model = case["model"]["params"] if isinstance(case["model"], dict) else EC.CATALOGUE[case["model"]]["params"]
    st_model = states_of(case)
    permuted = (case["target"] != [q for q in plist_model if q in case["target"]]) or (case["obs"] != [q for q in st_model if q in case["obs"]])
    if permuted:
        tags.append("target-or-observed-order-permuted")
    where = "%s:%s%s" % (sig_tail, case["start"], ":permuted-order" if permuted else "")
    if len(out) != n or not all(l <= v <= u for l, v, u in zip(lb, out, ub)):
        viol.append({"what": "fit returned a point outside [lb, ub]", "signature": "fit:outside-box:" + where,
                     "detail": "x=%s lb=%s ub=%s result=%s ; bounds given to the optimiser %s" % (case["x"], lb, ub, out, np.asarray(s["bounds"]).tolist())})
    c_start = float(make_loss(case, y, case["x"]).cost())
    c_out = float(make_loss(case, y, out).cost())
    tags.append("moved" if out != [float(v) for v in case["x"]] else "stayed")
    if math.isnan(c_start):
        tags.append("start-cost-nan")
    elif not (c_out <= c_start + 1e-9 * abs(c_start)):
        viol.append({"what": "fit returned a point with a larger cost than its start", "signature": "fit:worse-than-start:" + where,
                     "detail": "cost(start)=%r cost(result)=%r start=%s result=%s message=%s" % (c_start, c_out, case["x"], out, s["message"])})
    if case["start"] == "truth" and exact_data:
        # data from the loss object's own integrator: residual 0 up to 1e-10 -> 1e-5; data from scipy odeint differs from
        # that integrator by ~1e-6 relative, the least-squares minimiser then moves by (condition number) x 1e-6 -> 1e-3
        ttol = 1e-5 if case.get("ref") == "integrate2" else 1e-3
        if not all(abs(a - b) <= ttol * max(1.0, abs(b)) for a, b in zip(out, case["x"])):
            viol.append({"what": "fit started at the generating parameters of noise-free data moved away", "signature": "fit:truth-not-fixed-point:" + sig_tail,
                         "detail": "truth=%s result=%s cost(truth)=%r cost(result)=%r g0=%s" % (case["x"], out, c_start, c_out, s["g0"])})
        tags.append("truth-start-exact-data")
    distinguishable = n >= 2 and [list(p) for p in zip(lb, ub)] != [[(lb + ub)[2 * i], (lb + ub)[2 * i + 1]] for i in range(n)]
    return {"nontrivial": bool(distinguishable or (case["start"] == "truth" and exact_data)), "mismatches": mism, "violations": viol, "tags": tags,
            "sample": {"model": mname, "loss": case["loss"], "target": case["target"], "x": case["x"], "lb": lb, "ub": ub, "result": out,
                       "cost_start": c_start, "cost_result": c_out}}
