"""
C03 - Jacobian, gradient and higher derivative functions are the true derivatives.

Lean: Expr.diff is the true derivative (hasDerivAt_diff), the derivative objects are built with it in the
layouts proved in Props/C03.lean.  Tie: sympy's diff / Matrix.jacobian are translation-validated on every
generated model against the driver's expressions (symbolic, exact points) and the compiled evaluators are
compared numerically (jacobian, grad, diff_jacobian, grad_jacobian, grad_grad - row i*nP+j, column k = d2f_i/dtheta_j dtheta_k -,
transitionJacobian/Mean/Var).  Direct oracle (no Lean, no sympy): 50-digit central finite differences of the
harness interpreter's own right-hand side / rate vector.
"""
import json
import random
from fractions import Fraction

import numpy as np

from .. import exprs as E
from .. import gen
from .common import build_both, compare_errors, fl, mpf, mpf_s, net_oracle, sym_vs_lean, vec_close

PROP = "C03"
LEAN = {"module": "Pygom.Props.C03",
        "required": ["Pygom.C03.jacobian_is_derivative", "Pygom.C03.grad_is_derivative",
                     "Pygom.C03.diff_jacobian_is_second_derivative", "Pygom.C03.grad_jacobian_is_mixed_derivative",
                     "Pygom.C03.transition_jacobian_def", "Pygom.C03.transition_mean_def", "Pygom.C03.transition_var_def",
                     "Pygom.C03.jacobian_entry", "Pygom.C03.grad_entry", "Pygom.C03.diffJacobian_entry",
                     "Pygom.C03.gradJacobian_entry", "Pygom.C03.defined_odeEqnR",
                     "Pygom.C03.gradGrad_entry", "Pygom.C03.grad_grad_is_second_derivative"],
        "extra_modules": ["Pygom.Lemmas.Deriv"]}
BUDGET = {"quick": {"models": 120}, "thorough": {"models": 2500}}
RULE = ("random model definitions as in C01 (events routed through the event= keyword so that event order is the declared order); "
        "2 exact points each, away from singularities; non-trivial = some Jacobian entry and some gradient entry non-zero")
ASSUMPTIONS = ["sympy.diff / Matrix.jacobian are translation-validated per model against the verified Expr.diff, not proved",
               "finite-difference oracle: central differences in 50-digit arithmetic (h=1e-15 first order, 1e-10 second order)"]
TRUSTED = ["harness generator, printer and interpreter", "Lean driver JSON codec"]

H1 = mpf("1e-15")
H2 = mpf("1e-10")


def make_cases(rng, tier, budget):
    cases = []
    for i in range(budget["models"]):
        r = random.Random(rng.getrandbits(64))
        spec, meta = gen.gen_model(r, min_events=1, routes=("event", "event_eq", "event_bare"))
        pts = [gen.rand_point(r, meta) for _ in range(2)]
        cases.append({"spec": spec, "meta": meta, "points": [{k: str(v) for k, v in p.items()} for p in pts]})
    return cases


def search_cases(rng, tier, budget):
    return make_cases(rng, tier, {"models": budget["models"] * 3})


def f_oracle(meta, spec, env):
    f, V, a, pure = net_oracle(meta, spec, env)
    return f, V, a


def shifted(env, name, h):
    e = dict(env)
    e[name] = mpf(e[name].numerator) / mpf(e[name].denominator) + h if isinstance(e[name], Fraction) else mpf(e[name]) + h
    return e


def d1(fun, env, name):
    """central difference of a vector-valued function of env"""
    a = fun(shifted(env, name, H1)); b = fun(shifted(env, name, -H1))
    return [(x - y) / (2 * H1) for x, y in zip(a, b)]


def d2(fun, env, n1, n2):
    pp = fun(shifted(shifted(env, n1, H2), n2, H2)); pm = fun(shifted(shifted(env, n1, H2), n2, -H2))
    mp_ = fun(shifted(shifted(env, n1, -H2), n2, H2)); mm = fun(shifted(shifted(env, n1, -H2), n2, -H2))
    return [(a - b - c + d) / (4 * H2 * H2) for a, b, c, d in zip(pp, pm, mp_, mm)]


def mat_close(A, B, rel=1e-7, abs_=1e-8):
    A = np.asarray(A, float); B = np.asarray(B, float)
    return A.shape == B.shape and np.all(np.abs(A - B) <= abs_ + rel * np.maximum(np.abs(A), np.abs(B)))


def run_case(case):
    spec, meta = case["spec"], case["meta"]
    tags, mism, viol = [], [], []
    lr, model, perr, stage = build_both(spec, derivs=True)
    mism += compare_errors(lr, perr, stage)
    if perr is not None or lr.get("err") is not None:
        viol.append({"what": "well-formed model rejected: %s" % perr, "signature": "reject:%s" % perr, "detail": ""})
        return {"nontrivial": False, "mismatches": mism, "violations": viol, "tags": ["rejected"]}
    states = [str(s) for s in model.state_list]; params = [str(p) for p in model.param_list]
    nS, nP, nE = len(states), len(params), len(lr["rates"])
    tags += ["nS=%d" % nS, "nP=%d" % nP, "nE=%d" % nE, "square" if nS == nP else "asymmetric"]
    for k in set(meta["kinds"]): tags.append("rate:" + k)
    if not hasattr(model, "get_grad_grad_eqn") or not hasattr(model, "grad_grad"):
        # the modelled source has the evaluator (Model.gradGradEqn, since the repair of C20-hessian-mixed-terms)
        mism.append({"what": "evaluator missing: grad_grad", "detail": "the model has no get_grad_grad_eqn / grad_grad"})
        return {"nontrivial": False, "mismatches": mism, "violations": viol, "tags": tags + ["evaluator-missing:grad_grad"]}
    try:
        J_s = model.get_jacobian_eqn(); G_s = model.get_grad_eqn(); GG_s = model.get_grad_grad_eqn()
        DJ_s = model.get_diff_jacobian_eqn(); GJ_s = model.get_grad_jacobian_eqn()
        TJ_s = model.get_TransitionJacobian(); TM_s = model.get_TransitionMean(); TV_s = model.get_TransitionVar()
    except Exception as exc:
        viol.append({"what": "symbolic derivative raised %s: %s" % (type(exc).__name__, str(exc)[:200]),
                     "signature": "symbolic-raise:%s" % type(exc).__name__, "detail": ""})
        return {"nontrivial": False, "mismatches": mism, "violations": viol, "tags": tags}
    flat = lambda M: [M[i, j] for i in range(M.rows) for j in range(M.cols)]
    lflat = lambda L: [e for row in L for e in row]
    nzJ = nzG = nzGG = False
    for pt in case["points"]:
        env = {k: Fraction(v) for k, v in pt.items()}
        # symbolic: sympy's derivatives against the verified differentiator
        for name, S, L in (("get_jacobian_eqn", flat(J_s), lflat(lr["jac"])), ("get_grad_eqn", flat(G_s), lflat(lr["grad"])),
                           ("get_diff_jacobian_eqn", flat(DJ_s), lflat(lr["djac"])),
                           ("get_grad_jacobian_eqn", flat(GJ_s), lflat(lr["gjac"])),
                           ("get_grad_grad_eqn", flat(GG_s), lflat(lr["ggrad"])),
                           ("get_TransitionJacobian", flat(TJ_s), lflat(lr["tjac"])),
                           ("get_TransitionMean", list(TM_s), lr["tmean"]), ("get_TransitionVar", list(TV_s), lr["tvar"])):
            sym_vs_lean(S, L, env, name, mism, tags)
        x = fl(env, states); th = fl(env, params); t = float(env["t"])
        try:
            model.parameters = th
            J_n = np.asarray(model.jacobian(x, t), float).reshape(nS, nS)
            G_n = np.asarray(model.grad(x, t), float).reshape(nS, nP)
            DJ_n = np.asarray(model.diff_jacobian(x, t), float).reshape(nS * nS, nS)
            GJ_n = np.asarray(model.grad_jacobian(x, t), float).reshape(nS * nP, nS)
            GG_n = np.asarray(model.grad_grad(x, t), float)
            if GG_n.shape != (nS * nP, nP):
                viol.append({"what": "grad_grad(x,t) has shape %s, expected %s" % (GG_n.shape, (nS * nP, nP)),
                             "signature": "grad_grad:shape" + (":nS=1" if nS == 1 else "") + (":nP=1" if nP == 1 else ""), "detail": json.dumps(pt)})
                break
            TJ_n = np.asarray(model.transitionJacobian(x, t), float).reshape(nE, nE)
            TM_n = np.asarray(model.transitionMean(x, t), float).ravel()
            TV_n = np.asarray(model.transitionVar(x, t), float).ravel()
        except Exception as exc:
            viol.append({"what": "derivative evaluator raised %s: %s" % (type(exc).__name__, str(exc)[:200]),
                         "signature": "evaluator-raise:%s" % type(exc).__name__, "detail": json.dumps(pt)})
            break
        try:
            # model (Lean expressions, harness interpreter)
            Lv = lambda L: [[float(E.ev(e, env)) for e in row] for row in L]
            J_l, G_l, DJ_l, GJ_l, TJ_l = Lv(lr["jac"]), Lv(lr["grad"]), Lv(lr["djac"]), Lv(lr["gjac"]), Lv(lr["tjac"])
            GG_l = Lv(lr["ggrad"])
            TM_l = [float(E.ev(e, env)) for e in lr["tmean"]]; TV_l = [float(E.ev(e, env)) for e in lr["tvar"]]
            # oracle: finite differences of the harness's own right-hand side
            fo = lambda e_: f_oracle(meta, spec, e_)[0]
            ao = lambda e_: f_oracle(meta, spec, e_)[2]
            J_o = np.array([[float(v) for v in d1(fo, env, s)] for s in states]).T            # [i][j] = d f_i / d x_j
            G_o = np.array([[float(v) for v in d1(fo, env, p)] for p in params]).T.reshape(nS, nP)
            DJ_o = np.zeros((nS * nS, nS)); GJ_o = np.zeros((nS * nP, nS)); GG_o = np.zeros((nS * nP, nP))
            for j, pj in enumerate(params):
                for k, pk in enumerate(params):
                    dd = d2(fo, env, pj, pk)
                    for i in range(nS):
                        GG_o[i * nP + j, k] = float(dd[i])
            for i, si in enumerate(states):
                for j, sj in enumerate(states):
                    dd = d2(fo, env, si, sj)
                    for e_ in range(nS):
                        DJ_o[e_ * nS + i, j] = float(dd[e_])
            for k, pk in enumerate(params):
                for j, sj in enumerate(states):
                    dd = d2(fo, env, pk, sj)
                    for i in range(nS):
                        GJ_o[k * nS + i, j] = float(dd[i])
            _, V_o, a_o = f_oracle(meta, spec, env)
            dA = np.array([[float(v) for v in d1(ao, env, s)] for s in states]).T.reshape(nE, nS)   # [i][k] = d a_i / d x_k
            Vm = np.array([[float(v) for v in col] for col in V_o]).T.reshape(nS, nE)                # [k][j]
            TJ_o = dA.dot(Vm)
            a_f = np.array([float(v) for v in a_o])
            TM_o = TJ_o.dot(a_f); TV_o = (TJ_o ** 2).dot(a_f)
        except E.Undefined:
            tags.append("undefined_point")
            continue
        nzJ = nzJ or bool(np.any(np.abs(J_o) > 1e-9)); nzG = nzG or bool(np.any(np.abs(G_o) > 1e-9))
        nzGG = nzGG or bool(np.any(np.abs(GG_o) > 1e-9))
        for name, N, L in (("jacobian", J_n, J_l), ("grad", G_n, G_l), ("diff_jacobian", DJ_n, DJ_l), ("grad_jacobian", GJ_n, GJ_l),
                           ("grad_grad", GG_n, GG_l),
                           ("transitionJacobian", TJ_n, TJ_l), ("transitionMean", TM_n, TM_l), ("transitionVar", TV_n, TV_l)):
            if not mat_close(N, np.asarray(L, float).reshape(np.asarray(N).shape), rel=1e-9, abs_=1e-10):
                mism.append({"what": name + "(x,t)", "detail": "python %s lean %s at %s" % (np.asarray(N).tolist(), L, pt)})
        for name, N, O, tol in (("jacobian", J_n, J_o, 1e-7), ("grad", G_n, G_o, 1e-7), ("diff_jacobian", DJ_n, DJ_o, 1e-6),
                                ("grad_jacobian", GJ_n, GJ_o, 1e-6), ("grad_grad", GG_n, GG_o, 1e-6), ("transitionJacobian", TJ_n, TJ_o, 1e-7),
                                ("transitionMean", TM_n, TM_o, 1e-7), ("transitionVar", TV_n, TV_o, 1e-7)):
            if not mat_close(N, O, rel=tol, abs_=tol):
                viol.append({"what": "%s(x,t) is not the derivative / definition (finite-difference oracle)" % name,
                             "signature": "%s:not-derivative" % name,
                             "detail": "got %s expected %s at %s" % (np.asarray(N).tolist(), np.asarray(O).tolist(), pt)})
        if mism or viol:
            break
    if nzGG:
        tags.append("grad_grad:non-zero")
    return {"nontrivial": bool(nzJ and nzG), "mismatches": mism, "violations": viol, "tags": tags,
            "sample": {"spec": spec, "point": case["points"][0]}}
