"""
C03 - Jacobian, gradient and higher derivative functions are the true derivatives.

Lean: Expr.diff is the true derivative (hasDerivAt_diff), the derivative objects are built with it in the
layouts proved in Props/C03.lean.  Tie: sympy's diff / Matrix.jacobian are translation-validated on every
generated model against the driver's expressions (symbolic, exact points) and the compiled evaluators are
compared numerically (jacobian, grad, diff_jacobian, grad_jacobian, grad_grad - row i*nP+j, column k = d2f_i/dtheta_j dtheta_k -,
transitionJacobian/Mean/Var).  Direct oracle (no Lean, no sympy): 50-digit central finite differences of the
harness interpreter's own right-hand side / rate vector.

History / input-form / second-instance probes as in C01 (fixed by the case JSON, judged by the same finite-difference
oracle; the modelled derivative objects are functions of the definition, the parameter values and (x, t) only): every
array returned by the nine evaluators is KEPT and judged again after all later calls (3 points incl. an integer-valued
one with zero states, parameter re-assignment and restoration at a fixed (x, t), second instance, deep copy), the caller
then overwrites the kept arrays and evaluates again; x / t / parameters in varied container and dtype forms (an argument
that was written to is tagged `side-effect:*`, not judged); a second live instance with the same names (parameter declaration permuted, state declaration reversed,
derived parameter redefined, last event added incrementally with the first instance evaluating in between) evaluated
alternately with the first; copy.deepcopy as a third instance; the solver-facing twins jacobian_T / grad_T /
diff_jacobian_T / grad_jacobianT / ode_T.
"""
import copy
import json
import random
from fractions import Fraction

import numpy as np

from .. import exprs as E
from .. import gen
from .. import pymodel
from .common import BIG_FORMS
from .common import (NAMED_TRAPS, Kept, as_params, as_t, as_x, build_both, compare_errors, dtype_probe, fd_jacobian, fl, freeze, mpf, mpf_s, net_oracle,
                     printer_check, spec_oracle, sym_vs_lean, vec_close, wide_tags)

PROP = "C03"
LEAN = {"module": "Pygom.Props.C03",
        "required": ["Pygom.C03.jacobian_is_derivative", "Pygom.C03.grad_is_derivative",
                     "Pygom.C03.diff_jacobian_is_second_derivative", "Pygom.C03.grad_jacobian_is_mixed_derivative",
                     "Pygom.C03.transition_jacobian_def", "Pygom.C03.transition_mean_def", "Pygom.C03.transition_var_def",
                     "Pygom.C03.jacobian_entry", "Pygom.C03.grad_entry", "Pygom.C03.diffJacobian_entry",
                     "Pygom.C03.gradJacobian_entry", "Pygom.C03.defined_odeEqnR",
                     "Pygom.C03.gradGrad_entry", "Pygom.C03.grad_grad_is_second_derivative"],
        "extra_modules": ["Pygom.Lemmas.Deriv"]}
BUDGET = {"quick": {"models": 120, "wide": 36}, "thorough": {"models": 2500, "wide": 600}}
RULE = ("random model definitions as in C01 (events routed through the event= keyword so that event order is the declared order); "
        "3 exact points each (one integer valued with zero states) in varied container / dtype forms, away from singularities, results "
        "kept and re-judged after the later calls, parameter re-assignment / restoration, a permuted second instance built in stages and "
        "evaluated alternately, a deep copy, the _T twins; non-trivial = some Jacobian entry and some gradient entry non-zero.  WIDE "
        "input space (tag `wide`, a fixed number of cases per tier, see C01): magnitudes that DEPEND ON A STATE (rho*S, S/2, p*(1 - S/50), "
        "S + 1: the product-rule term d(magnitude)/dx * rate is part of the Jacobian) and derived parameters that contain a state, "
        "compound magnitudes of parameters, trap names (i, j, k, n, e, S, I, E, N, Q, O, C, beta/beta1, gamma, pi, exp, Max ...), numeric "
        "constants and ** powers, the strings written as a user would (natural precedence, blanks, 1e-3 / 1/3 literals; printer checked "
        "against Python's grammar), 8-9 states / 8-12 parameters / 8 events in some cases")
ASSUMPTIONS = ["sympy.diff / Matrix.jacobian are translation-validated per model against the verified Expr.diff, not proved",
               "finite-difference oracle: central differences in 50-digit arithmetic (h=1e-15 first order, 1e-10 second order)"]
TRUSTED = ["harness generator, printer and interpreter", "Lean driver JSON codec",
           "natural-precedence printer exprs.user_str (checked on every case it is used for against Python's own parser)"]

H1 = mpf("1e-15")
H2 = mpf("1e-10")


N_POINTS = 3          # two rational points and one integer-valued point with zero states (handed over as ints / integer arrays)


def wide_options(r, i):
    w = {"names": r.random() < 0.7, "mags": r.random() < 0.85, "state_mags": 0.5, "derived_states": 0.6 if r.random() < 0.6 else 0.0,
         "consts": r.random() < 0.6, "syntax": r.random() < 0.85}
    if i % 11 in (3, 6, 9):
        w["size"] = {3: "many_states", 6: "many_params", 9: "many_events"}[i % 11]
        w["size_max"] = {"many_states": 9, "many_params": 12, "many_events": 8}[w["size"]]     # pygom compiles nE x nE / nS^2 x nS matrices
    return w


def wide_cases(rng, n):
    return make_cases(rng, None, {"models": n}, wide=True)


def make_cases(rng, tier, budget, wide=False):
    from .common import gen_forms
    cases = []
    for i in range(budget["models"]):
        r = random.Random(rng.getrandbits(64))
        w = wide_options(r, i) if wide else None
        spec, meta = gen.gen_model(r, min_events=1, routes=("event", "event_eq", "event_bare"), wide=w)
        pts = [gen.rand_point(r, meta) for _ in range(N_POINTS - 1)] + [gen.rand_point(r, meta, integer=True, zeros=True)]
        big = gen.rand_point(r, meta, integer=True, big=True)
        perm = list(range(len(meta["params"])))
        r.shuffle(perm)
        probe = {"big": {"point": {k: str(v) for k, v in big.items()}, "x": r.choice(BIG_FORMS)},
                 "forms": gen_forms(r, pts, meta["states"]), "reassign_form": r.choice(["list", "tuple", "ndarray", "dict_name", "pairs"]),
                 "sibling": {"state_rev": r.random() < 0.4, "param_perm": perm, "derived_bump": r.random() < 0.5,
                             "last_event_incremental": r.random() < 0.6}}
        cases.append({"spec": spec, "meta": meta, "points": [{k: str(v) for k, v in p.items()} for p in pts], "probe": probe})
        if wide:
            cases[-1]["wide"] = w
    # drawn AFTER the classic cases: their random stream is what it was before the wide input space was added
    wide_list = wide_cases(random.Random(rng.getrandbits(64)), budget["wide"]) if (not wide and budget.get("wide")) else []
    step = max(1, len(cases) // max(1, len(wide_list)))
    for k, c in enumerate(wide_list):            # the wide cases are spread over the run (the large ones are slow)
        cases.insert(min(len(cases), k * (step + 1)), c)
    return cases


def search_cases(rng, tier, budget):
    return make_cases(rng, tier, {"models": budget["models"] * 3, "wide": budget.get("wide", 0) * 3})


def f_oracle(meta, spec, env):
    f, V, a, pure = net_oracle(meta, spec, env)
    return f, V, a


def shifted(env, name, h):
    e = dict(env)
    e[name] = mpf(e[name].numerator) / mpf(e[name].denominator) + h if isinstance(e[name], Fraction) else mpf(e[name]) + h
    return e


def d1(fun, env, name):
    """central difference of a vector-valued function of env"""
    a = fun(shifted(env, name, H1)); b = fun(shifted(env, name, -H1))
    return [(x - y) / (2 * H1) for x, y in zip(a, b)]


def d2(fun, env, n1, n2):
    pp = fun(shifted(shifted(env, n1, H2), n2, H2)); pm = fun(shifted(shifted(env, n1, H2), n2, -H2))
    mp_ = fun(shifted(shifted(env, n1, -H2), n2, H2)); mm = fun(shifted(shifted(env, n1, -H2), n2, -H2))
    return [(a - b - c + d) / (4 * H2 * H2) for a, b, c, d in zip(pp, pm, mp_, mm)]


def mat_close(A, B, rel=1e-7, abs_=1e-8):
    A = np.asarray(A, float); B = np.asarray(B, float)
    return A.shape == B.shape and np.all(np.abs(A - B) <= abs_ + rel * np.maximum(np.abs(A), np.abs(B)))


EVALS = ("jacobian", "grad", "diff_jacobian", "grad_jacobian", "grad_grad", "transitionJacobian", "transitionMean", "transitionVar")

REVERSED = ("ode",) + tuple(reversed(EVALS))


def call_order(key, k):
    """the order in which the evaluators are called (each one compiles and caches its own symbolic object, possibly out of
    another's): as declared, `ode` first and then the higher-order objects BEFORE the lower-order ones they could be built
    from, or shuffled - drawn from the case (deterministic), a different draw for every call site `k`"""
    import zlib
    r = random.Random(zlib.crc32(("%s|%s" % (key, k)).encode()))
    mode = r.choice(("declared", "reversed", "reversed", "shuffled"))
    if mode == "declared":
        return mode, EVALS + ("ode",)
    if mode == "reversed":
        return mode, REVERSED
    o = list(EVALS + ("ode",)); r.shuffle(o)
    return mode, tuple(o)

TOL = {"jacobian": 1e-7, "grad": 1e-7, "diff_jacobian": 1e-6, "grad_jacobian": 1e-6, "grad_grad": 1e-6, "transitionJacobian": 1e-7,
       "transitionMean": 1e-7, "transitionVar": 1e-7, "ode": 1e-9}
HISTORY_LABELS = ("reassigned", "restored", "after-sibling", "after-copy", "copy-after-original", "after-caller-wrote-into-results")


def oracle_all(meta, spec, env, states, params, nE):
    """finite differences of the harness's own right-hand side / rate vector (no Lean, no sympy); may raise E.Undefined"""
    nS, nP = len(states), len(params)
    fo = lambda e_: f_oracle(meta, spec, e_)[0]
    ao = lambda e_: f_oracle(meta, spec, e_)[2]
    O = {}
    O["jacobian"] = np.array([[float(v) for v in d1(fo, env, s)] for s in states]).T.reshape(nS, nS)      # [i][j] = d f_i / d x_j
    O["grad"] = np.array([[float(v) for v in d1(fo, env, p)] for p in params]).T.reshape(nS, nP)
    DJ_o = np.zeros((nS * nS, nS)); GJ_o = np.zeros((nS * nP, nS)); GG_o = np.zeros((nS * nP, nP))
    for j, pj in enumerate(params):
        for k, pk in enumerate(params):
            dd = d2(fo, env, pj, pk)
            for i in range(nS):
                GG_o[i * nP + j, k] = float(dd[i])
    for i, si in enumerate(states):
        for j, sj in enumerate(states):
            dd = d2(fo, env, si, sj)
            for e_ in range(nS):
                DJ_o[e_ * nS + i, j] = float(dd[e_])
    for k, pk in enumerate(params):
        for j, sj in enumerate(states):
            dd = d2(fo, env, pk, sj)
            for i in range(nS):
                GJ_o[k * nS + i, j] = float(dd[i])
    O["diff_jacobian"], O["grad_jacobian"], O["grad_grad"] = DJ_o, GJ_o, GG_o
    f_o, V_o, a_o = f_oracle(meta, spec, env)
    dA = np.array([[float(v) for v in d1(ao, env, s)] for s in states]).T.reshape(nE, nS)   # [i][k] = d a_i / d x_k
    Vm = np.array([[float(v) for v in col] for col in V_o]).T.reshape(nS, nE)                # [k][j]
    TJ_o = dA.dot(Vm)
    a_f = np.array([float(v) for v in a_o])
    O["transitionJacobian"] = TJ_o
    O["transitionMean"] = TJ_o.dot(a_f); O["transitionVar"] = (TJ_o ** 2).dot(a_f)
    O["ode"] = np.array([float(v) for v in f_o])
    return O


class Session(object):
    """one live model instance: its Lean response, its finite-difference oracle, and every array it handed out.
    `step` judges private copies of the results at once; `finish` judges the KEPT arrays after all later calls."""

    def __init__(self, case, spec, meta, who="", partner=None, touch_env=None):
        self.case, self.spec, self.meta, self.who = case, spec, meta, who
        self.tags, self.mism, self.viol = [], [], []
        self.kept = Kept()
        self.steps = []
        self.cache = {}
        self.nz = {"J": False, "G": False, "GG": False}
        self.dead = False
        self.model = None
        self.cur = {}
        n_then = len(spec.get("then", []))
        staged = partner is not None and n_then > 0 and all(o["op"] in pymodel.SETTER for o in spec["then"])
        if not staged:
            self.lr, self.model, self.perr, self.stage = build_both(spec, derivs=True)
            return
        # staged construction (see C01): constructor keywords, every evaluator compiled, then the incremental operations
        # one at a time with ANOTHER live instance evaluating before this one does
        from .common import lean_assemble
        self.lr = lean_assemble(spec, True)
        self.perr, self.stage = None, None
        self.tags.append("staged_build")
        try:
            self.model = pymodel.build(spec, upto=0)
            self.touch(touch_env, 0)
            for k in range(n_then):
                pymodel.apply_then(self.model, spec["then"][k], sx=spec.get("syntax"))
                partner.touch(touch_env, None)
                self.touch(touch_env, k + 1)
            for g in ("get_ode_eqn", "get_StateChangeMatrix", "get_EventRateVector", "get_pureOdeVector"):
                getattr(self.model, g)()
        except Exception as exc:
            self.perr, self.stage = pymodel.err_enum(exc), "build"
            self.model = None

    def touch(self, env, upto):
        """call every evaluator once (so that it is compiled for the model as it is now); jacobian and ode are judged
        against the spec read up to operation `upto` (None = the complete model)"""
        if self.model is None or env is None:
            return
        m = self.model
        states = [str(s) for s in m.state_list]; params = [str(p) for p in m.param_list]
        x = fl(env, states); t = float(env["t"])
        try:
            m.parameters = fl(env, params)
            self.cur = {p: env[p] for p in params}
        except Exception:
            self.tags.append("touch:parameters-not-settable")
            return
        got = {}
        mode, order = call_order(json.dumps(self.spec, sort_keys=True), "touch:%s" % upto)
        self.tags.append("touch-order:" + mode)
        for name in order:
            try:
                got[name] = np.array(getattr(m, name)(x, t), dtype=float)
            except Exception:
                self.tags.append("touch:%s-raised" % name)
        if "ode" not in got or "jacobian" not in got:
            return
        try:
            fo = (lambda e_: net_oracle(self.meta, self.spec, e_)[0]) if upto is None else (lambda e_: spec_oracle(self.spec, states, e_, upto=upto)[0])
            f_o = fo(env)
            J_o = np.array([[float(v) for v in row] for row in fd_jacobian(fo, env, states)]).reshape(len(states), len(states))
        except E.Undefined:
            return
        stage = "as built so far (constructor + %d incremental operations)" % upto if upto is not None else "after another instance was extended"
        if not vec_close(got["ode"].ravel(), f_o):
            self.viol.append({"what": self.who + "ode(x,t) of the model %s is not the described right-hand side" % stage, "signature": "staged:ode",
                              "detail": "ode=%s expected=%s" % (got["ode"].ravel().tolist(), [mpf_s(v) for v in f_o])})
        elif not mat_close(got["jacobian"].reshape(J_o.shape), J_o, rel=1e-7, abs_=1e-7):
            self.viol.append({"what": self.who + "jacobian(x,t) of the model %s is not the derivative (finite-difference oracle)" % stage,
                              "signature": "staged:jacobian:not-derivative",
                              "detail": "got %s expected %s" % (got["jacobian"].tolist(), J_o.tolist())})

    def open(self):
        lr, model, spec, meta = self.lr, self.model, self.spec, self.meta
        tags, mism, viol = self.tags, self.mism, self.viol
        mism += compare_errors(lr, self.perr, self.stage)
        if self.perr is not None or lr.get("err") is not None:
            viol.append({"what": self.who + "well-formed model rejected: %s" % self.perr, "signature": "reject:%s" % self.perr, "detail": ""})
            tags.append("rejected")
            self.dead = True
            return False
        self.states = states = [str(s) for s in model.state_list]; self.params = params = [str(p) for p in model.param_list]
        if states != meta["states"] or params != meta["params"]:
            viol.append({"what": self.who + "declared names / order not kept: %s %s, declared %s %s" % (states, params, meta["states"], meta["params"]),
                         "signature": "declared-names", "detail": ""})
            self.dead = True
            return False
        self.nS, self.nP, self.nE = nS, nP, nE = len(states), len(params), len(lr["rates"])
        tags += ["nS=%d" % nS, "nP=%d" % nP, "nE=%d" % nE, "square" if nS == nP else "asymmetric"]
        for k in set(meta["kinds"]): tags.append("rate:" + k)
        if self.case.get("wide") is not None and not self.who:
            tags += wide_tags(spec, meta, self.case["wide"], NAMED_TRAPS)
        if not hasattr(model, "get_grad_grad_eqn") or not hasattr(model, "grad_grad"):
            # the modelled source has the evaluator (Model.gradGradEqn, since the repair of C20-hessian-mixed-terms)
            mism.append({"what": "evaluator missing: grad_grad", "detail": "the model has no get_grad_grad_eqn / grad_grad"})
            tags.append("evaluator-missing:grad_grad")
            self.dead = True
            return False
        try:
            J_s = model.get_jacobian_eqn(); G_s = model.get_grad_eqn(); GG_s = model.get_grad_grad_eqn()
            DJ_s = model.get_diff_jacobian_eqn(); GJ_s = model.get_grad_jacobian_eqn()
            TJ_s = model.get_TransitionJacobian(); TM_s = model.get_TransitionMean(); TV_s = model.get_TransitionVar()
        except Exception as exc:
            viol.append({"what": self.who + "symbolic derivative raised %s: %s" % (type(exc).__name__, str(exc)[:200]),
                         "signature": "symbolic-raise:%s" % type(exc).__name__, "detail": ""})
            self.dead = True
            return False
        flat = lambda M: [M[i, j] for i in range(M.rows) for j in range(M.cols)]
        lflat = lambda L: [e for row in L for e in row]
        self.sym = (("get_jacobian_eqn", flat(J_s), lflat(lr["jac"])), ("get_grad_eqn", flat(G_s), lflat(lr["grad"])),
                    ("get_diff_jacobian_eqn", flat(DJ_s), lflat(lr["djac"])),
                    ("get_grad_jacobian_eqn", flat(GJ_s), lflat(lr["gjac"])),
                    ("get_grad_grad_eqn", flat(GG_s), lflat(lr["ggrad"])),
                    ("get_TransitionJacobian", flat(TJ_s), lflat(lr["tjac"])),
                    ("get_TransitionMean", list(TM_s), lr["tmean"]), ("get_TransitionVar", list(TV_s), lr["tvar"]))
        self.shape = {"jacobian": (nS, nS), "grad": (nS, nP), "diff_jacobian": (nS * nS, nS), "grad_jacobian": (nS * nP, nS),
                      "grad_grad": (nS * nP, nP), "transitionJacobian": (nE, nE), "transitionMean": (nE,), "transitionVar": (nE,), "ode": (nS,)}
        return True

    def step(self, env, form, label, symbolic=False, set_params=True):
        if self.dead:
            return False
        lr, model, meta, spec = self.lr, self.model, self.meta, self.spec
        mism, viol, tags = self.mism, self.viol, self.tags
        n0 = len(mism) + len(viol)
        pt = {k: str(v) for k, v in env.items()}
        if symbolic:
            # sympy's derivatives against the verified differentiator
            for name, S, L in self.sym:
                sym_vs_lean(S, L, env, name, mism, tags)
        x = as_x(env, self.states, form["x"]); t = as_t(env, form["t"])
        tags.append("x:" + form["x"]); tags.append("t:" + form["t"])
        first_row = len(self.kept.rows)
        vals = {}
        try:
            if set_params:
                th = as_params(env, self.params, form["p"])
                fth = freeze(th)
                model.parameters = th
                self.cur = {p: env[p] for p in self.params}
                tags.append("p:" + form["p"])
                if freeze(th) != fth:
                    # a pure side effect (the values judged below decide): tagged, not a violation of this property
                    tags.append("side-effect:parameters-object-modified:" + form["p"])
            mode, order = call_order(json.dumps(self.spec, sort_keys=True), "step:%s:%s" % (self.who, label))
            tags.append("call-order:" + mode)
            for name in order:
                v = self.kept.call(model, name, x, t, label)
                if name == "grad_grad" and v.shape != self.shape[name]:
                    viol.append({"what": self.who + "grad_grad(x,t) has shape %s, expected %s" % (v.shape, self.shape[name]),
                                 "signature": "grad_grad:shape" + (":nS=1" if self.nS == 1 else "") + (":nP=1" if self.nP == 1 else ""), "detail": json.dumps(pt)})
                    return False
                vals[name] = v.reshape(self.shape[name])
        except Exception as exc:
            viol.append({"what": self.who + "derivative evaluator raised %s: %s" % (type(exc).__name__, str(exc)[:200]),
                         "signature": "evaluator-raise:%s:x=%s,t=%s" % (type(exc).__name__, form["x"], form["t"]), "detail": json.dumps(pt)})
            return False
        key = json.dumps(pt, sort_keys=True)
        try:
            if key not in self.cache:
                Lv = lambda L: np.array([[float(E.ev(e, env)) for e in row] for row in L], float)
                Ln = {"jacobian": Lv(lr["jac"]), "grad": Lv(lr["grad"]), "diff_jacobian": Lv(lr["djac"]), "grad_jacobian": Lv(lr["gjac"]),
                      "grad_grad": Lv(lr["ggrad"]), "transitionJacobian": Lv(lr["tjac"]),
                      "transitionMean": np.array([float(E.ev(e, env)) for e in lr["tmean"]]), "transitionVar": np.array([float(E.ev(e, env)) for e in lr["tvar"]]),
                      "ode": np.array([float(E.ev(e, env)) for e in lr["ode"]])}
                self.cache[key] = (Ln, oracle_all(meta, spec, env, self.states, self.params, self.nE))
            Ln, O = self.cache[key]
        except E.Undefined:
            tags.append("undefined_point")
            return True
        self.nz["J"] = self.nz["J"] or bool(np.any(np.abs(O["jacobian"]) > 1e-9)); self.nz["G"] = self.nz["G"] or bool(np.any(np.abs(O["grad"]) > 1e-9))
        self.nz["GG"] = self.nz["GG"] or bool(np.any(np.abs(O["grad_grad"]) > 1e-9))
        st = {"label": label, "pt": pt, "lean": Ln, "oracle": O, "first_row": first_row}
        self.steps.append(st)
        nv = len(viol)
        self.judge(st, vals, "")
        if len(viol) > nv and (form["x"].startswith("ndarray_int") or form["t"] == "np.int64"):
            # wrong for a numpy integer dtype, right for the same point as Python floats?  then the input class is the dtype
            xf, tf = fl(env, self.states), float(env["t"])
            for v in viol[nv:]:
                name = v.get("evaluator")
                try:
                    again = np.array(getattr(model, name)(xf, tf), float).reshape(self.shape[name])
                except Exception:
                    continue
                if mat_close(again, O[name].reshape(again.shape), rel=TOL[name], abs_=TOL[name]):
                    v["signature"] = "integer-dtype-state:%s" % name
                    v["what"] += " - for x as %s / t as %s only (right for the same point as Python floats: fixed-width integer wrap-around)" % (form["x"], form["t"])
        return len(mism) + len(viol) == n0

    def keep_params(self, env):
        """(x, t) of `env` with the parameter values this instance currently holds"""
        e = dict(env); e.update(self.cur)
        return e

    def clone(self):
        """copy.deepcopy of the configured, already evaluated model as one more live instance"""
        C = object.__new__(Session)
        C.__dict__.update(self.__dict__)
        C.tags, C.mism, C.viol, C.kept, C.steps = [], [], [], Kept(), []
        C.nz = dict(self.nz)
        C.who = "copy.deepcopy of the model: "
        try:
            C.model = copy.deepcopy(self.model)
        except Exception as exc:
            self.tags.append("deepcopy-raised:%s" % type(exc).__name__)
            return None
        C.cur = dict(self.cur)
        return C

    def twins(self, env, label):
        """the solver-facing twins f_T(t, x) at a point whose oracle is known"""
        if self.dead or self.mism or self.viol:
            return
        key = json.dumps({k: str(v) for k, v in env.items()}, sort_keys=True)
        if key not in self.cache:
            return
        O = self.cache[key][1]
        x = fl(env, self.states); t = float(env["t"])
        for twin, name in (("ode_T", "ode"), ("jacobian_T", "jacobian"), ("grad_T", "grad"), ("diff_jacobian_T", "diff_jacobian"),
                           ("grad_jacobianT", "grad_jacobian")):
            try:
                got = np.array(getattr(self.model, twin)(t, x), float).reshape(self.shape[name])
            except Exception as exc:
                self.viol.append({"what": self.who + "%s raised %s: %s" % (twin, type(exc).__name__, str(exc)[:200]),
                                  "signature": "evaluator-raise:%s:%s" % (twin, type(exc).__name__), "detail": ""})
                return
            if not mat_close(got, O[name].reshape(got.shape), rel=TOL[name], abs_=TOL[name]):
                self.viol.append({"what": self.who + "[%s] %s(t,x) is not the derivative / definition (finite-difference oracle)" % (label, twin),
                                  "signature": "%s:not-derivative" % twin, "detail": "got %s expected %s" % (got.tolist(), O[name].tolist())})
        self.tags.append("twins")

    def dtype_probe(self, env, xform):
        if self.dead or self.mism or self.viol:
            return
        v, tg = dtype_probe(self.model, EVALS + ("ode",), self.states, self.params, env, xform, self.who)
        self.viol += v; self.tags += tg
        self.cur = {p: env[p] for p in self.params}

    def judge(self, st, vals, kind):
        label, pt = st["label"], st["pt"]
        pre = self.who + ("[%s] " % label) + ("KEPT result, looked at after the later calls: " if kind else "")
        for name in EVALS + ("ode",):
            N = vals[name]
            O = st["oracle"][name].reshape(N.shape)
            # absolute floors are relative to the size of the object: an entry that is an exact cancellation of terms of
            # size 1e7 (a death of magnitude C and a transfer of magnitude 2x - var with C = 2x - var) comes out as
            # rounding noise ~1e-9, not as 0 (false alarm of seed 7 after the wide magnitudes were introduced)
            scale = max(1.0, float(np.max(np.abs(O))) if O.size else 1.0)
            if not kind:
                L = st["lean"][name].reshape(N.shape)
                if not mat_close(N, L, rel=1e-9, abs_=1e-10 * scale):
                    self.mism.append({"what": name + "(x,t)", "detail": "python %s lean %s at %s" % (N.tolist(), L.tolist(), pt)})
            if not mat_close(N, O, rel=TOL[name], abs_=TOL[name] * scale):
                sgn = ("kept:" if kind else ("history:" if label in HISTORY_LABELS else "")) + ("%s:not-derivative" % name if name != "ode" else "ode:not-rhs")
                self.viol.append({"what": pre + "%s(x,t) is not the derivative / definition (finite-difference oracle)" % name,
                                  "signature": sgn, "evaluator": name, "detail": "got %s expected %s at %s" % (N.tolist(), O.tolist(), pt)})

    def finish(self):
        if self.dead or self.mism or self.viol:
            return
        for label, name in self.kept.input_changed:
            # writing into the caller's state vector / time is a side effect outside this property: tagged only
            self.tags.append("side-effect:input-modified:%s" % name)
        changed = self.kept.changed()
        if changed:
            self.tags.append("kept_result_changed")
        n_ev = len(EVALS) + 1
        for st in self.steps:
            rows = {r["name"]: r for r in self.kept.rows[st["first_row"]:st["first_row"] + n_ev]}
            raw = {name: np.asarray(rows[name]["raw"], float).reshape(self.shape[name]) for name in EVALS + ("ode",)}
            self.judge(st, raw, "kept")
            if self.viol:
                break
        if changed and not self.viol:
            # a kept array was written to by a later call but every kept value still satisfies the oracle: a side effect
            # (a view of internal state) without a wrong value - tagged, not judged
            self.tags.append("side-effect:kept-array-rewritten-with-right-values")
        self.tags.append("kept_judged:%d" % len(self.steps))

    def after_scribble(self, env, form, label):
        if self.dead or self.mism or self.viol:
            return
        n = self.kept.scribble()
        self.tags.append("scribbled" if n else "nothing_to_scribble")
        self.kept = Kept()
        self.step(env, form, label)


def pref(prefix, signature):
    """which instance failed is part of the signature, except where the input class alone names the failure"""
    return signature if signature.startswith("integer-dtype-state:") else prefix + signature


def run_case(case):
    spec, meta = case["spec"], case["meta"]
    pts = [{k: Fraction(v) for k, v in p.items()} for p in case["points"]]
    probe = case.get("probe") or {}
    forms = probe.get("forms") or [{"x": "list", "t": "float", "p": "list"}] * len(pts)
    A = Session(case, spec, meta)
    B = None
    ok = A.open()
    if ok:
        printer_check(spec, pts[0], A.mism, A.tags)
        for k, env in enumerate(pts):
            ok = A.step(env, forms[k], "point%d" % k, symbolic=True)
            if not ok:
                break
    if ok and probe.get("big"):
        A.dtype_probe({k: Fraction(v) for k, v in probe["big"]["point"].items()}, probe["big"]["x"])
        ok = not (A.mism or A.viol)
    if ok and probe and len(pts) >= 2:
        # history on one instance: (x, t) of point 0 with the parameter values of point 1, then the first values again
        env_r = dict(pts[0]); env_r.update({p: pts[1][p] for p in A.params})
        ok = A.step(env_r, dict(forms[0], p=probe.get("reassign_form", "list")), "reassigned") and \
            A.step(pts[0], dict(forms[0], p=forms[1]["p"]), "restored")
    if ok and probe.get("sibling"):
        # a second live instance under the same names: parameter / state declaration permuted, derived parameter
        # redefined, last event entered incrementally with the first instance evaluating in between
        sb = probe["sibling"]
        s2, m2, changed = gen.sibling_spec(spec, meta, state_rev=sb.get("state_rev", False), param_perm=sb.get("param_perm"),
                                           derived_bump=sb.get("derived_bump", False), last_event_incremental=sb.get("last_event_incremental", False))
        if changed:
            A.tags.append("sibling_checked")
            for c in changed:
                A.tags.append("sibling:" + c)
            B = Session(case, s2, m2, who="second model with the same names: ", partner=A, touch_env=pts[0])
            if B.open():
                okB = B.step(pts[0], forms[0], "point0", symbolic=True)
                # the first instance again, WITHOUT touching its parameters (they are still those of point 0)
                okA = A.step(A.keep_params(pts[1]), forms[1], "after-sibling", set_params=False) if okB else False
                if okA and okB:
                    B.step(pts[1], forms[1], "point1") and A.step(pts[1], forms[1], "after-sibling")
    C = None
    if ok and probe and not (A.mism or A.viol) and (B is None or not (B.mism or B.viol)):
        # the solver-facing twins, and a deep copy of the evaluated model as one more live instance: the copy gets other
        # parameter values, the original is evaluated again without being touched, and the other way round
        A.twins(pts[1] if A.cur == {p: pts[1][p] for p in A.params} else pts[0] if A.cur == {p: pts[0][p] for p in A.params} else {}, "twin")
        C = A.clone()
        if C is not None:
            A.tags.append("deepcopy_checked")
            C.step(pts[2 % len(pts)], forms[2 % len(pts)], "copy-point2") and A.step(A.keep_params(pts[0]), forms[0], "after-copy", set_params=False) \
                and C.step(C.keep_params(pts[2 % len(pts)]), forms[0], "copy-after-original", set_params=False)
    A.finish()
    if B is not None and not B.dead:
        B.finish()
    if C is not None:
        C.finish()
        A.viol += [dict(v, signature=pref("deepcopy:", v.get("signature", ""))) for v in C.viol]
        A.mism += [dict(m_, what="deepcopy:" + m_["what"]) for m_ in C.mism]
    if not (A.mism or A.viol) and (B is None or not (B.mism or B.viol)):
        A.after_scribble(pts[1 % len(pts)], forms[1 % len(pts)], "after-caller-wrote-into-results")
    if A.nz["GG"]:
        A.tags.append("grad_grad:non-zero")
    r = {"nontrivial": bool(A.nz["J"] and A.nz["G"]), "mismatches": A.mism, "violations": A.viol, "tags": A.tags,
         "sample": {"spec": spec, "point": case["points"][0]}}
    if B is not None:
        for v in B.viol:
            r["violations"].append(dict(v, signature=pref("sibling:", v.get("signature", ""))))
        for m_ in B.mism:
            r["mismatches"].append(dict(m_, what="sibling:" + m_["what"]))
        r["tags"] += [tg for tg in B.tags if tg.startswith(("staged", "touch", "kept", "x:", "t:", "p:", "rejected"))]
        if B.viol or B.mism:
            r["sample"] = {"first": spec, "second": B.spec}
    return r
