"""
C08 - evaluators never go stale after a model is modified.

A case = a random initial model + a random history of mutators (add_event with an Event / a bare Transition,
add_transition, add_birth_death, add_ode, derived parameters, new parameters / states that later processes
then use, parameter VALUES in every accepted format, a few rejected calls) interleaved with evaluations at
random points.  After EVERY step k the prefix ops[0:k] is replayed on a new instance of the real SimulateOde and
EVERY evaluator is called (in a random order that is part of the case) and compared with

 (a) DIRECT ORACLE (no Lean): a freshly constructed model with the same final definition and parameter values
     (built from the accumulated spec, nothing compiled before the last mutator).  A difference is a VIOLATION
     of the property; signature  stale:<evaluator>:after:<kind of the step at which it first went stale>.
 (b) the Lean state machine (driver op `canary`): which definition version / argument list `_sp` the called
     closure was compiled from.  A difference between the value that prediction implies and the value pygom
     returned is a model/code MISMATCH.

Internals (`<name>Compiled` identity, `_hasNewTransition._states`) are compared with the driver and recorded
in tags only.
"""
import copy
import json
import os
import random
from fractions import Fraction

import numpy as np

from .. import exprs as E
from .. import gen, leanio, pymodel

PROP = "C08"
LEAN = {"module": "Pygom.Props.C08", "extra_modules": ["Pygom.Lemmas.Canary", "Pygom.Props.C08Source"],
        "required": ["Pygom.C08.inv_init", "Pygom.C08.inv_step", "Pygom.C08.never_stale", "Pygom.C08.never_stale_source",
                     "Pygom.C08.never_stale_partial", "Pygom.C08.stale_after_add_ode", "Pygom.C08.stale_sp_after_add_param",
                     "Pygom.C08.stale_unwatched_counterexample", "Pygom.C08.source_good", "Pygom.C08.ver_sound",
                     "Pygom.C08Source.extracted_good", "Pygom.C08Source.extracted_registered_watched",
                     "Pygom.C08Source.extracted_all_registered", "Pygom.C08Source.extracted_watches_all",
                     "Pygom.C08Source.extracted_master_is_ode", "Pygom.C08Source.extracted_eq_source",
                     "Pygom.C08Source.never_stale_extracted"]}
BUDGET = {"quick": {"cases": 280, "maxlen": 12, "search": 600},
          "thorough": {"cases": 360, "maxlen": 40, "search": 800}}
RULE = ("random initial model (1-3 states, 1-3 params, 0-3 events, every API route incl. incremental ones) + random history "
        "(length 3..12 quick / 3..40 thorough) of mutators (add_event Event/bare Transition, add_transition, add_birth_death, "
        "add_ode, derived parameter, new parameter/state then used, parameter values as list/ndarray/tuples/permuted tuples/"
        "dict/partial dict/Symbol-keyed dict, rejected calls) interleaved with evaluations; all 12 evaluators (grad_grad included) observed "
        "after every step on a replayed instance; non-trivial = some mutator or parameter assignment occurs after a compile")
ASSUMPTIONS = ["'fresh model' = SimulateOde built from the accumulated definition with no evaluator compiled before the last "
               "mutator, parameters assigned once as a full list (a parameter never given a value counts as 0, as "
               "`_paramValue = [0]*n` does)",
               "lambda back-end (documented compileCode(backend='lambda')); float comparison rel 1e-9 / abs 1e-11 between two "
               "evaluations of the same sympy expression (reference accuracy ~1e-15)",
               "the Lean model is the tree WITH proposed_fixes/C08-*.diff applied (Canary.sourceCfg); "
               "VERIF_C08_CFG=as_found selects the model of the tree as found"]
TRUSTED = ["harness generator / replay logic", "Lean driver JSON codec", "pymodel.build (route replay)",
           "harness/translate_canary.py: that the extracted table (which mutators follow every definition-changing statement by "
           "trip(), HasNewTransition.states, add_func registrations, set_sp in the declaration setters) says what the Python text does"]


def pre(tier):
    """(T) translator tie: regenerate Gen/CanaryCfg.lean from the source text of the tree under test; the theorems of
    Pygom.Props.C08Source are then re-checked against it by the lake build of the obligations step"""
    from .. import bootstrap, translate_canary as TC
    r = TC.regenerate(bootstrap.REPO)
    broken = [{"obligation": "translator: %s" % x["what"], "detail": "BROKEN TIE - source outside the translated subset: " + x["detail"]}
              for x in r["refused"]]
    n = len(TC.MUTATORS) + 3
    return {"broken": broken, "obligations": n, "discharged": n - len(broken),
            "coverage": {"generated_files_changed": ["lean/Pygom/Gen/CanaryCfg.lean"] if r["changed"] else [],
                         "canary_translator": {"trips": r["trips"], "watched": r["watched"], "registered": r["registered"],
                                               "declSetsSp": r["declSetsSp"], "per_mutator": r["detail"], "refusals": r["refused"]}}}

EVALS = ["ode", "jacobian", "grad", "diff_jacobian", "grad_jacobian", "grad_grad", "eventRateVector", "vMat", "pureOdeVector",
         "transitionJacobian", "transitionMean", "transitionVar"]
GENERATOR = {"ode": "get_ode_eqn", "jacobian": "get_jacobian_eqn", "grad": "get_grad_eqn",
             "diff_jacobian": "get_diff_jacobian_eqn", "grad_jacobian": "get_grad_jacobian_eqn", "grad_grad": "get_grad_grad_eqn",
             "eventRateVector": "get_EventRateVector", "vMat": "get_StateChangeMatrix", "pureOdeVector": "get_pureOdeVector",
             "transitionJacobian": "get_TransitionJacobian", "transitionMean": "get_TransitionMean",
             "transitionVar": "get_TransitionVar"}
NEW_PARAMS = ["kap2", "eps", "phi", "omega", "nu", "xi"]
NEW_STATES = ["Q", "U", "G", "K"]
NEW_DERIVED = ["dd1", "dd2", "dd3"]
FORMATS = ["list", "ndarray", "tuples", "tuples_perm", "dict_full", "dict_subset", "dict_symbol"]
CFG = os.environ.get("VERIF_C08_CFG", "source")


# ---------------------------------------------------------------------------------------------------------------
# generation

def _val(r, den=(7, 10, 13)):
    return "%d/%d" % (r.randint(1, 20), r.choice(den))


def gen_history(r, meta, maxlen):
    states, params, derived = list(meta["states"]), list(meta["params"]), list(meta["derived"])
    kinds = [k for k in gen.RATE_KINDS]
    ops = []
    n = r.randint(3, maxlen)
    p_eval = r.choice([0.25, 0.4, 0.55])
    new_p, new_s, new_d = list(NEW_PARAMS), list(NEW_STATES), list(NEW_DERIVED)
    while len(ops) < n:
        coefs = params + derived
        if r.random() < p_eval:
            ops.append({"op": "evaluate", "name": r.choice(EVALS)})
            continue
        k = gen.wchoice(r, [("add_event", 3), ("add_event_bare", 2), ("add_transition", 2), ("add_birth_death", 2), ("add_ode", 4),
                            ("set_params", 5), ("add_params", 2), ("add_states", 1), ("add_derived", 1), ("rejected", 0.5)])
        if k == "add_event":
            p = gen.gen_processes(r, states, coefs, 1, kinds, max_trans=2)[0]
            ops.append({"op": "add_event", "kind": k, "rate": p["rate"],
                        "transitions": [gen.transition_json(t, None, r.random() < 0.4) for t in p["transitions"]]})
        elif k == "add_event_bare":
            p = gen.gen_processes(r, states, coefs, 1, kinds, max_trans=1)[0]
            ops.append({"op": "add_event", "kind": k, "transition": gen.transition_json(p["transitions"][0], p["rate"], r.random() < 0.4)})
        elif k == "add_transition":
            if len(states) < 2:
                continue
            p = gen.gen_processes(r, states, coefs, 1, kinds, max_trans=1, types=(("T", 1),))[0]
            ops.append({"op": "add_transition", "kind": k, "t": gen.transition_json(p["transitions"][0], p["rate"])})
        elif k == "add_birth_death":
            p = gen.gen_processes(r, states, coefs, 1, kinds, max_trans=1, types=(("B", 1), ("D", 1)))[0]
            ops.append({"op": "add_birth_death", "kind": k, "t": gen.transition_json(p["transitions"][0], p["rate"], r.random() < 0.4)})
        elif k == "add_ode":
            _, e = gen.gen_rate(r, states, coefs, [kk for kk in kinds if kk[0] in ("linear", "mass", "saturating")])
            if r.random() < 0.5:
                e = E.neg(e)
            ops.append({"op": "add_ode", "kind": k,
                        "t": {"type": "ODE", "origin": r.choice(states), "dest": None, "mag": E.num(1), "eq": e}})
        elif k == "set_params":
            # (the scalar / (name, value) forms for one-parameter models raise in the setter itself - C09's business)
            fmt = r.choice(FORMATS)
            names = list(params)
            if fmt == "dict_subset":
                names = r.sample(params, r.randint(1, len(params)))
            elif fmt == "tuples_perm":
                r.shuffle(names)
            ops.append({"op": "set_params", "kind": "set_params", "fmt": fmt, "names": names, "values": {nm: _val(r) for nm in names}})
        elif k == "add_params":
            if not new_p:
                continue
            nm = [new_p.pop(0)]
            if new_p and r.random() < 0.2:
                nm.append(new_p.pop(0))
            if r.random() < 0.15:
                nm.append(r.choice(params))        # re-declaring an existing name is a no-op in pygom
            ops.append({"op": "add_params", "kind": k, "names": nm})
            params += [x for x in nm if x not in params]
        elif k == "add_states":
            if not new_s:
                continue
            nm = [new_s.pop(0)]
            ops.append({"op": "add_states", "kind": k, "names": nm})
            states += nm
        elif k == "add_derived":
            if not new_d:
                continue
            nm = new_d.pop(0)
            base = E.var(r.choice(params))
            e = r.choice([E.mul(E.num(r.randint(1, 5), r.randint(1, 4)), base), E.add(base, E.num(r.randint(1, 3))),
                          E.mul(E.var(r.choice(coefs)), E.add(E.num(1), base))])
            ops.append({"op": "add_derived", "kind": k, "name": nm, "expr": e})
            derived.append(nm)
        else:
            rate = E.mul(E.var(params[0]), E.var(states[0]))
            which = r.choice(["B_to_add_transition", "T_to_add_birth_death", "D_to_add_ode"])
            if which == "B_to_add_transition":
                ops.append({"op": "add_transition", "kind": "rejected", "t": {"type": "B", "origin": None, "dest": states[0], "mag": E.num(1), "eq": rate}})
            elif which == "T_to_add_birth_death" and len(states) >= 2:
                ops.append({"op": "add_birth_death", "kind": "rejected", "t": {"type": "T", "origin": states[0], "dest": states[1], "mag": E.num(1), "eq": rate}})
            else:
                ops.append({"op": "add_ode", "kind": "rejected", "t": {"type": "D", "origin": states[0], "dest": None, "mag": E.num(1), "eq": rate}})
    return ops, states, params


def make_case(r, maxlen):
    spec, meta = gen.gen_model(r, max_states=3, max_params=3, max_events=3, allow_range=True)
    ops, states, params = gen_history(r, meta, maxlen)
    return {"spec": spec,
            "meta": {"states": meta["states"], "params": meta["params"], "derived": meta["derived"], "routes": meta["routes"]},
            "history": ops,
            "pv0": {p: _val(r) for p in meta["params"]},
            "x": {s: "%d/%d" % (r.randint(1, 40), r.choice([1, 2, 3])) for s in states},
            "t": "%d/12" % r.randint(0, 36),
            "observe": [r.sample(EVALS, len(EVALS)) for _ in range(len(ops) + 1)]}


def make_cases(rng, tier, budget):
    return [make_case(random.Random(rng.getrandbits(64)), budget["maxlen"]) for _ in range(budget["cases"])]


def search_cases(rng, tier, budget):
    return [make_case(random.Random(rng.getrandbits(64)), budget["maxlen"]) for _ in range(budget["search"])]


# ---------------------------------------------------------------------------------------------------------------
# running the real code

def _f(s):
    return float(Fraction(s))


def apply_mutator(model, op):
    k = op["op"]
    if k == "add_derived":
        model.derived_param_list = [(op["name"], E.to_str(op["expr"]))]      # public setter -> _addDerivedParam
    else:
        pymodel.apply_then(model, op)


def apply_set_params(model, op, pv):
    import sympy
    fmt, names = op["fmt"], op["names"]
    v = {n: _f(op["values"][n]) for n in names}
    if fmt == "list":
        model.parameters = [v[n] for n in names]
    elif fmt == "ndarray":
        model.parameters = np.array([v[n] for n in names], float)
    elif fmt in ("tuples", "tuples_perm"):
        model.parameters = [(n, v[n]) for n in names]
    elif fmt in ("dict_full", "dict_subset"):
        model.parameters = {n: v[n] for n in names}
    elif fmt == "dict_symbol":
        model.parameters = {sympy.Symbol(n): v[n] for n in names}
    elif fmt == "scalar":
        model.parameters = v[names[0]]
    elif fmt == "single_tuple":
        model.parameters = (names[0], v[names[0]])
    else:
        raise ValueError(fmt)
    pv.update(v)


def call(model, name, x, t):
    try:
        return ("ok", np.asarray(getattr(model, name)(x, t), float))
    except Exception as exc:
        return ("err", type(exc).__name__, str(exc)[:200])


def same(a, b):
    if a[0] != b[0]:
        return False
    if a[0] == "err":
        return True          # both raise: nothing to compare (error text may name internals)
    u, w = a[1], b[1]
    if u.shape != w.shape:
        return False
    if u.size == 0:
        return True
    with np.errstate(all="ignore"):
        d = np.abs(u - w)
        ok = d <= 1e-11 + 1e-9 * np.maximum(np.abs(u), np.abs(w))
    return bool(np.all(ok | (np.isnan(u) & np.isnan(w)) | (u == w)))


def show(a):
    if a[0] == "err":
        return "raises %s: %s" % (a[1], a[2])
    return "%s shape=%s" % (np.array2string(a[1].ravel()[:12], precision=8), a[1].shape)


class Fresh:
    """freshly constructed models, one per (definition version, parameter values)"""

    def __init__(self, specs):
        self.specs = specs
        self.cache = {}

    def model(self, ver, pv):
        key = (ver, tuple(sorted(pv.items())))
        if key not in self.cache:
            m = pymodel.build(self.specs[ver], backend="lambda")
            names = [str(p) for p in m.param_list]
            m.parameters = [float(pv.get(n, 0.0)) for n in names]
            self.cache[key] = (m, {})
        return self.cache[key]

    def value(self, ver, pv, name, xvals, t):
        m, vals = self.model(ver, pv)
        if name not in vals:
            x = [xvals[str(s)] for s in m.state_list]
            vals[name] = call(m, name, x, t)
        return vals[name]

    def free_symbols(self, ver, pv, name):
        m, _ = self.model(ver, pv)
        obj = getattr(m, GENERATOR[name])()
        return set(str(s) for s in obj.free_symbols)


def lean_history(ops, pv_track):
    """history for the driver; set_params carries the unrolled `_paramValue` (harness's view) so that the model
    knows its length"""
    out = []
    for op in ops:
        if op["op"] == "set_params":
            out.append({"op": "set_params", "values": op["_unrolled"]})
        else:
            out.append({k: v for k, v in op.items() if k not in ("kind",)})
    return out


def run_case(case):
    spec, hist = case["spec"], case["history"]
    tags, mism, viol = [], [], []
    xvals = {k: _f(v) for k, v in case["x"].items()}
    t = _f(case["t"])
    n = len(hist)
    drv = leanio.driver()

    # ---- pass 0: which mutators does the real code accept; definition versions; parameter values after each step
    m0 = pymodel.build(spec, backend="lambda")
    absent = [e for e in EVALS if not hasattr(m0, e)]
    if absent:
        # the modelled source registers these names with add_func (Canary.Ev): their absence is a broken correspondence
        return {"nontrivial": False, "tags": ["evaluator-missing:" + ",".join(absent)], "violations": [],
                "mismatches": [{"what": "evaluator missing: " + ",".join(absent),
                                "detail": "the model has no attribute %s; Canary.Ev / simulate.HasNewTransition.states list it" % absent}]}
    pv = {p: _f(v) for p, v in case["pv0"].items()}
    names0 = [str(p) for p in m0.param_list]
    for nm in names0:
        pv.setdefault(nm, 0.0)
    specs = [copy.deepcopy(spec)]
    ver_after, pv_after, accepted, params_after = [], [], [], []
    hist = copy.deepcopy(hist)
    for op in hist:
        acc = None
        if op["op"] == "evaluate":
            pass
        elif op["op"] == "set_params":
            apply_set_params(m0, op, pv)
            tags.append("fmt:" + op["fmt"])
        else:
            try:
                apply_mutator(m0, op)
                acc = True
                s2 = copy.deepcopy(specs[-1])
                s2["then"] = list(s2.get("then", [])) + [{k: v for k, v in op.items() if k != "kind"}]
                specs.append(s2)
            except Exception as exc:
                acc = False
                tags.append("mutator_rejected:" + pymodel.err_enum(exc))
            tags.append("mut:" + op["kind"])
        for nm in [str(p) for p in m0.param_list]:
            pv.setdefault(nm, 0.0)
        if op["op"] == "set_params":
            op["_unrolled"] = ["%s" % Fraction(pv[str(p)]).limit_denominator(10 ** 6) for p in m0.param_list]
        accepted.append(acc)
        ver_after.append(len(specs) - 1)
        pv_after.append(dict(pv))
        params_after.append([str(p) for p in m0.param_list])
    fresh = Fresh(specs)
    pv_init = {nm: (_f(case["pv0"][nm]) if nm in case["pv0"] else 0.0) for nm in names0}

    compiled_seen = False
    after_compile = set()
    for op in hist:
        if op["op"] == "evaluate":
            compiled_seen = True
        elif compiled_seen:
            after_compile.add(op["kind"])
    for k in sorted(after_compile):
        tags.append("after_compile:" + k)
    tags.append("len=%d" % n)
    tags.append("evals_in_history=%d" % sum(1 for o in hist if o["op"] == "evaluate"))

    seen_sig = set()
    internal = {"recompile_agree": 0, "recompile_differ": 0, "flags_agree": 0, "flags_differ": 0}

    def op_kind(op):
        if op["op"] == "evaluate":
            return "evaluate:" + op["name"]
        return op["kind"] + (":" + op["fmt"] if op["op"] == "set_params" else "")

    def culprit_of(name, got, k):
        """the step whose effect the returned value fails to reflect, found with the direct oracle alone: the value
        equals what a fresh model of an EARLIER (definition, parameter values) returns -> the first effective step
        after that point; for exceptions: the last declaration (arity) / definition mutator of the prefix"""
        effective = lambda i: hist[i]["op"] == "set_params" or (hist[i]["op"] != "evaluate" and accepted[i])
        if got[0] == "ok":
            for j in range(k - 1, -1, -1):
                vj, pj = (ver_after[j - 1], pv_after[j - 1]) if j > 0 else (0, pv_init)
                if same(got, fresh.value(vj, pj, name, xvals, t)):
                    for i in range(j, k):
                        if effective(i):
                            return op_kind(hist[i])
        cands = [i for i in range(k) if effective(i) and hist[i]["op"] != "set_params"]
        if got[0] == "err" and got[1] == "TypeError":
            decl = [i for i in cands if hist[i]["kind"] in ("add_params", "add_states")]
            cands = decl or cands
        return op_kind(hist[cands[-1]]) if cands else op_kind(hist[k - 1])

    def check(name, got, ver, pvk, lean_step, k, where):
        want = fresh.value(ver, pvk, name, xvals, t)
        if got[0] == "err" and want[0] == "err":
            tags.append("both_raise:%s" % name)
        if not same(got, want):
            sig = "stale:%s:after:%s" % (name, culprit_of(name, got, k)) + (":raises:%s" % got[1] if got[0] == "err" else "")
            if sig not in seen_sig:
                seen_sig.add(sig)
                viol.append({"what": "%s differs from a freshly constructed model (%s)" % (name, where), "signature": sig,
                             "detail": "got %s ; fresh model gives %s" % (show(got), show(want))})
        # (b) what the Lean state machine implies
        if lean_step is None:
            return
        dv, sp, nvals = lean_step["def_ver"], lean_step["sp"], lean_step["nvals"]
        cur_states = len(got_x)
        if len(sp) != cur_states + 1 + nvals:
            pred = ("err", "TypeError", "arity")
        else:
            bind = dict(zip(sp, list(got_x) + [t] + got_pvals_all[:nvals]))
            pvb = {nm: bind.get(nm, 0.0) for nm in params_at_ver(dv)}
            pred = fresh.value(dv, pvb, name, xvals, t)
        if not same(got, pred):
            if got[0] == "err" and pred[0] == "ok" and not (fresh.free_symbols(dv, pv_init, name) <= set(sp)):
                tags.append("lean:stale_sp_free_symbol_error")
                return
            if got[0] == "err" and pred[0] == "err":
                return
            mism.append({"what": "canary:%s" % name,
                         "detail": "%s: pygom %s ; Lean model says closure compiled from definition version %d (current %d), sp=%s -> %s"
                                   % (where, show(got), dv, lean_step["cur_ver"], sp, show(pred))})

    def params_at_ver(dv):
        m, _ = fresh.model(dv, pv_init)
        return [str(p) for p in m.param_list]

    for k in range(1, n + 1):
        model = pymodel.build(spec, backend="lambda")
        model.parameters = [pv_init[nm] for nm in names0]
        ok = True
        for i, op in enumerate(hist[:k]):
            if op["op"] == "evaluate":
                x = [xvals[str(s)] for s in model.state_list]
                r_i = call(model, op["name"], x, t)
                last_eval = r_i
            elif op["op"] == "set_params":
                apply_set_params(model, op, {})
            else:
                try:
                    apply_mutator(model, op)
                    if accepted[i] is False:
                        ok = False
                except Exception:
                    if accepted[i]:
                        ok = False
        if not ok:
            mism.append({"what": "replay", "detail": "mutator accepted/rejected differently on replay at round %d" % k})
            break
        order = case["observe"][k]
        lh = lean_history(hist[:k], None) + [{"op": "evaluate", "name": e} for e in order]
        lr = drv.call({"op": "canary", "cfg": CFG, "model": spec, "history": lh})
        if "steps" not in lr:
            mism.append({"what": "canary:build", "detail": json.dumps(lr)[:300]})
            break
        steps = lr["steps"]
        # mutator accept/reject must agree
        for i, op in enumerate(hist[:k]):
            if steps[i]["kind"] == "mutate" and bool(steps[i]["ok"]) != bool(accepted[i]):
                mism.append({"what": "canary:accept/reject", "detail": "step %d %s: lean ok=%s python accepted=%s" % (i, op.get("kind"), steps[i]["ok"], accepted[i])})
        if mism:
            break
        last = hist[k - 1]
        culprit = op_kind(last)
        ver, pvk = ver_after[k - 1], pv_after[k - 1]
        got_x = [xvals[str(s)] for s in model.state_list]
        got_pvals_all = [pvk[nm] for nm in params_after[k - 1]]
        if last["op"] == "evaluate":
            # the value the in-history evaluation itself returned (it is the last op of this prefix)
            check(last["name"], last_eval, ver, pvk, steps[k - 1], k, "step %d: evaluate %s" % (k - 1, last["name"]))
        for j, e in enumerate(order):
            before = getattr(model, e + "Compiled", None)
            got = call(model, e, got_x, t)
            st = steps[k + j]
            check(e, got, ver, pvk, st, k, "after step %d (%s), observing %s as #%d" % (k - 1, culprit, e, j))
            # internals: recorded only
            recompiled = getattr(model, e + "Compiled", None) is not before
            internal["recompile_agree" if recompiled == bool(st["recompiled"]) else "recompile_differ"] += 1
            try:
                fl = {kk: bool(vv) for kk, vv in model._hasNewTransition._states.items()}
                internal["flags_agree" if fl == {kk: bool(vv) for kk, vv in st["flags"].items()} else "flags_differ"] += 1
            except Exception:
                pass
        if len(viol) >= 6 or len(mism) >= 6:
            break
    for kk, vv in internal.items():
        if vv:
            tags.append("internal:" + kk)
    nontrivial = bool(after_compile)
    return {"nontrivial": nontrivial, "mismatches": mism, "violations": viol, "tags": sorted(set(tags)),
            "sample": {"history": [dict((a, b) for a, b in o.items() if a in ("op", "kind", "name", "fmt")) for o in hist],
                       "versions": len(specs), "internal": internal}}
