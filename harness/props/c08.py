"""
C08 - evaluators never go stale after a model is modified.

A case = a random initial model + a random history of mutators (add_event with an Event / a bare Transition,
add_transition, add_birth_death, add_ode, derived parameters, new parameters / states that later processes
then use, parameter VALUES in every accepted format, a few rejected calls) interleaved with evaluations at
random points.  After EVERY step k the prefix ops[0:k] is replayed on a new instance of the real SimulateOde and
EVERY evaluator is called (in a random order that is part of the case) and compared with

 (a) DIRECT ORACLE (no Lean): a freshly constructed model with the same final definition and parameter values
     (built from the accumulated spec, nothing compiled before the last mutator).  A difference is a VIOLATION
     of the property; signature  stale:<evaluator>:after:<kind of the step at which it first went stale>.
 (b) the Lean state machine (driver op `canary`): which definition version / argument list `_sp` the called
     closure was compiled from.  A difference between the value that prediction implies and the value pygom
     returned is a model/code MISMATCH.

Internals (`<name>Compiled` identity, `_hasNewTransition._states`) are compared with the driver and recorded
in tags only.
"""
import copy
import json
import os
import random
from fractions import Fraction

import numpy as np

from .. import exprs as E
from .. import gen, leanio, pymodel

PROP = "C08"
LEAN = {"module": "Pygom.Props.C08", "extra_modules": ["Pygom.Lemmas.Canary", "Pygom.Props.C08Source"],
        "required": ["Pygom.C08.inv_init", "Pygom.C08.inv_step", "Pygom.C08.never_stale", "Pygom.C08.never_stale_source",
                     "Pygom.C08.never_stale_partial", "Pygom.C08.stale_after_add_ode", "Pygom.C08.stale_sp_after_add_param",
                     "Pygom.C08.stale_unwatched_counterexample", "Pygom.C08.source_good", "Pygom.C08.ver_sound",
                     "Pygom.C08Source.extracted_good", "Pygom.C08Source.extracted_registered_watched",
                     "Pygom.C08Source.extracted_all_registered", "Pygom.C08Source.extracted_watches_all",
                     "Pygom.C08Source.extracted_master_is_ode", "Pygom.C08Source.extracted_eq_source",
                     "Pygom.C08Source.never_stale_extracted",
                     "Pygom.C08.two_instance_noninterference", "Pygom.C08.never_stale_pair", "Pygom.C08.never_stale_pair_source",
                     "Pygom.C08.shared_store_stale_counterexample", "Pygom.C08.per_instance_store_fresh",
                     "Pygom.C08Source.extracted_store_eq_source", "Pygom.C08Source.extracted_store_per_instance",
                     "Pygom.C08Source.never_stale_pair_extracted",
                     "Pygom.C08.alias_method_eq_primary", "Pygom.C08.alias_direct_own_guard_eq_primary", "Pygom.C08.arun_lower",
                     "Pygom.C08.never_stale_aliases", "Pygom.C08.never_stale_aliases_source", "Pygom.C08.alias_wrong_guard_counterexample",
                     "Pygom.C08Source.extracted_aliases_complete", "Pygom.C08Source.extracted_aliases_modelled",
                     "Pygom.C08Source.extracted_alias_impl_ok", "Pygom.C08Source.never_stale_extracted_aliases"]}
BUDGET = {"quick": {"cases": 200, "cases2": 70, "maxlen": 12, "maxlen2": 9, "search": 450},
          "thorough": {"cases": 300, "cases2": 100, "maxlen": 40, "maxlen2": 24, "search": 600}}
RULE = ("random initial model (1-3 states, 1-3 params, 0-3 events, every API route incl. incremental ones) + random history "
        "(length 3..12 quick / 3..40 thorough) of mutators (add_event Event/bare Transition, add_transition, add_birth_death, "
        "add_ode, derived parameter, new parameter/state then used, parameter values as list/ndarray/tuples/permuted tuples/"
        "dict/partial dict/Symbol-keyed dict, rejected calls) interleaved with evaluations (30% of them through a SECONDARY ENTRY POINT: "
        "ode_T, jacobian_T, grad_T, diff_jacobian_T, grad_jacobianT, total_transition); all 12 evaluators (grad_grad included) observed "
        "after every step on a replayed instance, and each of the six aliases with probability 1/2 per round as a separate observation "
        "with its own place in the order (so an alias is as often the first as the second to touch its evaluator's compiled object "
        "after a mutation), compared with the freshly constructed model's value of the same quantity through the primary evaluator; the observation order is part of the case and so is, per observation, whether the "
        "freshly constructed REFERENCE model (kept alive, like every instance the case builds) evaluates the evaluator BEFORE the "
        "instance under test does (40% of the rounds never, 30% always, 30% per evaluator); every evaluator is also called at a SECOND "
        "point (integer state and time) in the argument form of the round (state as list / tuple / ndarray of float, of int, int32 "
        "array, lists of numpy float64 / int64 scalars; time as float / int / numpy float64 / int64) and must agree with the reference "
        "called with a list of floats, without writing to the container; every array returned during a round (in-history "
        "evaluations, both points) is kept and must be unchanged at the end of the round; 25% of the parameter assignments after "
        "the second restore the values before the last.  70 further cases (thorough 100) run TWO live instances with the same names "
        "(B built from the same definition, half of the time with the parameters declared in another order; own values), each with "
        "its own history (3..9 ops in total, thorough ..24), interleaved at random, all 12 evaluators of both observed in one "
        "random order after every step.  non-trivial = some mutator or parameter assignment occurs after a compile (of that instance)")
ASSUMPTIONS = ["'fresh model' = SimulateOde built from the accumulated definition with no evaluator compiled before the last "
               "mutator, parameters assigned once as a full list (a parameter never given a value counts as 0, as "
               "`_paramValue = [0]*n` does)",
               "lambda back-end (documented compileCode(backend='lambda')); float comparison rel 1e-9 / abs 1e-11 between two "
               "evaluations of the same sympy expression (reference accuracy ~1e-15)",
               "the Lean model is the tree WITH proposed_fixes/C08-*.diff applied (Canary.sourceCfg); "
               "VERIF_C08_CFG=as_found selects the model of the tree as found"]
TRUSTED = ["harness generator / replay logic", "Lean driver JSON codec", "pymodel.build (route replay)",
           "harness/translate_canary.py: that the extracted table (which mutators follow every definition-changing statement by "
           "trip(), HasNewTransition.states, add_func registrations, set_sp in the declaration setters, whether CompileCanary.trip() "
           "rebinds self._states and __init__ calls trip(); for each public alias which evaluator's compiled object it returns and "
           "whether through the evaluator's method or directly behind which flag) says what the Python text does",
           "not extracted (as modelled): CompileCanary.reset / __setattr__ write the flag of the one name into the dict the object holds"]


def pre(tier):
    """(T) translator tie: regenerate Gen/CanaryCfg.lean from the source text of the tree under test; the theorems of
    Pygom.Props.C08Source are then re-checked against it by the lake build of the obligations step"""
    from .. import bootstrap, translate_canary as TC
    r = TC.regenerate(bootstrap.REPO)
    broken = [{"obligation": "translator: %s" % x["what"], "detail": "BROKEN TIE - source outside the translated subset: " + x["detail"]}
              for x in r["refused"]]
    n = len(TC.MUTATORS) + 4 + len(TC.ALIASES) + 1
    return {"broken": broken, "obligations": n, "discharged": n - len(broken),
            "coverage": {"generated_files_changed": ["lean/Pygom/Gen/CanaryCfg.lean"] if r["changed"] else [],
                         "canary_translator": {"trips": r["trips"], "watched": r["watched"], "registered": r["registered"],
                                               "declSetsSp": r["declSetsSp"], "tripRebinds": r["tripRebinds"], "initTrips": r["initTrips"],
                                               "aliases": r["detail"].get("aliases"),
                                               "per_mutator": r["detail"], "refusals": r["refused"]}}}

EVALS = ["ode", "jacobian", "grad", "diff_jacobian", "grad_jacobian", "grad_grad", "eventRateVector", "vMat", "pureOdeVector",
         "transitionJacobian", "transitionMean", "transitionVar"]
GENERATOR = {"ode": "get_ode_eqn", "jacobian": "get_jacobian_eqn", "grad": "get_grad_eqn",
             "diff_jacobian": "get_diff_jacobian_eqn", "grad_jacobian": "get_grad_jacobian_eqn", "grad_grad": "get_grad_grad_eqn",
             "eventRateVector": "get_EventRateVector", "vMat": "get_StateChangeMatrix", "pureOdeVector": "get_pureOdeVector",
             "transitionJacobian": "get_TransitionJacobian", "transitionMean": "get_TransitionMean",
             "transitionVar": "get_TransitionVar"}
# SECONDARY ENTRY POINTS: public aliases of the evaluators (the time-first twins handed to the integrators by integrate2 and the
# loss classes, and total_transition = sum of the event rates).  An alias evaluates the SAME compiled object behind the SAME flag
# as its target (Canary.Alias; `alias_method_eq_primary`, `never_stale_aliases`): each alias is a separate observation with its
# own place in the evaluation order, compared with the freshly constructed model's value of the same quantity.
ALIASES = {"ode_T": "ode", "jacobian_T": "jacobian", "grad_T": "grad", "diff_jacobian_T": "diff_jacobian",
           "grad_jacobianT": "grad_jacobian", "total_transition": "eventRateVector"}
TIME_FIRST = ("ode_T", "jacobian_T", "grad_T", "diff_jacobian_T", "grad_jacobianT")
NEW_PARAMS = ["kap2", "eps", "phi", "omega", "nu", "xi"]
NEW_STATES = ["Q", "U", "G", "K"]
NEW_DERIVED = ["dd1", "dd2", "dd3"]
FORMATS = ["list", "ndarray", "tuples", "tuples_perm", "dict_full", "dict_subset", "dict_symbol"]
CFG = os.environ.get("VERIF_C08_CFG", "source")


# ---------------------------------------------------------------------------------------------------------------
# generation

def _val(r, den=(7, 10, 13)):
    return "%d/%d" % (r.randint(1, 20), r.choice(den))


def gen_history(r, meta, maxlen, nmin=3):
    states, params, derived = list(meta["states"]), list(meta["params"]), list(meta["derived"])
    kinds = [k for k in gen.RATE_KINDS]
    ops = []
    full_assignments = []
    n = r.randint(min(nmin, maxlen), maxlen)
    p_eval = r.choice([0.25, 0.4, 0.55])
    new_p, new_s, new_d = list(NEW_PARAMS), list(NEW_STATES), list(NEW_DERIVED)
    while len(ops) < n:
        coefs = params + derived
        if r.random() < p_eval:
            nm = r.choice(EVALS)
            if r.random() < 0.3:
                nm = r.choice(sorted(ALIASES))          # through a secondary entry point
            ops.append({"op": "evaluate", "name": nm})
            continue
        k = gen.wchoice(r, [("add_event", 3), ("add_event_bare", 2), ("add_transition", 2), ("add_birth_death", 2), ("add_ode", 4),
                            ("set_params", 5), ("add_params", 2), ("add_states", 1), ("add_derived", 1), ("rejected", 0.5)])
        if k == "add_event":
            p = gen.gen_processes(r, states, coefs, 1, kinds, max_trans=2)[0]
            ops.append({"op": "add_event", "kind": k, "rate": p["rate"],
                        "transitions": [gen.transition_json(t, None, r.random() < 0.4) for t in p["transitions"]]})
        elif k == "add_event_bare":
            p = gen.gen_processes(r, states, coefs, 1, kinds, max_trans=1)[0]
            ops.append({"op": "add_event", "kind": k, "transition": gen.transition_json(p["transitions"][0], p["rate"], r.random() < 0.4)})
        elif k == "add_transition":
            if len(states) < 2:
                continue
            p = gen.gen_processes(r, states, coefs, 1, kinds, max_trans=1, types=(("T", 1),))[0]
            ops.append({"op": "add_transition", "kind": k, "t": gen.transition_json(p["transitions"][0], p["rate"])})
        elif k == "add_birth_death":
            p = gen.gen_processes(r, states, coefs, 1, kinds, max_trans=1, types=(("B", 1), ("D", 1)))[0]
            ops.append({"op": "add_birth_death", "kind": k, "t": gen.transition_json(p["transitions"][0], p["rate"], r.random() < 0.4)})
        elif k == "add_ode":
            _, e = gen.gen_rate(r, states, coefs, [kk for kk in kinds if kk[0] in ("linear", "mass", "saturating")])
            if r.random() < 0.5:
                e = E.neg(e)
            ops.append({"op": "add_ode", "kind": k,
                        "t": {"type": "ODE", "origin": r.choice(states), "dest": None, "mag": E.num(1), "eq": e}})
        elif k == "set_params":
            # (the scalar / (name, value) forms for one-parameter models raise in the setter itself - C09's business)
            fmt = r.choice(FORMATS)
            names = list(params)
            if fmt == "dict_subset":
                names = r.sample(params, r.randint(1, len(params)))
            elif fmt == "tuples_perm":
                r.shuffle(names)
            values = {nm: _val(r) for nm in names}
            if len(full_assignments) >= 2 and r.random() < 0.25:
                # RESTORE: the values of the assignment before the last one again (a memo keyed on the values, or a
                # result that survives a round trip of the values, shows here)
                old = full_assignments[-2]
                values = {nm: old.get(nm, values[nm]) for nm in names}
            if fmt != "dict_subset":
                full_assignments.append(dict(values))
            ops.append({"op": "set_params", "kind": "set_params", "fmt": fmt, "names": names, "values": values})
        elif k == "add_params":
            if not new_p:
                continue
            nm = [new_p.pop(0)]
            if new_p and r.random() < 0.2:
                nm.append(new_p.pop(0))
            if r.random() < 0.15:
                nm.append(r.choice(params))        # re-declaring an existing name is a no-op in pygom
            ops.append({"op": "add_params", "kind": k, "names": nm})
            params += [x for x in nm if x not in params]
        elif k == "add_states":
            if not new_s:
                continue
            nm = [new_s.pop(0)]
            ops.append({"op": "add_states", "kind": k, "names": nm})
            states += nm
        elif k == "add_derived":
            if not new_d:
                continue
            nm = new_d.pop(0)
            base = E.var(r.choice(params))
            e = r.choice([E.mul(E.num(r.randint(1, 5), r.randint(1, 4)), base), E.add(base, E.num(r.randint(1, 3))),
                          E.mul(E.var(r.choice(coefs)), E.add(E.num(1), base))])
            ops.append({"op": "add_derived", "kind": k, "name": nm, "expr": e})
            derived.append(nm)
        else:
            rate = E.mul(E.var(params[0]), E.var(states[0]))
            which = r.choice(["B_to_add_transition", "T_to_add_birth_death", "D_to_add_ode"])
            if which == "B_to_add_transition":
                ops.append({"op": "add_transition", "kind": "rejected", "t": {"type": "B", "origin": None, "dest": states[0], "mag": E.num(1), "eq": rate}})
            elif which == "T_to_add_birth_death" and len(states) >= 2:
                ops.append({"op": "add_birth_death", "kind": "rejected", "t": {"type": "T", "origin": states[0], "dest": states[1], "mag": E.num(1), "eq": rate}})
            else:
                ops.append({"op": "add_ode", "kind": "rejected", "t": {"type": "D", "origin": states[0], "dest": None, "mag": E.num(1), "eq": rate}})
    return ops, states, params


FORMS = ["list_float", "tuple_float", "nd_float", "list_int", "tuple_int", "nd_int", "nd_int32", "list_npfloat", "list_npint"]
TFORMS = ["float", "int", "np_float", "np_int"]


def _point_and_probes(r, case, states, nrounds, pairs):
    """the first observation point (rationals, passed as a list of floats), the second one (integers, passed in the
    argument form of the round), the observation order of every round and, per observation, whether the freshly
    constructed REFERENCE model evaluates the evaluator BEFORE the instance under test does"""
    case["x"] = {s: "%d/%d" % (r.randint(1, 40), r.choice([1, 2, 3])) for s in states}
    case["t"] = "%d/12" % r.randint(0, 36)
    case["x2"] = {s: r.randint(1, 40) for s in states}
    case["t2"] = r.randint(0, 3)
    case["observe"], case["ref_first"], case["forms"] = [], [], []
    for _ in range(nrounds + 1):
        # every evaluator, and each alias with probability 1/2 (of each instance), in ONE random order: an alias is as often the
        # first as the second to touch its evaluator's compiled object after the last mutation
        obs = list(pairs)
        for a in sorted(ALIASES):
            for i in sorted(set(p[0] for p in pairs if not isinstance(p, str))) or [None]:
                if r.random() < 0.5:
                    obs.append(a if i is None else [i, a])
        order = r.sample(obs, len(obs))
        case["observe"].append(order)
        mode = gen.wchoice(r, [("after", 4), ("first", 3), ("mixed", 3)])
        case["ref_first"].append([mode == "first" or (mode == "mixed" and r.random() < 0.5) for _ in order])
        case["forms"].append([r.choice(FORMS), r.choice(TFORMS)])


def make_case(r, maxlen):
    spec, meta = gen.gen_model(r, max_states=3, max_params=3, max_events=3, allow_range=True)
    ops, states, params = gen_history(r, meta, maxlen)
    case = {"spec": spec,
            "meta": {"states": meta["states"], "params": meta["params"], "derived": meta["derived"], "routes": meta["routes"]},
            "history": ops,
            "pv0": {p: _val(r) for p in meta["params"]}}
    _point_and_probes(r, case, states, len(ops), list(EVALS))
    return case


def make_case2(r, maxlen):
    """TWO live instances with the same state / parameter names: B is built from the same definition (half of the time
    with the parameters DECLARED in another order), each gets its own random history and its own parameter values, the
    two histories are interleaved at random (every op carries "inst")"""
    spec, meta = gen.gen_model(r, max_states=3, max_params=3, max_events=3, allow_range=True)
    spec_b = copy.deepcopy(spec)
    meta_b = copy.deepcopy(meta)
    if len(meta["params"]) >= 2 and r.random() < 0.5:
        pb = list(meta["params"])
        while pb == meta["params"]:
            r.shuffle(pb)
        spec_b["param"] = {"list": pb}
        meta_b["params"] = pb
    la = r.randint(2, max(2, maxlen // 2 + 1))
    ops_a, st_a, _ = gen_history(r, meta, la, nmin=2)
    ops_b, st_b, _ = gen_history(r, meta_b, max(2, maxlen - len(ops_a)), nmin=1)
    for o in ops_a:
        o["inst"] = 0
    for o in ops_b:
        o["inst"] = 1
    ops, ia, ib = [], 0, 0
    while ia < len(ops_a) or ib < len(ops_b):
        if ib >= len(ops_b) or (ia < len(ops_a) and r.random() < 0.55):
            ops.append(ops_a[ia]); ia += 1
        else:
            ops.append(ops_b[ib]); ib += 1
    case = {"spec": spec, "spec_b": spec_b,
            "meta": {"states": meta["states"], "params": meta["params"], "derived": meta["derived"], "routes": meta["routes"],
                     "params_b": meta_b["params"]},
            "history": ops,
            "pv0": {p: _val(r) for p in meta["params"]},
            "pv0_b": {p: _val(r) for p in meta["params"]}}
    states = list(st_a) + [s for s in st_b if s not in st_a]
    # all twelve evaluators of both instances, in ONE random order
    pairs = [[i, e] for i in (0, 1) for e in EVALS]
    _point_and_probes(r, case, states, len(ops), pairs)
    return case


def _cases(rng, n1, n2, maxlen, maxlen2):
    out = [make_case(random.Random(rng.getrandbits(64)), maxlen) for _ in range(n1)]
    out += [make_case2(random.Random(rng.getrandbits(64)), maxlen2) for _ in range(n2)]
    return out


def make_cases(rng, tier, budget):
    return _cases(rng, budget["cases"], budget["cases2"], budget["maxlen"], budget["maxlen2"])


def search_cases(rng, tier, budget):
    return _cases(rng, budget["search"], budget["search"] // 3, budget["maxlen"], budget["maxlen2"])


# ---------------------------------------------------------------------------------------------------------------
# running the real code

def _f(s):
    return float(Fraction(s))


def apply_mutator(model, op):
    k = op["op"]
    if k == "add_derived":
        model.derived_param_list = [(op["name"], E.to_str(op["expr"]))]      # public setter -> _addDerivedParam
    else:
        pymodel.apply_then(model, op)


def apply_set_params(model, op, pv):
    import sympy
    fmt, names = op["fmt"], op["names"]
    v = {n: _f(op["values"][n]) for n in names}
    if fmt == "list":
        model.parameters = [v[n] for n in names]
    elif fmt == "ndarray":
        model.parameters = np.array([v[n] for n in names], float)
    elif fmt in ("tuples", "tuples_perm"):
        model.parameters = [(n, v[n]) for n in names]
    elif fmt in ("dict_full", "dict_subset"):
        model.parameters = {n: v[n] for n in names}
    elif fmt == "dict_symbol":
        model.parameters = {sympy.Symbol(n): v[n] for n in names}
    elif fmt == "scalar":
        model.parameters = v[names[0]]
    elif fmt == "single_tuple":
        model.parameters = (names[0], v[names[0]])
    else:
        raise ValueError(fmt)
    pv.update(v)


def call(model, name, x, t, keep=None):
    """('ok', float copy of the value) or ('err', ...).  `keep`: list that receives (the object returned, a copy of it)"""
    try:
        raw = getattr(model, name)(t, x) if name in TIME_FIRST else getattr(model, name)(x, t)
        val = np.array(raw, dtype=float, copy=True)
        if keep is not None and isinstance(raw, np.ndarray):
            keep.append((raw, raw.copy()))
        return ("ok", val)
    except Exception as exc:
        return ("err", type(exc).__name__, str(exc)[:200])


def same(a, b):
    if a[0] != b[0]:
        return False
    if a[0] == "err":
        return True          # both raise: nothing to compare (error text may name internals)
    u, w = a[1], b[1]
    if u.shape != w.shape:
        return False
    if u.size == 0:
        return True
    with np.errstate(all="ignore"):
        d = np.abs(u - w)
        ok = d <= 1e-11 + 1e-9 * np.maximum(np.abs(u), np.abs(w))
    return bool(np.all(ok | (np.isnan(u) & np.isnan(w)) | (u == w)))


def show(a):
    if a[0] == "err":
        return "raises %s: %s" % (a[1], a[2])
    return "%s shape=%s" % (np.array2string(a[1].ravel()[:12], precision=8), a[1].shape)


def make_form(form, vals):
    """the state argument in the form of the round (values are integers)"""
    if form == "list_float":
        return [float(v) for v in vals]
    if form == "tuple_float":
        return tuple(float(v) for v in vals)
    if form == "nd_float":
        return np.array(vals, dtype=float)
    if form == "list_int":
        return [int(v) for v in vals]
    if form == "tuple_int":
        return tuple(int(v) for v in vals)
    if form == "nd_int":
        return np.array(vals, dtype=np.int64)
    if form == "nd_int32":
        return np.array(vals, dtype=np.int32)
    if form == "list_npfloat":
        return [np.float64(v) for v in vals]
    if form == "list_npint":
        return [np.int64(v) for v in vals]
    raise ValueError(form)


def make_tform(tform, t2):
    return {"float": float(t2), "int": int(t2), "np_float": np.float64(t2), "np_int": np.int64(t2)}[tform]


def frozen(arg):
    """a comparable snapshot of an argument container"""
    if isinstance(arg, np.ndarray):
        return ("nd", str(arg.dtype), arg.tolist())
    return (type(arg).__name__, [repr(v) for v in arg])


def alias_value(alias, primary):
    """what the alias returns, from what the primary evaluator of the reference model returned: the `_T` twins return the same
    object, `total_transition` is Python's `sum` over the event-rate vector"""
    if primary[0] != "ok" or alias != "total_transition":
        return primary
    v = primary[1]
    return ("ok", np.array(sum(v) if v.ndim >= 1 else v, dtype=float))


class Fresh:
    """freshly constructed models (direct oracle), one per (definition version, parameter values); they stay alive for
    the whole case, like every other instance the case builds"""

    def __init__(self, specs):
        self.specs = specs
        self.cache = {}

    def model(self, ver, pv):
        key = (ver, tuple(sorted(pv.items())))
        if key not in self.cache:
            m = pymodel.build(self.specs[ver], backend="lambda")
            names = [str(p) for p in m.param_list]
            m.parameters = [float(pv.get(n, 0.0)) for n in names]
            self.cache[key] = (m, {})
        return self.cache[key]

    def value(self, ver, pv, name, xvals, t, pt=1, force=False):
        """force: really CALL the reference instance now (another live instance evaluating the same evaluator at this
        moment of the history is part of the case), cached otherwise"""
        if name in ALIASES:
            # the same quantity on the reference model, through the PRIMARY evaluator
            return alias_value(name, self.value(ver, pv, ALIASES[name], xvals, t, pt, force))
        m, vals = self.model(ver, pv)
        if force or (name, pt) not in vals:
            x = [float(xvals[str(s)]) for s in m.state_list]
            vals[(name, pt)] = call(m, name, x, float(t))
        return vals[(name, pt)]

    def value_form(self, ver, pv, name, xvals, t, form, tform):
        """the reference called with the state / time in the given argument form (cached)"""
        if name in ALIASES:
            return alias_value(name, self.value_form(ver, pv, ALIASES[name], xvals, t, form, tform))
        m, vals = self.model(ver, pv)
        key = (name, 2, form, tform)
        if key not in vals:
            vals[key] = call(m, name, make_form(form, [xvals[str(s)] for s in m.state_list]), make_tform(tform, t))
        return vals[key]

    def alias_itself(self, ver, pv, name, xvals, t):
        """the alias METHOD called on the freshly constructed model (cached): does it work at all on a fresh model?"""
        m, vals = self.model(ver, pv)
        if ("alias", name) not in vals:
            vals[("alias", name)] = call(m, name, [float(xvals[str(s)]) for s in m.state_list], float(t))
        return vals[("alias", name)]

    def free_symbols(self, ver, pv, name):
        m, _ = self.model(ver, pv)
        obj = getattr(m, GENERATOR[ALIASES.get(name, name)])()
        return set(str(s) for s in obj.free_symbols)


def lean_history(ops):
    """history for the driver; set_params carries the unrolled `_paramValue` (harness's view) so that the model
    knows its length"""
    out = []
    for op in ops:
        if op["op"] == "set_params":
            out.append({"op": "set_params", "values": op["_unrolled"], "inst": op.get("inst", 0)})
        else:
            o = {k: v for k, v in op.items() if k not in ("kind",)}
            o.setdefault("inst", 0)
            out.append(o)
    return out


def run_case(case):
    hist = copy.deepcopy(case["history"])
    specs0 = [case["spec"]] + ([case["spec_b"]] if case.get("spec_b") else [])
    NI = len(specs0)
    two = NI == 2
    tags, mism, viol = [], [], []
    xvals = {k: _f(v) for k, v in case["x"].items()}
    t = _f(case["t"])
    x2vals = case.get("x2")
    t2 = case.get("t2", 0)
    n = len(hist)
    drv = leanio.driver()
    alive = []                       # every instance the case builds stays alive until the case ends
    inst_of = lambda op: int(op.get("inst", 0))
    tags.append("instances=%d" % NI)
    if two:
        tags.append("two:decl_order_differs" if case["meta"].get("params_b") != case["meta"]["params"] else "two:same_declaration")

    # ---- pass 0: which mutators does the real code accept; definition versions; parameter values after each step
    m0 = [pymodel.build(sp, backend="lambda") for sp in specs0]
    alive += m0
    absent = [e for e in EVALS + sorted(ALIASES) if not hasattr(m0[0], e)]
    if absent:
        # the modelled source registers these names with add_func (Canary.Ev): their absence is a broken correspondence
        return {"nontrivial": False, "tags": ["evaluator-missing:" + ",".join(absent)], "violations": [],
                "mismatches": [{"what": "evaluator missing: " + ",".join(absent),
                                "detail": "the model has no attribute %s; Canary.Ev / simulate.HasNewTransition.states list it" % absent}]}
    pv0s = [case["pv0"]] + ([case["pv0_b"]] if two else [])
    pv = [{p: _f(v) for p, v in pv0s[i].items()} for i in range(NI)]
    names0 = [[str(p) for p in m0[i].param_list] for i in range(NI)]
    for i in range(NI):
        for nm in names0[i]:
            pv[i].setdefault(nm, 0.0)
    specs = [[copy.deepcopy(specs0[i])] for i in range(NI)]
    ver_after, pv_after, accepted, params_after = [], [], [], []
    for op in hist:
        i = inst_of(op)
        acc = None
        if op["op"] == "evaluate":
            pass
        elif op["op"] == "set_params":
            apply_set_params(m0[i], op, pv[i])
            tags.append("fmt:" + op["fmt"])
        else:
            try:
                apply_mutator(m0[i], op)
                acc = True
                s2 = copy.deepcopy(specs[i][-1])
                s2["then"] = list(s2.get("then", [])) + [{k: v for k, v in op.items() if k not in ("kind", "inst")}]
                specs[i].append(s2)
            except Exception as exc:
                acc = False
                tags.append("mutator_rejected:" + pymodel.err_enum(exc))
            tags.append("mut:" + op["kind"])
        for nm in [str(p) for p in m0[i].param_list]:
            pv[i].setdefault(nm, 0.0)
        if op["op"] == "set_params":
            op["_unrolled"] = ["%s" % Fraction(pv[i][str(p)]).limit_denominator(10 ** 6) for p in m0[i].param_list]
        accepted.append(acc)
        ver_after.append([len(specs[j]) - 1 for j in range(NI)])
        pv_after.append([dict(pv[j]) for j in range(NI)])
        params_after.append([[str(p) for p in m0[j].param_list] for j in range(NI)])
    fresh = [Fresh(specs[i]) for i in range(NI)]
    pv_init = [{nm: (_f(pv0s[i][nm]) if nm in pv0s[i] else 0.0) for nm in names0[i]} for i in range(NI)]

    compiled_seen = [False] * NI
    after_compile = set()
    other_between = False            # (two instances) the OTHER instance evaluates after this one was compiled and mutated
    mutated_after_compile = [False] * NI
    for op in hist:
        i = inst_of(op)
        if op["op"] == "evaluate":
            compiled_seen[i] = True
            if two and mutated_after_compile[1 - i]:
                other_between = True
        elif compiled_seen[i]:
            after_compile.add(op["kind"])
            if op["op"] != "set_params":
                mutated_after_compile[i] = True
    for k in sorted(after_compile):
        tags.append("after_compile:" + k)
    if other_between:
        tags.append("two:other_instance_evaluates_between_mutation_and_reevaluation")
    tags.append("len=%d" % n)
    tags.append("evals_in_history=%d" % sum(1 for o in hist if o["op"] == "evaluate"))
    if any(o["op"] == "evaluate" and o["name"] in ALIASES for o in hist):
        tags.append("alias_evaluated_in_history")

    seen_sig = set()
    internal = {"recompile_agree": 0, "recompile_differ": 0, "flags_agree": 0, "flags_differ": 0}
    counts = {"ref_first": 0, "ref_after": 0, "second_point": 0, "kept": 0, "alias": 0}

    def op_kind(op):
        if op["op"] == "evaluate":
            return "evaluate:" + op["name"]
        return op["kind"] + (":" + op["fmt"] if op["op"] == "set_params" else "")

    def state_before(i, j):
        """(definition version, parameter values) of instance i before step j"""
        return (ver_after[j - 1][i], pv_after[j - 1][i]) if j > 0 else (0, pv_init[i])

    def culprit_of(i, name, got, k):
        """the step whose effect the returned value fails to reflect, found with the direct oracle alone: the value
        equals what a fresh model of an EARLIER (definition, parameter values) returns -> the first effective step
        after that point; for exceptions: the last declaration (arity) / definition mutator of the prefix"""
        effective = lambda q: inst_of(hist[q]) == i and (hist[q]["op"] == "set_params" or (hist[q]["op"] != "evaluate" and accepted[q]))
        if got[0] == "ok":
            for j in range(k - 1, -1, -1):
                if not effective(j):
                    continue
                vj, pj = state_before(i, j)
                if same(got, fresh[i].value(vj, pj, name, xvals, t)):
                    return op_kind(hist[j])
        cands = [q for q in range(k) if effective(q) and hist[q]["op"] != "set_params"]
        if got[0] == "err" and got[1] == "TypeError":
            decl = [q for q in cands if hist[q]["kind"] in ("add_params", "add_states")]
            cands = decl or cands
        if cands:
            return op_kind(hist[cands[-1]])
        own = [q for q in range(k) if inst_of(hist[q]) == i]
        return op_kind(hist[own[-1]]) if own else "nothing"

    def add_violation(sig, what, detail):
        if sig not in seen_sig:
            seen_sig.add(sig)
            viol.append({"what": what, "signature": sig, "detail": detail})

    def params_at_ver(i, dv):
        m, _ = fresh[i].model(dv, pv_init[i])
        return [str(p) for p in m.param_list]

    def check(i, name, got, want, k, lean_step, where, suffix, got_x, got_pvals_all):
        """(a) direct oracle: `want` comes from a freshly constructed model; (b) the Lean state machine"""
        stale = False
        if name in ALIASES and got[0] == "err" and want[0] == "ok" and k >= 1:
            # an alias that raises although its evaluator works: does it raise on a FRESHLY CONSTRUCTED model as well?  Then the
            # entry point is unusable in this tree whatever the history (tagged, not judged: C08 compares with a fresh model,
            # and a fresh model raises the same)
            fa = fresh[i].alias_itself(ver_after[k - 1][i], pv_after[k - 1][i], name, xvals, t)
            if fa[0] == "err" and fa[1] == got[1]:
                tags.append("alias-unusable-on-a-fresh-model:%s:%s" % (name, got[1]))
                return None
        if got[0] == "err" and want[0] == "err":
            tags.append("both_raise:%s" % name)
        if not same(got, want):
            stale = True
            sig = "stale:%s:after:%s" % (name, culprit_of(i, name, got, k)) + (":raises:%s" % got[1] if got[0] == "err" else "") + suffix
            add_violation(sig, "%s differs from a freshly constructed model (%s)" % (name, where),
                          "got %s ; fresh model gives %s" % (show(got), show(want)))
        if lean_step is None:
            return stale
        dv, sp, nvals = lean_step["def_ver"], lean_step["sp"], lean_step["nvals"]
        if len(sp) != len(got_x) + 1 + nvals:
            pred = ("err", "TypeError", "arity")
        else:
            bind = dict(zip(sp, list(got_x) + [t] + got_pvals_all[:nvals]))
            pvb = {nm: bind.get(nm, 0.0) for nm in params_at_ver(i, dv)}
            pred = fresh[i].value(dv, pvb, name, xvals, t)
        if not same(got, pred):
            if got[0] == "err" and pred[0] == "ok" and not (fresh[i].free_symbols(dv, pv_init[i], name) <= set(sp)):
                tags.append("lean:stale_sp_free_symbol_error")
                return stale
            if got[0] == "err" and pred[0] == "err":
                return stale
            mism.append({"what": "canary:%s" % name,
                         "detail": "%s: pygom %s ; Lean model says closure compiled from definition version %d (current %d), sp=%s -> %s"
                                   % (where, show(got), dv, lean_step["cur_ver"], sp, show(pred))})
        return stale

    for k in range(1, n + 1):
        models = [pymodel.build(specs0[i], backend="lambda") for i in range(NI)]
        alive += models
        for i in range(NI):
            models[i].parameters = [pv_init[i][nm] for nm in names0[i]]
        ok = True
        kept = []                    # (label, object returned, copy taken when it was returned)
        last_eval = None
        for q, op in enumerate(hist[:k]):
            i = inst_of(op)
            model = models[i]
            if op["op"] == "evaluate":
                x = [xvals[str(s)] for s in model.state_list]
                kp = []
                last_eval = call(model, op["name"], x, t, kp)
                kept += [("in-history step %d %s" % (q, op["name"]), op["name"]) + z for z in kp]
            elif op["op"] == "set_params":
                apply_set_params(model, op, {})
            else:
                try:
                    apply_mutator(model, op)
                    if accepted[q] is False:
                        ok = False
                except Exception:
                    if accepted[q]:
                        ok = False
        if not ok:
            mism.append({"what": "replay", "detail": "mutator accepted/rejected differently on replay at round %d" % k})
            break
        last = hist[k - 1]
        order = [(0, e) if isinstance(e, str) else (int(e[0]), e[1]) for e in case["observe"][k]]
        reff = list((case.get("ref_first") or [[]] * (n + 1))[k]) if case.get("ref_first") else []
        reff += [False] * (len(order) - len(reff))
        form, tform = (case.get("forms") or [["list_float", "float"]] * (n + 1))[k]
        if x2vals is not None:
            tags.append("form:" + form)
            tags.append("tform:" + tform)
        if last["op"] != "evaluate" and any(e in ALIASES and (i, ALIASES[e]) in order[j + 1:] for j, (i, e) in enumerate(order)):
            tags.append("probe:alias_first_to_touch_its_evaluator_after_a_mutation")
        lh = lean_history(hist[:k]) + [{"op": "evaluate", "name": e, "inst": i} for i, e in order]
        if two:
            lr = drv.call({"op": "canary2", "cfg": CFG, "model": specs0[0], "model_b": specs0[1], "history": lh})
        else:
            lr = drv.call({"op": "canary", "cfg": CFG, "model": specs0[0], "history": lh})
        if "steps" not in lr:
            mism.append({"what": "canary:build", "detail": json.dumps(lr)[:300]})
            break
        steps = lr["steps"]
        # mutator accept/reject must agree
        for q, op in enumerate(hist[:k]):
            if steps[q]["kind"] == "mutate" and bool(steps[q]["ok"]) != bool(accepted[q]):
                mism.append({"what": "canary:accept/reject", "detail": "step %d %s: lean ok=%s python accepted=%s" % (q, op.get("kind"), steps[q]["ok"], accepted[q])})
        if mism:
            break
        last = hist[k - 1]
        culprit = op_kind(last)
        got_xs = [[xvals[str(s)] for s in models[i].state_list] for i in range(NI)]
        pvals_all = [[pv_after[k - 1][i][nm] for nm in params_after[k - 1][i]] for i in range(NI)]
        if last["op"] == "evaluate":
            # the value the in-history evaluation itself returned (it is the last op of this prefix)
            i = inst_of(last)
            want = fresh[i].value(ver_after[k - 1][i], pv_after[k - 1][i], last["name"], xvals, t)
            check(i, last["name"], last_eval, want, k, steps[k - 1], "step %d: evaluate %s" % (k - 1, last["name"]),
                  ":2inst" if two else "", got_xs[i], pvals_all[i])
        for j, (i, e) in enumerate(order):
            model = models[i]
            ver, pvk = ver_after[k - 1][i], pv_after[k - 1][i]
            want = None
            if reff[j]:
                # ANOTHER live instance (the reference) evaluates the same evaluator first
                want = fresh[i].value(ver, pvk, e, xvals, t, force=True)
                counts["ref_first"] += 1
            else:
                counts["ref_after"] += 1
            cname = ALIASES.get(e, e) + "Compiled"
            before = getattr(model, cname, None)
            kp = []
            got = call(model, e, got_xs[i], t, kp)
            if e in ALIASES:
                counts["alias"] += 1
            kept += [("round %d observation #%d %s%s" % (k, j, e, " of instance %d" % i if two else ""), e) + z for z in kp]
            if want is None:
                want = fresh[i].value(ver, pvk, e, xvals, t)
            st = steps[k + j]
            where = "after step %d (%s), observing %s%s as #%d%s" % (k - 1, culprit, e, " of instance %d" % i if two else "", j,
                                                                     ", reference evaluated first" if reff[j] else "")
            stale = check(i, e, got, want, k, st, where, (":2inst" if two else "") + (":ref-first" if reff[j] else ""), got_xs[i], pvals_all[i])
            # internals: recorded only
            recompiled = getattr(model, cname, None) is not before
            internal["recompile_agree" if recompiled == bool(st["recompiled"]) else "recompile_differ"] += 1
            try:
                fl = {kk: bool(vv) for kk, vv in model._hasNewTransition._states.items()}
                internal["flags_agree" if fl == {kk: bool(vv) for kk, vv in st["flags"].items()} else "flags_differ"] += 1
            except Exception:
                pass
            # the same evaluator at a SECOND point, state and time passed in the argument form of the round.  The property
            # compares with a freshly constructed model: the reference is called with an equal container of the SAME form.
            # (A value that depends on the form alone - the reference called with a list of floats returns something else -
            # and a container written to by the call are side observations: TAGS, not violations of C08.)
            if x2vals is not None and stale is False:
                counts["second_point"] += 1
                vals2 = [x2vals[str(s)] for s in model.state_list]
                arg, targ = make_form(form, vals2), make_tform(tform, t2)
                snap = frozen(arg)
                kp = []
                got2 = call(model, e, arg, targ, kp)
                kept += [("round %d observation #%d %s at the second point" % (k, j, e), e) + z for z in kp]
                if frozen(arg) != snap:
                    tags.append("side-effect:argument-modified:%s" % form)
                want2 = fresh[i].value_form(ver, pvk, e, x2vals, t2, form, tform)
                if not same(got2, want2):
                    add_violation("second-point:%s:state=%s:t=%s%s" % (e, form, tform, ":raises:%s" % got2[1] if got2[0] == "err" else ""),
                                  "%s at a second point (state as %s, time as %s) differs from a freshly constructed model given the same arguments" % (e, form, tform),
                                  "%s: x2=%s t2=%s got %s ; fresh model gives %s" % (where, vals2, t2, show(got2), show(want2)))
                elif not same(want2, fresh[i].value(ver, pvk, e, x2vals, t2, pt=2)):
                    tags.append("form-dependent-value:%s" % form + (":raises:%s" % want2[1] if want2[0] == "err" else ""))
        # every array returned during this round must still hold the value it was returned with
        for label, e, raw, snap in kept:
            counts["kept"] += 1
            if not (raw.shape == snap.shape and np.array_equal(raw, snap, equal_nan=True)):
                add_violation("result-overwritten:%s" % e, "an array returned by %s was changed by later calls" % e,
                              "%s: returned %s, at the end of the round it holds %s" % (label, np.array2string(snap.ravel()[:12], precision=8),
                                                                                     np.array2string(raw.ravel()[:12], precision=8)))
        if len(viol) >= 6 or len(mism) >= 6:
            break
    for kk, vv in internal.items():
        if vv:
            tags.append("internal:" + kk)
    for kk in ("ref_first", "second_point", "kept", "alias"):
        if counts[kk]:
            tags.append("probe:" + kk)
    nontrivial = bool(after_compile) and (not two or any(compiled_seen))
    return {"nontrivial": nontrivial, "mismatches": mism, "violations": viol, "tags": sorted(set(tags)),
            "sample": {"history": [dict((a, b) for a, b in o.items() if a in ("op", "kind", "name", "fmt", "inst")) for o in hist],
                       "versions": [len(sp) for sp in specs], "internal": internal, "probes": counts}}
