"""
C05 - exact stochastic simulation samples the continuous-time Markov chain's law.

Proof: Pygom/Props/C05.lean - independent exponential clocks: waiting time ~ Exp(total rate) (min_of_indep_exp),
clock i first with probability r_i/sum r (first_clock), jointly (step_law); E/r ~ Exp(rate r) (exp_scale); the step of
the first-reaction method as modelled in Pygom/Stoch.lean picks the FIRST MINIMUM of its draws, one draw per positive-rate
event, and advances time by it (model_step_is_first_min, model_step_time); hence the (event, dt) pair of the modelled
step has the CTMC's one-step law (model_step_law); exact SIR final-size law from the embedded jump chain
(finalSizePMF, finalSizePMF_sums_to_one), served by the driver op `finalsize`.

Tie of the model to the code (-> mismatches):
 (a) identity cases: after np.random.seed(s), rexp(1, r) == RandomState(s).standard_exponential() * (1.0/r)
     == RandomState(s).exponential(scale=1/r) bit for bit (scalar, vector and consecutive calls): rate parameterisation
     and use of the global generator;
 (b) replay cases: real solve_stochast(exact=True) runs with every numpy draw and evaluator call recorded; every loop
     iteration is replayed through the Lean step model (`step_exact`, `first_min`) from the observed pre-state, and the
     recorded clocks are aligned with the path WITHOUT using the evaluator calls: one clock per positive-rate event in
     event order, scale 1/rate_i with the rates at the CURRENT (x_k, t_k), fired event = owner of the first minimum,
     time advanced by that minimum.

Direct oracle (-> violations; the property's own statement, no model of the code involved):
 (c) end-to-end statistics of many real runs against closed-form laws: independent individual-level chains (multinomial
     occupancy at time t, p = e_start . expm(Q (t-t0)), 40-digit mpmath) and SIR final size (exact rational pmf), and
     the law of rexp itself; every cell judged by an EXACT binomial acceptance region, Bonferroni-split so that the
     total false-alarm probability of a run of the check is below 1e-8 (see ALPHA_TOTAL).

Histories, forms and the parallel path (second seeded round).  The law of a path depends on the parameter values, initial values
and horizon IN FORCE at the call and on nothing else (the step theorems take the rates at the current state as their only input):
 * half of the statistical cases are SESSIONS: the instance is first used otherwise (simulated with OTHER parameter values, other
   initial values, by tau-leap with a pre_tau / epsilon that stay set, on another grid, with a dict of distributions that is then
   replaced by plain numbers, integrated deterministically, deep-copied; a sibling instance with the same names and other values
   is simulated before and BETWEEN the chunks of the judged batch), the target values are assigned in one of the accepted forms,
   and the batch simulated afterwards is judged against the exact law for the values in force; initial state / time are handed
   over as list / tuple / ndarray, int / float / int32, the horizon as number / numpy scalar / one-element list or tuple / grid;
 * every chunk of returned paths is kept and compared with a digest taken when it was returned (a result overwritten later is a
   violation of its own); the caller's initial-state object written to is a tag (`input-modified:x0`);
 * (b) replay cases are sessions of stoch_common.run_session: the clocks of every exact call are aligned with the rates a FRESH
   instance with the parameters in force gives at the visited states;
 * a few statistical cases go through solve_stochast(..., parallel=True) (dask's synchronous scheduler: pygom's parallel code path
   with seed=True, in-process); the unchanged tree draws every variate from a NEW entropy-seeded RandomState, which is what is
   judged: the same laws, no two replicates with identical event times; a missing dask is tagged, not judged;
 * (a) identities for the seed argument of rexp (the form the parallel path uses): seed=True gives fresh variates that leave the
   global generator alone, an integer seed / a RandomState / False are what the docstring says; the law of rexp(1, r, seed=True).

Boundaries and secondary paths (third seeded round).  The law is a statement about the state at EVERY requested time:
 * the time argument of a statistical case comes from a PLAN that is cycled over the cases of a run (CHAIN_TIME_PLAN, SIR_TIME_PLAN):
   number / numpy float64 / float32 / int / one-element list or tuple (raw path), and GRIDS that start at t0, after t0 (the tail of a
   linspace, three points), consist of one point (ndarray), are non-uniform, repeat a time, repeat t0, contain a point before t0, are
   integer-valued; as ndarray (float64, float32, int) / list / tuple.  Chains: multinomial occupancy at every distinct requested time
   >= t0 (at t0 itself the law is the point mass at the initial state), equal rows at equal times, source compartments never grow and
   sinks never shrink along a path.  SIR: final size at the last requested time, at every earlier time the probability of still being
   in the initial state (exp(-total rate (t - t0)): every event changes the state for good), the state space, S never grows, R never
   shrinks, the initial state at t0.  A requested time BEFORE t0 is outside the property (tag, row not judged);
 * raw output: the first step of every run has the one-step law at the initial state up to the horizon (no event by the horizon
   with probability exp(-R d), first event e by then with probability r_e / R (1 - exp(-R d)), the waiting time in the part below d of
   each octile of Exp(R); a step recorded beyond the horizon counts as no event) - the property's first sentence;
 * 30 % of the chain families declare, BEFORE the events that fire, an event whose rate parameter is 0: its occupancy law is unchanged
   and it must never be booked in the returned counts; the clock replay tags steps whose fired event comes after a zero-rate one;
 * horizons of 5 and 12 expected jumps per individual: most paths are absorbed before the horizon (the last event must be kept);
 * the judged batch is made of calls of 500 / 250 / 7 / 1 iterations (CHUNKS);
 * BOUNDARY cases (few runs, deterministic): horizon / grid ending AT t0 (number, one-element list, one-point ndarray, [t0, t0], a grid
   from before t0 to t0): every reported state is the initial state; a horizon before t0 is tagged and not judged.
Unit of time (fourth seeded round).  Multiplying every rate by c and dividing every time by c leaves every probability above unchanged:
 * 6 of the 32 chain cases and 3 of the 16 SIR cases of a quick run (every 5th; they REPLACE unit-time cases, the number of statistical
   cases and the levels are what they were) and 40 % of the chain / SIR clock-replay cases are stated in another unit, c in {2^-30, 2^10,
   2^-40, 2^-20, 2^30} taken in turn (TIME_UNITS; powers of two: the scaled case is exactly the unit case in another unit).  They are
   judged like every other case, by the exact law of the numbers they contain (signature suffix `:time-unit:2^k`); histories, forms,
   grids and chunking apply to them as to the others.  An absolute threshold on a rate (`np.allclose(rates, 0)`: a path frozen when every
   event rate is <= 1e-8, seeded C05-d1) or on a time shows in these cases; in the replay it is a path that stops although the modelled
   step goes on (`step:stop-reason`, `draws:expo-count`);
 * a scaled chain / SIR replay case is also run as its TWIN in unit time under the same numpy seed (`unit_twin`): the same states, event
   times equal to the scaled ones times c EXACTLY (powers of two).  Path-by-path equivariance is what the pure step model gives
   (`stepProbs_time_unit` for the choice, `exp_scale_mul` for the clocks), not what the property - a law - states: a difference is a
   broken correspondence `replay:time-unit-twin-differs`, never a violation.
All cells of a case share the case's level (a case with more requested times has more, narrower cells): the total false-alarm
probability of a run is unchanged (ALPHA_TOTAL over chain + SIR + identity + parallel + boundary cases).
"""
import copy
import math
import random
import time
from fractions import Fraction

import numpy as np

from .. import exprs as E
from .. import leanio, pymodel
from . import stoch_common as SC

PROP = "C05"
LEAN = {"module": "Pygom.Props.C05",
        "required": ["Pygom.C05.min_of_indep_exp", "Pygom.C05.first_clock", "Pygom.C05.step_law", "Pygom.C05.exp_scale",
                     "Pygom.C05.model_step_is_first_min", "Pygom.C05.model_step_time", "Pygom.C05.model_step_law",
                     "Pygom.C05.model_choice_law", "Pygom.C05.firstMin_cast", "Pygom.C05.first_min_iff",
                     "Pygom.C05.stepProbs_sum_to_one", "Pygom.C05.stepProbs_time_unit", "Pygom.C05.finalSizePMF_sums_to_one", "Pygom.C05.finalSizePMF_nonneg"]}
BUDGET = {"quick": {"identity": 16, "pairs": 25, "law_draws": 20000, "seeded_draws": 1500, "replay": 48, "chain": 32, "sir": 16, "runs": 6000,
                    "par": 4, "par_runs": 500, "warm": 200, "boundary": 8, "boundary_runs": 40},
          "thorough": {"identity": 64, "pairs": 100, "law_draws": 200000, "seeded_draws": 6000, "replay": 640, "chain": 160, "sir": 80,
                       "runs": 20000, "max_steps": 2000, "par": 16, "par_runs": 1500, "warm": 400, "boundary": 32, "boundary_runs": 100}}
CASE_TIMEOUT = 900
RULE = ("identity: random (seed, rate) pairs, rates log-uniform in [1e-3, 1e3]; replay: bounded-rate event models of the shared "
        "generator (zero-rate events, 1-5 states/events, multi-transition events) and chain/SIR models, exact mode, 2 paths each, "
        "non-trivial when >= 5 accepted steps and some step had >= 2 clocks; chain: 1-2 independent families of 2-4 compartments, "
        "individual-level linear rates on a random progression graph (chain + optional skip/back/competing edges), rates in [0.25, 4], "
        "3-30 individuals per family all starting in one compartment, t0 in {0, 1.5}, horizon with 0.3-2 expected jumps per individual, "
        "observed by a horizon (number, numpy float64 / float32, int, one-element list / tuple: state read from the raw path, first step "
        "judged by the one-step law) or by a grid (from t0 / after t0 / one point / non-uniform / repeated times / t0 twice / a point "
        "before t0 / integer-valued; ndarray f64, f32, int / list / tuple), plan cycled over the cases, judged at every requested time "
        ">= t0; 30% of the families declare a zero-rate event first; 2 of 8 horizons (5, 12 expected jumps) lie beyond absorption; "
        "calls of 500 / 250 / 7 / 1 iterations; `boundary` cases of `boundary_runs` paths with horizon / grid ending at t0; SIR: S0 3-40, I0 1-3, beta in [0.5, 4], gamma in "
        "[0.5, 2], frequency- or density-dependent infection, run to extinction; `runs` real paths per case; half of the chain / SIR "
        "cases are sessions (history before the judged batch: other parameters / restore / other initial values / tau-leap with "
        "left-over pre_tau and epsilon / other grid / sibling instance / distributions then numbers / integrate / deepcopy; target "
        "values assigned as dict / list / array / pairs / two dicts), x0 as list / tuple / ndarray of int / float / int32, t0 as "
        "float64 / int64 / float32, horizon / grid forms as above; a chain case is non-trivial with >= 1000 runs (300 in parallel) and a judged time after t0; `par` "
        "small-population cases of `par_runs` paths through parallel=True; replay cases are sessions of the shared engine; every 5th chain / SIR "
        "case and 40% of the chain / SIR replay cases are stated in another UNIT OF TIME (rates * c, all times / c, c in 2^-30, 2^10, 2^-40, 2^-20, "
        "2^30 in turn; integer-valued time plans are replaced by float ones there)")
ASSUMPTIONS = ["numpy's standard_exponential produces independent Exp(1) variates (hypothesis of the clock theorems; floats treated as reals)",
               "parallel path / seed=True: generators seeded from OS entropy (one per draw on the unchanged tree) give independent uniform streams; "
               "the parallel cases run pygom's parallel code path on dask's synchronous scheduler (in-process)",
               "the law of whole paths follows from the one-step law by the strong Markov property (standard CTMC construction, not formalised); "
               "the end-to-end statistics check exactly this composition on the real code",
               "rates are autonomous (with time-dependent rates the first-reaction method with frozen rates is not exact; outside the property's closed-form families)",
               "reference probabilities: 40-digit mpmath expm / exact rationals; acceptance regions are computed at half the allotted alpha to absorb "
               "the rounding of p to a double and of scipy's binomial cdf"]
TRUSTED = ["harness generators and tracer (numpy.random / evaluator / _jump wrappers of stoch_common)", "Lean driver JSON codec",
           "scipy.stats.binom cdf/sf/ppf for the exact acceptance regions (each region is re-verified with cdf/sf after ppf)",
           "mpmath.expm for the occupancy reference (multinomial law of independent individuals computed in Python, not in Lean)",
           "python Fraction recursion for the SIR final-size pmf (cross-checked against the Lean driver's `finalsize` exactly)"]

# total false-alarm probability of one run of the check: every statistical case gets ALPHA_TOTAL / (number of statistical
# cases of the tier); the failing-input search (run only when something already broke) reuses the per-case level, so even
# a run that searches stays below 4 * 2e-9 < 1e-8.
ALPHA_TOTAL = 2e-9


# ----------------------------------------------------------------------------- exact acceptance regions
def binom_region(n, p, alpha):
    """[lo, hi] with P(X < lo) <= alpha/2 and P(X > hi) <= alpha/2 for X ~ Binomial(n, p) (verified with cdf / sf)"""
    from scipy import stats as st
    if n <= 0:
        return 0, 0
    if p <= 0.0:
        return 0, 0
    if p >= 1.0:
        return n, n
    half = alpha / 2.0
    lo = int(st.binom.ppf(half, n, p))
    hi = int(st.binom.isf(half, n, p))
    lo = max(0, min(n, lo)); hi = max(0, min(n, hi))
    while lo > 0 and st.binom.cdf(lo - 1, n, p) > half:
        lo -= 1
    while hi < n and st.binom.sf(hi, n, p) > half:
        hi += 1
    return lo, hi


class Cells:
    """a family of binomial cells sharing one false-alarm budget"""

    def __init__(self, alpha):
        self.alpha = alpha
        self.cells = []          # (name, observed count, n, p)

    def add(self, name, count, n, p):
        self.cells.append((name, int(count), int(n), float(min(1.0, max(0.0, p)))))

    def judge(self):
        """list of failing cells (name, count, n, p, lo, hi, z)"""
        if not self.cells:
            return []
        a = self.alpha / len(self.cells) / 2.0       # safety factor 2 (rounding of p and of the cdf)
        bad = []
        for name, c, n, p in self.cells:
            lo, hi = binom_region(n, p, a)
            if not (lo <= c <= hi):
                var = n * p * (1 - p)
                bad.append((name, c, n, p, lo, hi, (c - n * p) / math.sqrt(var) if var > 0 else math.copysign(float("inf"), c - n * p)))
        bad.sort(key=lambda b: -abs(b[6]))
        return bad


# ----------------------------------------------------------------------------- models
def _T(o, d):
    return {"type": "T", "origin": o, "dest": d, "mag": E.num(1), "eq": None}


def chain_spec(families):
    """families: [{"states":[..], "edges":[(i, j, param)]}] -> spec (every edge an event with rate param * X_origin)"""
    states, params, evs = [], [], []
    for f in families:
        states += f["states"]
        for (i, j, p) in f["edges"]:
            params.append(p)
            evs.append({"rate": E.mul(E.var(p), E.var(f["states"][i])), "transitions": [_T(f["states"][i], f["states"][j])]})
    return {"state": {"list": states}, "param": {"list": params}, "derived": [],
            "ctor": {"event": evs, "transition": [], "birth_death": [], "ode": []}, "then": []}


def sir_spec(kind):
    if kind == "freq":
        rate = E.div(E.mul(E.mul(E.var("beta"), E.var("S")), E.var("I")), E.var("N"))
    else:
        rate = E.mul(E.mul(E.var("beta"), E.var("S")), E.var("I"))
    return {"state": {"list": ["S", "I", "R"]}, "param": {"list": ["beta", "gamma", "N"]}, "derived": [],
            "ctor": {"event": [{"rate": rate, "transitions": [_T("S", "I")]},
                               {"rate": E.mul(E.var("gamma"), E.var("I")), "transitions": [_T("I", "R")]}],
                     "transition": [], "birth_death": [], "ode": []}, "then": []}


RATE_GRID = [0.25, 0.375, 0.5, 0.75, 1.0, 1.25, 1.5, 2.0, 2.5, 3.0, 4.0]
X0_FORMS = ["arr_int", "arr_int", "arr_f64", "arr_f64", "list_int", "list_float", "list_float", "tuple_int", "tuple_float", "arr_i32"]
T0_FORMS = ["np_f64", "np_f64", "np_f64", "np_i64", "np_f32"]
HISTORY_KINDS = ["params", "params", "params", "restore", "iv", "tau_leftover", "grid", "sibling", "stoch_then_numbers", "determ", "deepcopy"]
# a horizon (the raw path is returned): number / numpy scalar / one-element list or tuple.  Everything else is a GRID of output times
SCALAR_HORIZONS = ("scalar", "np_f64", "np_f32", "int", "list1", "tuple1")
# the time argument of the judged batch.  The plans are CYCLED over the cases of a run (not drawn): every run of the check sees every
# shape - grids starting at t0, after t0, with one point, non-uniform, with repeated times, with a point before t0, integer-valued,
# each as ndarray / list / tuple - and the law is judged at EVERY requested time
CHAIN_TIME_PLAN = [("scalar", None), ("grid", "after_t0"), ("grid", "one_point"), ("np_f64", None), ("grid", "from_t0"), ("grid", "after_t0_3"),
                   ("list1", None), ("grid", "nonuniform"), ("grid", "repeated"), ("tuple1", None), ("grid", "int"), ("grid", "before_t0"),
                   ("grid", "t0_twice"), ("np_f32", None), ("grid", "nonuniform_after_t0"), ("int", None)]
SIR_TIME_PLAN = [("scalar", None), ("grid", "after_t0"), ("np_f64", None), ("grid", "one_point"), ("list1", None), ("grid", "from_t0"),
                 ("grid", "repeated"), ("tuple1", None)]
# horizons at or before the initial time (no event can be recorded: the state reported for T == t0 is the initial state with
# probability one; T < t0 is outside the property and only tagged)
BOUNDARY_PLAN = [("scalar", "at_t0"), ("grid", "one_point_t0"), ("grid", "all_t0"), ("list1", "at_t0"), ("grid", "ends_at_t0"), ("scalar", "before_t0"),
                 ("np_f64", "at_t0"), ("grid", "before_and_at_t0")]
GRID_FORMS = ["array", "array", "list", "tuple", "array_f32"]
CHUNKS = [500, 500, 500, 500, 500, 250, 7, 1]        # iterations per solve_stochast call of the judged batch


# UNIT OF TIME (fourth seeded round).  The law of the state at a requested time is invariant under a change of the unit of time: with every
# rate multiplied by c and every time (t0, horizon, grid) divided by c the occupancy / final-size / first-step probabilities are THE SAME
# numbers (Q t is unchanged).  Some statistical cases and some clock-replay cases are therefore stated in another unit: c = 2^-30
# (~ 9.3e-10: a process of O(1) per 30 years timed in seconds), 2^-40, 2^-20 (~ 1e-6), 2^10 (~ 1e3) and 2^30 (times of ~ 1e-9).  Powers
# of two: the scaling is exact in binary floating point (the scaled case IS the unit case in another unit, parameters stay dyadic and
# the exact SIR pmf stays small), and the reference probabilities are computed from the scaled numbers as for any other case.  Nothing
# in the property singles out a magnitude of rates or times: any absolute threshold on a rate or a time in the code under test
# (`np.allclose(rates, 0)`, `np.isclose(t, grid)`) shows here and nowhere else.
TIME_UNITS = [2.0 ** -30, 2.0 ** 10, 2.0 ** -40, 2.0 ** -20, 2.0 ** 30, 2.0 ** -30]
CHAIN_SCALED_EVERY = 5          # chain cases 2, 7, 12, ... of a run are stated in another unit (6 of 32 in the quick tier: every unit once)
SIR_SCALED_EVERY = 5            # SIR cases 1, 6, 11, ... (3 of 16)
REPLAY_SCALED_SHARE = 0.4       # of the chain / SIR clock-replay cases


def unit_name(c):
    return "2^%d" % int(round(math.log2(float(c))))


def rescale(g, c):
    """the statistical case `g` (chain or SIR, stated in unit time) stated in another unit of time: rates * c, times / c (exact: c is a
    power of two).  Integer-valued requested times stay what they are only if they stay integers - callers do not scale such plans."""
    c = float(c)
    g["time_unit"] = c
    g["t0"] = float(g["t0"]) / c
    g["times"] = [float(t) / c for t in g["times"]]
    if g["kind"] == "chain":
        g["params"] = {k: float(v) * c for k, v in g["params"].items()}
    else:
        g["beta"], g["gamma"], g["T"] = float(g["beta"]) * c, float(g["gamma"]) * c, float(g["T"]) / c
    h = g.get("history")
    if h:
        h["params_other"] = {k: (float(v) * c if k != "N" else float(v)) for k, v in h["params_other"].items()}
    return g


def other_rate(r, v):
    """another value of the grid, at least a factor 2 away: a batch simulated with it has a visibly different law"""
    c = [w for w in RATE_GRID if w >= 2 * v or w <= v / 2]
    return r.choice(c)


def gen_history(r, params_other, warm, x0_other):
    """what the instance is used for BEFORE the judged batch; the judged batch always runs with the case's own values"""
    k = r.choice(HISTORY_KINDS)
    h = {"kind": k, "params_other": params_other, "warm": warm, "assign": r.choice(list(SC.PARAM_FORMS)), "np_seed": r.randrange(2 ** 31),
         "x0_other": x0_other, "x0_form": r.choice(X0_FORMS), "dist": r.choice(["frozen", "tuple"])}
    return h


def gen_forms(r, g, t0):
    g["x0_form"] = r.choice(X0_FORMS)
    g["t0_form"] = r.choice(T0_FORMS)


def _f32(v):
    return float(np.float32(v))


def gen_times(r, hk, shape, t0, t1):
    """the requested times of a case: {"values": [...], "form": container of a grid | None}.  t1 > t0 is the nominal horizon."""
    d = t1 - t0
    a = t0 + 0.4 * d
    if hk != "grid":
        T = {"at_t0": t0, "before_t0": t0 - 0.5 * d}.get(shape, t1)
        if hk == "np_f32":
            T = _f32(T)
        if hk == "int":
            T = float(int(t0) + max(1, int(round(d))))
        return {"values": [float(T)], "form": None}
    form = r.choice(GRID_FORMS)
    if shape == "from_t0":
        v = [t0, a, t1]
    elif shape == "after_t0":
        v = [a, t1]
    elif shape == "after_t0_3":
        v = [t0 + 0.15 * d, t0 + 0.5 * d, t1]
    elif shape == "one_point":
        v = [t1]
        form = r.choice(["array", "array", "array_f32"])          # a one-element list / tuple is a horizon, not a grid
    elif shape in ("nonuniform", "nonuniform_after_t0"):
        v = sorted([t0 + d * r.choice([0.02, 0.05, 0.1, 0.2, 0.3]), t0 + d * r.choice([0.35, 0.5, 0.6]), t0 + d * r.choice([0.7, 0.85, 0.97]), t1])
        if shape == "nonuniform":
            v = [t0] + v
        if r.random() < 0.5:
            del v[r.randrange(1, len(v) - 1)]
    elif shape == "repeated":
        v = r.choice([[a, a, t1], [t0, a, a, t1], [a, t1, t1], [a, a], [t0, a, t1, t1]])
    elif shape == "t0_twice":
        v = r.choice([[t0, t0, t1], [t0, t0, a, t1]])
    elif shape == "before_t0":
        v = r.choice([[t0 - 0.5 * d, a, t1], [t0 - 1.0, t0, t1], [t0 - 0.25, t1]])
    elif shape == "int":
        base = int(t0)
        v = r.choice([[base + 1, base + 2, base + 4], [base, base + 1, base + 3], [base + 1, base + 3], [base + 2]])
        form = r.choice(["array_int", "list_int", "tuple_int"]) if len(v) > 1 else "array_int"
    elif shape == "one_point_t0":
        v, form = [t0], "array"
    elif shape == "all_t0":
        v = [t0, t0]
    elif shape == "ends_at_t0":
        v = [t0 - 1.0, t0]
    elif shape == "before_and_at_t0":
        v = [t0 - 2.0, t0 - 1.0, t0, t0]
    else:
        raise ValueError("unknown grid shape %r" % shape)
    v = [float(x) for x in v]
    if form == "array_f32":
        w = [_f32(x) for x in v]
        # rounding to float32 must not move a point across t0 or merge two points: otherwise hand the grid over as float64
        if all((x > t0) == (y > t0) and (x < t0) == (y < t0) for x, y in zip(v, w)) and all((w[i] < w[i + 1]) == (v[i] < v[i + 1]) for i in range(len(v) - 1)):
            v = w
        else:
            form = "array"
    return {"values": v, "form": form}


def gen_chain(r, runs, alpha, *, warm=200, session_share=0.5, max_n=30, plan=None, chunk=None, unit=None):
    hk, shape = plan if plan is not None else r.choice(CHAIN_TIME_PLAN)
    if unit is not None and (hk == "int" or shape == "int"):
        hk, shape = ("grid", "after_t0") if hk == "grid" else ("scalar", None)       # integer-valued times do not survive a change of unit
    slow = shape == "int" or hk == "int"                 # integer-valued times: rates from the lower half of the grid
    nf = r.choice([1, 1, 2])
    fams, pv, x0 = [], {}, []
    names = [["A", "B", "C", "D"], ["U", "V", "W", "Z"]]
    for f in range(nf):
        k = r.choice([2, 3, 3, 4])
        st = names[f][:k]
        edges = [(i, i + 1) for i in range(k - 1)]
        extra = r.random()
        if k >= 3 and extra < 0.25:
            edges.append((0, 2))                       # competing / skip edge
        elif k >= 3 and extra < 0.4:
            edges.append((1, 0))                       # back edge
        elif k >= 4 and extra < 0.5:
            edges.append((1, 3))
        r.shuffle(edges)                               # event order is not chain order
        el = []
        for (i, j) in edges:
            p = "k%d%s%s" % (f, st[i], st[j])
            pv[p] = r.choice(RATE_GRID[:4] if slow else RATE_GRID)
            el.append((i, j, p))
        n = r.randint(3, max_n)
        start = 0 if r.random() < 0.8 else r.randrange(k - 1)
        if r.random() < 0.3:
            # an event whose rate is identically zero (parameter value 0), declared BEFORE the events that fire: it must never be booked
            free = [(i, j) for i in range(k) for j in range(k) if i != j and (i, j) not in edges]
            if free:
                i, j = r.choice(free)
                p = "z%d%s%s" % (f, st[i], st[j])
                pv[p] = 0.0
                el.insert(0, (i, j, p))
        fams.append({"states": st, "edges": el, "n": n, "start": start})
        x0 += [n if i == start else 0 for i in range(k)]
    live = [v for v in pv.values() if v > 0]
    mean_rate = sum(live) / len(live)
    t0 = r.choice([0.0, 2.0]) if slow else r.choice([0.0, 0.0, 1.5])
    # expected jumps per individual; the long horizons lie beyond absorption for most paths (a path that ends early must keep its last event)
    u = r.choice([0.3, 0.6, 1.0, 1.5, 2.0, 2.0, 5.0, 12.0])
    t1 = t0 + u / mean_rate
    tm = gen_times(r, hk, shape, t0, t1)
    g = {"kind": "chain", "families": fams, "params": pv, "x0": x0, "t0": t0, "times": tm["values"], "horizon_kind": hk, "grid_shape": shape,
         "grid_form": tm["form"], "runs": runs, "np_seed": r.randrange(2 ** 31), "alpha": alpha, "chunk": chunk if chunk is not None else r.choice(CHUNKS)}
    if g["chunk"] == 1:
        g["runs"] = min(runs, 2000)
    gen_forms(r, g, t0)
    if r.random() < session_share:
        g["history"] = gen_history(r, {p: other_rate(r, v) for p, v in pv.items()}, warm, [v + 3 if v else 0 for v in x0])
    if unit is not None:
        rescale(g, unit)
    return g


def gen_sir(r, runs, alpha, *, warm=200, session_share=0.5, s0_choices=(3, 5, 8, 12, 15, 20, 30, 40), plan=None, chunk=None, unit=None):
    hk, shape = plan if plan is not None else r.choice(SIR_TIME_PLAN)
    s0 = r.choice(list(s0_choices))
    i0 = r.choice([1, 1, 2, 3])
    r0 = r.choice([0, 0, 4])
    kind = r.choice(["freq", "freq", "dens"])
    gamma = r.choice([0.5, 0.75, 1.0, 1.5, 2.0])
    R0 = r.choice([0.5, 0.875, 1.25, 1.5, 2.0, 3.0, 4.0])
    N = s0 + i0 + r0
    # parameters are dyadic rationals with small denominators: exact as doubles, and the exact pmf stays small
    if kind == "freq":
        beta = R0 * gamma
        pop = float(N)
    else:
        beta = max(1, round(R0 * gamma / N * 1024)) / 1024.0
        pop = 1.0
    t0 = r.choice([0.0, 2.0])
    T = 1.0e6
    if hk == "grid":
        form = r.choice(["array", "list", "tuple"])
        if shape == "from_t0":
            v = [t0, t0 + 1.0, T]
        elif shape == "after_t0":
            v = r.choice([[t0 + 1.0, T], [t0 + 0.25, t0 + 1.0e3, T]])
        elif shape == "one_point":
            v, form = [T], "array"
        elif shape == "repeated":
            v = r.choice([[t0 + 1.0, T, T], [t0, t0, T], [t0 + 0.5, t0 + 0.5, T]])
        else:
            raise ValueError("unknown SIR grid shape %r" % shape)
    else:
        v, form = [T], None
    g = {"kind": "sir", "rate_kind": kind, "s0": s0, "i0": i0, "r0": r0, "beta": beta, "gamma": gamma, "N": float(N),
         "pop": pop, "t0": t0, "T": T, "times": [float(x) for x in v], "horizon_kind": hk, "grid_shape": shape, "grid_form": form,
         "runs": runs, "np_seed": r.randrange(2 ** 31), "alpha": alpha, "chunk": chunk if chunk is not None else r.choice(CHUNKS)}
    if g["chunk"] == 1:
        g["runs"] = min(runs, 2000)
    gen_forms(r, g, g["t0"])
    if r.random() < session_share:
        f = 4.0 if R0 <= 1.5 else 0.25                 # the other basic reproduction number is on the other side of 1.5
        g["history"] = gen_history(r, {"beta": beta * f, "gamma": gamma * r.choice([1.0, 0.5, 2.0]), "N": pop}, warm, [s0 + 2, i0 + 1, r0])
    if unit is not None:
        rescale(g, unit)
    return g


def gen_par(r, runs, alpha):
    """a small-population case simulated through solve_stochast(..., parallel=True)"""
    if r.random() < 0.7:
        g = gen_chain(r, runs, alpha, session_share=0.0, max_n=8, plan=r.choice([("scalar", None), ("scalar", None), ("grid", "after_t0"), ("grid", "from_t0")]), chunk=500)
    else:
        g = gen_sir(r, runs, alpha, session_share=0.0, s0_choices=(3, 5, 8), plan=("scalar", None), chunk=500)
    g["parallel"] = True
    return g


def gen_boundary(r, runs, alpha, plan):
    """a horizon / grid that ends at (or before) the initial time: nothing can happen, every reported state is the initial state"""
    g = gen_chain(r, runs, alpha, session_share=0.3, max_n=12, plan=plan, chunk=r.choice([runs, 1, 7]))
    g["boundary"] = True
    return g


def gen_identity(r, pairs, law_draws, alpha, seeded_draws=0):
    ps = []
    for _ in range(pairs):
        rate = r.choice([math.exp(r.uniform(math.log(1e-3), math.log(1e3))), float(r.randint(1, 50)), r.choice(RATE_GRID),
                         1.0 / r.randint(2, 9)])
        ps.append({"seed": r.randrange(2 ** 32), "rate": rate, "rate2": math.exp(r.uniform(-3, 3)), "n": r.randint(2, 6)})
    law = [{"rate": rr, "seed": r.randrange(2 ** 32)} for rr in
           (r.choice([0.05, 0.1, 0.2]), r.choice([0.3, 0.5, 0.7]), r.choice([2.0, 3.0, 5.0]), r.choice([8.0, 20.0, 50.0]))]
    return {"kind": "identity", "pairs": ps, "law": law, "law_draws": law_draws, "alpha": alpha, "seeded_draws": seeded_draws,
            "seeded_rate": r.choice([0.2, 0.5, 2.0, 5.0])}


def make_cases(rng, tier, budget, factor=1):
    nstat = budget["chain"] + budget["sir"] + budget["identity"] + budget.get("par", 0) + budget.get("boundary", 0)
    alpha = ALPHA_TOTAL / nstat
    cases = []
    warm = budget.get("warm", 200)
    sub = lambda: random.Random(rng.getrandbits(64))
    ident = [gen_identity(sub(), budget["pairs"], budget["law_draws"], alpha, budget.get("seeded_draws", 0)) for _ in range(budget["identity"] * factor)]
    # the time plans are cycled, from an offset that depends on the seed: every run has every shape of horizon / grid
    oc, os_, ob = rng.randrange(len(CHAIN_TIME_PLAN)), rng.randrange(len(SIR_TIME_PLAN)), rng.randrange(len(BOUNDARY_PLAN))
    # every CHAIN_SCALED_EVERY-th chain case and every SIR_SCALED_EVERY-th SIR case is stated in another unit of time (units in turn, from an
    # offset that depends on the seed); the number of statistical cases - and with it every case's level - is what it was
    ou = rng.randrange(len(TIME_UNITS))
    cunit = lambda i: TIME_UNITS[(ou + i // CHAIN_SCALED_EVERY) % len(TIME_UNITS)] if i % CHAIN_SCALED_EVERY == 2 else None
    sunit = lambda i: TIME_UNITS[(ou + 2 * (i // SIR_SCALED_EVERY)) % len(TIME_UNITS)] if i % SIR_SCALED_EVERY == 1 else None
    chain = [gen_chain(sub(), budget["runs"], alpha, warm=warm, plan=CHAIN_TIME_PLAN[(oc + i) % len(CHAIN_TIME_PLAN)], unit=cunit(i)) for i in range(budget["chain"] * factor)]
    sir = [gen_sir(sub(), budget["runs"], alpha, warm=warm, plan=SIR_TIME_PLAN[(os_ + i) % len(SIR_TIME_PLAN)], unit=sunit(i)) for i in range(budget["sir"] * factor)]
    par = [gen_par(sub(), budget.get("par_runs", 500), alpha) for _ in range(budget.get("par", 0) * factor)]
    bnd = [gen_boundary(sub(), budget.get("boundary_runs", 40), alpha, BOUNDARY_PLAN[(ob + i) % len(BOUNDARY_PLAN)]) for i in range(budget.get("boundary", 0) * factor)]
    # one of each kind first (the evidence samples the first non-trivial cases), the long statistical cases before the short ones
    cases = chain[:1] + sir[:1] + ident[:1] + par + chain[1:] + sir[1:] + bnd + ident[1:]
    n = 0
    while n < budget["replay"] * factor:
        r = random.Random(rng.getrandbits(64))
        pick = r.random()
        if pick < 0.6:
            base = SC.gen_sim_case(r, max_x0=30, ode_share=0.0)
            sib = SC.gen_sim_case(r, max_x0=30, ode_share=0.0)
            if base is None:
                continue
            c = dict(base)
            c["sim"] = SC.sim_settings(r, base, "exact", steps=budget.get("steps"))
            c["kind"] = "replay"
            c["model"] = "generated"
            if r.random() < 0.6:
                c["sim"]["x0_form"] = r.choice(X0_FORMS)
                c["session"] = SC.gen_session(r, base, c["sim"], grid_share=0.25, exact_share=0.8, runs=(2, 3), sibling_base=sib)
        elif pick < 0.85:
            g = gen_chain(r, 2, 0.0, session_share=0.0, plan=("scalar", None))
            # mostly run to absorption (a path that ends before the horizon); sometimes a horizon AT the initial time (no step, no draw)
            T_ = g["t0"] if r.random() < 0.06 else g["times"][-1] * 1.5 + 1.0
            cu = r.choice(TIME_UNITS) if r.random() < REPLAY_SCALED_SHARE else None      # the same case in another unit of time
            if cu is not None:
                rescale(g, cu)
                T_ = T_ / cu
            c = {"kind": "replay", "model": "chain", "spec": chain_spec(g["families"]), "params": g["params"], "x0": g["x0"],
                 "meta": {"states": [s for f in g["families"] for s in f["states"]]},
                 "sim": {"mode": "exact", "t0": g["t0"], "T": T_, "np_seed": g["np_seed"], "epsilon": None, "pre_tau": None}}
            if r.random() < 0.4:
                c["sim"]["time"] = SC.gen_grid_time(r, g["t0"], g["times"][-1] * 1.5 + 1.0 / (cu or 1.0), max_points=5, after_t0=0.5, past=(0.5, 1, 3))
            if cu is not None:
                c["time_unit"] = cu
        else:
            g = gen_sir(r, 2, 0.0, session_share=0.0, plan=("scalar", None), unit=r.choice(TIME_UNITS) if r.random() < REPLAY_SCALED_SHARE else None)
            c = {"kind": "replay", "model": "sir", "spec": sir_spec(g["rate_kind"]),
                 "params": {"beta": g["beta"], "gamma": g["gamma"], "N": g["pop"]}, "x0": [g["s0"], g["i0"], g["r0"]],
                 "meta": {"states": ["S", "I", "R"]},
                 "sim": {"mode": "exact", "t0": g["t0"], "T": g["T"], "np_seed": g["np_seed"], "epsilon": None, "pre_tau": None}}
            if g.get("time_unit"):
                c["time_unit"] = g["time_unit"]
        c["max_steps"] = budget.get("max_steps", SC.MAX_STEPS)
        cases.append(c)
        n += 1
    return cases


def search_cases(rng, tier, budget):
    b = dict(budget)
    b["replay"] = 0
    return make_cases(rng, tier, b, factor=2)


# ----------------------------------------------------------------------------- (a) identity
def run_identity(case):
    from pygom.utilR.distn import rexp
    mism, viol = [], []
    n_ok = 0
    seed_false_is_zero = False
    for p in case["pairs"]:
        s, rate = int(p["seed"]), float(p["rate"])
        np.random.seed(s)
        v = rexp(1, rate)
        ref1 = np.random.RandomState(s).standard_exponential() * (1.0 / rate)
        ref2 = np.random.RandomState(s).exponential(scale=1.0 / rate)
        if not (float(v) == float(ref1) == float(ref2)):
            mism.append({"what": "identity:rexp-scalar", "detail": "seed %d rate %r: rexp(1, rate) = %r, standard_exponential()*(1/rate) = %r, "
                         "exponential(scale=1/rate) = %r" % (s, rate, float(v), float(ref1), float(ref2))})
            continue
        np.random.seed(s)
        vv = np.asarray(rexp(int(p["n"]), rate), float)
        rv = np.random.RandomState(s).exponential(scale=1.0 / rate, size=int(p["n"]))
        if vv.shape != rv.shape or not np.array_equal(vv, rv):
            mism.append({"what": "identity:rexp-vector", "detail": "seed %d rate %r n %d: %s vs %s" % (s, rate, p["n"], vv.tolist(), rv.tolist())})
            continue
        np.random.seed(s)
        a = rexp(1, rate); b = rexp(1, float(p["rate2"]))
        rs = np.random.RandomState(s)
        ra = rs.exponential(scale=1.0 / rate); rb = rs.exponential(scale=1.0 / float(p["rate2"]))
        if not (float(a) == float(ra) and float(b) == float(rb)):
            mism.append({"what": "identity:rexp-stream", "detail": "seed %d: consecutive rexp calls (%r, %r) do not continue the global stream (%r, %r)"
                         % (s, float(a), float(b), float(ra), float(rb))})
            continue
        # the seed argument (what the parallel path of solve_stochast passes: seed=True).  Unchanged tree: True -> a NEW entropy-seeded
        # RandomState per call, int k -> RandomState(k), a RandomState -> used as it is, False -> a copy of the global state
        st_before = np.random.get_state()
        t1, t2 = rexp(1, rate, seed=True), rexp(1, rate, seed=True)
        st_after = np.random.get_state()
        if not (np.array_equal(st_before[1], st_after[1]) and st_before[2] == st_after[2]):
            mism.append({"what": "identity:rexp-seed-true-touches-global", "detail": "rexp(1, r, seed=True) advanced numpy's global generator"})
        fixed = [float(np.random.RandomState(k).exponential(scale=1.0 / rate)) for k in (0, 1)]
        if float(t1) == float(t2) or float(t1) in fixed or float(t2) in fixed or not (t1 > 0 and t2 > 0):
            # a continuous variate drawn twice from fresh generators: equal values (or the value of a fixed seed) have probability 0
            viol.append({"what": "rexp(1, rate, seed=True) does not return a fresh exponential variate on every call",
                         "signature": "C05:rexp:seed=True:not-a-fresh-variate",
                         "detail": "rate %r: two calls returned %r and %r; RandomState(0) / RandomState(1) give %r" % (rate, float(t1), float(t2), fixed)})
        k_ = int(p["seed"]) % 1000
        if float(rexp(1, rate, seed=k_)) != float(np.random.RandomState(k_).exponential(scale=1.0 / rate)):
            mism.append({"what": "identity:rexp-seed-int", "detail": "rexp(1, %r, seed=%d) is not RandomState(%d).exponential(1/rate)" % (rate, k_, k_)})
        rs, rs2 = np.random.RandomState(s), np.random.RandomState(s)
        a = rexp(1, rate, seed=rs); b = rexp(1, float(p["rate2"]), seed=rs)
        if not (float(a) == float(rs2.exponential(scale=1.0 / rate)) and float(b) == float(rs2.exponential(scale=1.0 / float(p["rate2"])))):
            mism.append({"what": "identity:rexp-seed-randomstate", "detail": "seed %d: rexp with a RandomState object does not continue that object's stream" % s})
        np.random.seed(s)
        f1 = rexp(1, rate, seed=False)
        g1 = rexp(1, rate)
        if float(f1) == float(np.random.RandomState(0).exponential(scale=1.0 / rate)) and float(g1) == float(ref2):
            # the unchanged tree: bool is an int, so test_seed(False) is RandomState(0) - not the documented copy of the global state.
            # The simulation never passes seed=False (None serially, True in parallel): recorded, not judged here (C19 owns the helpers)
            seed_false_is_zero = True
        elif float(f1) != float(ref2) or float(g1) != float(ref2):
            mism.append({"what": "identity:rexp-seed-false", "detail": "seed %d: rexp(seed=False) is neither the next variate of a copy of the global state nor RandomState(0)'s, or it advanced the global state" % s})
        n_ok += 1
    # the law of rexp(n, rate) itself: 8 equiprobable cells of Exp(rate)
    cells = Cells(case["alpha"])
    m2 = int(case.get("seeded_draws") or 0)
    if m2:
        rate = float(case.get("seeded_rate", 1.0))
        x = np.array([rexp(1, rate, seed=True) for _ in range(m2)], float)
        edges = [-math.log1p(-k / 8.0) / rate for k in range(1, 8)]
        cnt = np.bincount(np.searchsorted(edges, x, side="right"), minlength=8)
        for k in range(8):
            cells.add("rexp(1, rate=%r, seed=True) in octile %d of Exp(rate)" % (rate, k), cnt[k], m2, 1.0 / 8.0)
        cells.add("rexp(1, rate=%r, seed=True) <= 0" % rate, int(np.sum(x <= 0)), m2, 0.0)
    m = int(case["law_draws"])
    for l in case["law"]:
        rate = float(l["rate"])
        np.random.seed(int(l["seed"]))
        x = np.concatenate([np.asarray(rexp(m - 500, rate), float), np.array([rexp(1, rate) for _ in range(500)], float)])
        edges = [-math.log1p(-k / 8.0) / rate for k in range(1, 8)]
        idx = np.searchsorted(edges, x, side="right")
        cnt = np.bincount(idx, minlength=8)
        for k in range(8):
            cells.add("rexp(rate=%r) in octile %d of Exp(rate)" % (rate, k), cnt[k], m, 1.0 / 8.0)
        cells.add("rexp(rate=%r) <= 0" % rate, int(np.sum(x <= 0)), m, 0.0)
    bad = cells.judge()
    if bad:
        b = bad[0]
        viol.append({"what": "rexp(n, rate) is not Exp(rate): %s" % b[0], "signature": "C05:rexp:law" + (":seed=True" if "seed=True" in b[0] else ""),
                     "detail": "count %d of %d, expected probability %.6g, exact acceptance region [%d, %d], z = %.1f; %d cells fail"
                     % (b[1], b[2], b[3], b[4], b[5], b[6], len(bad))})
    return {"nontrivial": True, "mismatches": mism, "violations": viol, "tags": ["kind:identity"] + (["identity:all-equal"] if n_ok == len(case["pairs"]) else [])
            + (["identity:seed-false-is-RandomState(0)-not-judged"] if seed_false_is_zero else []),
            "sample": {"kind": "identity", "pairs": len(case["pairs"]), "identical": n_ok, "law_cells": len(cells.cells)}}


# ----------------------------------------------------------------------------- (b) replay
def align_draws(jr, log, rate_fn, mism, tags):
    """the recorded clocks against the recorded path, evaluator calls not used: for step k the rates at the CURRENT
    (X[k], T[k]) decide how many clocks were drawn and with which scales"""
    X, J, T, dT = jr["X"], jr["J"], jr["T"], jr["dT"]
    draws = [(e[1], e[2]) for e in log if e[0] == "expo"]
    pos_d = 0
    multi = 0
    drv = leanio.driver()
    for k in range(len(T) - 1):
        rates = np.asarray(rate_fn(X[k], T[k]), float).ravel()
        pos = [j for j, v in enumerate(rates) if v > 0]
        mine = draws[pos_d:pos_d + len(pos)]
        pos_d += len(pos)
        where = "step %d at x=%s t=%r (rates there %s)" % (k, X[k].tolist(), T[k], rates.tolist())
        if len(mine) != len(pos):
            mism.append({"what": "step:clock-count", "detail": "%s: %d clocks left in the stream for %d positive-rate events" % (where, len(mine), len(pos))})
            return multi
        scales = [s for s, _ in mine]
        if scales != [1.0 / float(rates[j]) for j in pos]:
            mism.append({"what": "step:clock-scale-vs-current-rate",
                         "detail": "%s: clock scales %s, expected 1/rate of the positive-rate events in order %s" % (where, scales, [1.0 / float(rates[j]) for j in pos])})
            return multi
        vals = [v for _, v in mine]
        if not vals:
            mism.append({"what": "step:event-fired-with-no-positive-rate", "detail": "%s: a step was recorded although no event has a positive rate there" % where})
            return multi
        if len(vals) >= 2:
            multi += 1
        w = int(np.argmin(vals))
        if np.any(rates[:pos[w]] == 0):
            tags.append("zero_rate_event_declared_before_the_fired_one")
        fired = np.flatnonzero(np.asarray(J[k]).ravel())
        if len(fired) != 1 or int(fired[0]) != pos[w]:
            mism.append({"what": "step:fired-event-not-first-min", "detail": "%s: clocks %s, first minimum belongs to event %d, counts %s" % (where, vals, pos[w], np.asarray(J[k]).ravel().tolist())})
            return multi
        if not (float(dT[k]) == vals[w] and float(T[k + 1]) == float(T[k]) + vals[w]):
            mism.append({"what": "step:time-not-advanced-by-min", "detail": "%s: min clock %r, dt %r, t_new %r" % (where, vals[w], float(dT[k]), float(T[k + 1]))})
            return multi
        # the theorem's vocabulary (firstMin / posIdx) on the same numbers
        r = drv.call({"op": "first_min", "rates": SC.qs(rates), "expo": [SC.q(v) for v in vals]})
        if r.get("k") != w or r.get("event") != pos[w] or Fraction(r["dt"]) != Fraction(vals[w]):
            mism.append({"what": "lean:first_min", "detail": "%s: lean %s, numpy argmin %d event %d" % (where, r, w, pos[w])})
            return multi
    # what is left in the stream belongs to the last (non-appended) iteration, if any
    left = len(draws) - pos_d
    if left:
        rates = np.asarray(rate_fn(X[-1], T[-1]), float).ravel()
        if left != int(np.sum(rates > 0)):
            mism.append({"what": "step:clock-count", "detail": "%d clocks recorded after the last appended step, %d positive-rate events at the final state" % (left, int(np.sum(rates > 0)))})
    return multi


def run_replay(case):
    """every exact call of a session (an old-style case is a session of one call): per-step tie (C04's) and the alignment of the
    recorded clocks with the rates a FRESH instance, given the parameters in force, computes at the visited states"""
    spec = case["spec"]
    tags, mism, viol = ["kind:replay", "replay:" + case.get("model", "generated")], [], []
    if case.get("time_unit"): tags += ["time-unit-scaled", "replay:time-unit:" + unit_name(case["time_unit"])]
    state = {"accepted": 0, "multi": 0, "lr": None, "refs": {}}

    def reference_rates(call):
        key = json_key(call.case["params"])
        if key not in state["refs"]:
            ref = pymodel.build(spec, backend="lambda")
            ref.parameters = {k: float(v) for k, v in call.case["params"].items()}
            state["refs"][key] = ref.eventRateVector
        return state["refs"][key]

    def judge(call, model):
        tr = call.tr
        if not call.exact:
            tags.append("session:tau-call-not-judged")
            return tr.error is None
        if state["lr"] is None:
            state["lr"] = SC.lean_lims(spec)
        if tr.error is not None:
            # crashes of solve_stochast belong to C04; here they only break the tie
            mism.append({"what": "replay:raised", "detail": "%s: %s" % (type(tr.error).__name__, str(tr.error)[:300])})
            tags.append("raised")
            return False
        rate_ref = reference_rates(call)
        Xs, Js, Ts = tr.result
        for p in range(len(tr.jumps)):
            jr = tr.jumps[p]
            J = np.array(jr["J"])
            nE = len(np.asarray(rate_ref(jr["X"][0], jr["T"][0])).ravel())
            if J.ndim == 1:
                J = J.reshape(0, nE)
            jr["J"] = J
            seg = tr.log[jr["log"][0]:jr["log"][1]]
            its = SC.segment(seg, True)
            try:
                SC.tie_steps(model, call.case, jr, its, state["lr"]["lims"], mism, tags)
            except (KeyError, IndexError, ValueError) as exc:     # a recorded stream that does not have the modelled structure at all
                mism.append({"what": "trace:unparsed", "detail": "%s: %s" % (type(exc).__name__, exc)})
            for it in its:
                if it.get("complete") and not np.array_equal(np.asarray(it["rates"], float).ravel(), np.asarray(rate_ref(it["x"], it["t"]), float).ravel()):
                    mism.append({"what": "replay:rates-not-those-of-the-parameters-in-force",
                                 "detail": "call at op %d: at x=%s the run used rates %s, a fresh instance with the current parameters gives %s"
                                           % (call.index, np.asarray(it["x"]).tolist(), np.ravel(it["rates"]).tolist(), np.ravel(rate_ref(it["x"], it["t"])).tolist())})
                    break
            state["multi"] += align_draws(jr, seg, rate_ref, mism, tags)
            state["accepted"] = max(state["accepted"], len(jr["T"]) - 1)
            if jr["truncated"]:
                tags.append("truncated")
            if any(it.get("complete") and np.any(np.ravel(it["rates"]) == 0) and np.any(np.ravel(it["rates"]) > 0) for it in its):
                tags.append("zero_rate_event_present")
        return True

    calls = SC.run_session(case, judge, "C05", tags, mism, viol, max_steps=case.get("max_steps", SC.MAX_STEPS))
    if case.get("time_unit") and not case.get("session") and calls and calls[0].tr.error is None:
        unit_twin(case, calls[0], mism, tags)
    return {"nontrivial": state["accepted"] >= 5 and state["multi"] >= 1, "mismatches": mism[:8], "violations": viol, "tags": tags,
            "sample": {"kind": "replay", "model": case.get("model"), "x0": case["x0"], "accepted_steps": state["accepted"], "steps_with_2+_clocks": state["multi"],
                       "session": bool(case.get("session"))}}


def unit_twin(case, call, mism, tags):
    """a replay case stated in another unit of time (c a power of two) against its TWIN in unit time under the same numpy seed: the
    same clocks are drawn, so the twin visits the same states and its event times are the scaled ones times c - exactly (scaling by a
    power of two commutes with every rounding of rate = k x, scale = 1 / rate, E * scale, t + dt).  What the pure step model says of a
    change of unit; the property (a law) does not state it path by path: a difference is a broken correspondence, not a violation."""
    c = float(case["time_unit"])
    ts = call.ts
    if ts["kind"] not in ("float", "np_f64", "list1", "tuple1", "list", "tuple", "array"):
        tags.append("time-unit-twin:not-run(integer-valued time argument)")
        return
    twin = dict(case, params={k: (float(v) / c if k != "N" else float(v)) for k, v in case["params"].items()},
                sim=dict(case["sim"], t0=float(case["sim"]["t0"]) * c, T=float(case["sim"]["T"]) * c))
    twin["sim"].pop("time", None)
    t_ts = {"kind": ts["kind"], "values": [float(v) * c for v in ts["values"]]}
    tr = SC.traced_run(SC.build_model(twin), SC.time_obj(t_ts), True, call.op["np_seed"], iterations=call.sim["iterations"], max_steps=case.get("max_steps", SC.MAX_STEPS))
    tags.append("time-unit-twin")
    if tr.error is not None or len(tr.jumps) != len(call.tr.jumps):
        mism.append({"what": "replay:time-unit-twin-differs", "detail": "unit %s: the twin in unit time %s" % (unit_name(c), "raised %r" % tr.error if tr.error is not None else "made %d paths for %d" % (len(tr.jumps), len(call.tr.jumps)))})
        return
    for p, (a, b) in enumerate(zip(call.tr.jumps, tr.jumps)):
        if a["truncated"] or b["truncated"]:
            continue
        if a["X"].shape != b["X"].shape or not np.array_equal(a["X"], b["X"]) or not np.array_equal(np.asarray(a["T"], float) * c, np.asarray(b["T"], float)):
            k = 0
            while k < min(len(a["T"]), len(b["T"])) and np.array_equal(a["X"][k], b["X"][k]) and float(a["T"][k]) * c == float(b["T"][k]):
                k += 1
            mism.append({"what": "replay:time-unit-twin-differs",
                         "detail": "path %d, unit %s: %d records against %d in unit time; first difference at record %d: state %s at t * c = %r, twin state %s at t = %r"
                                   % (p, unit_name(c), len(a["T"]), len(b["T"]), k, a["X"][k].tolist() if k < len(a["T"]) else None, float(a["T"][k]) * c if k < len(a["T"]) else None,
                                      b["X"][k].tolist() if k < len(b["T"]) else None, float(b["T"][k]) if k < len(b["T"]) else None)})
            return


def json_key(d):
    import json
    return json.dumps(d, sort_keys=True)


# ----------------------------------------------------------------------------- (c) statistics
def _digest(paths):
    """cheap fingerprint of a chunk of returned arrays (first, middle, last path in full; the sum of the others)"""
    import hashlib
    h = hashlib.sha256()
    n = len(paths)
    for i in sorted(set([0, n // 2, n - 1])):
        h.update(np.ascontiguousarray(paths[i]).tobytes())
    h.update(repr(float(sum(float(np.sum(np.asarray(x, float))) for x in paths))).encode())
    return h.hexdigest()


class Batch:
    """the outcome of `runs` real exact paths"""
    X = T = J = None
    too_slow = False
    error = None            # ("dask-missing" | exception text) for the parallel path
    overwritten = None      # text when a chunk returned earlier no longer reads as it did
    identical = None        # text when two consecutive replicates with events have identical event times


def simulate(model, time_arg, runs, np_seed, budget_s=600.0, *, parallel=False, between=None, chunk_size=500):
    """`runs` real exact paths in chunks of `chunk_size` iterations per call (one global numpy stream, seeded once).  `between(k)` is
    called between chunks, about every 500 paths (a sibling instance simulates there).  parallel=True: pygom's parallel code path
    (seed=True per replicate) on dask's synchronous scheduler."""
    import contextlib, io
    out = Batch()
    np.random.seed(int(np_seed))
    out_X, out_T, out_J, kept = [], [], [], []
    chunk_size = max(1, int(chunk_size or 500))
    every = max(1, 500 // chunk_size)
    t_start = time.time()
    done = 0
    sched = contextlib.nullcontext
    if parallel:
        try:
            import dask
            import dask.bag    # noqa
            sched = lambda: dask.config.set(scheduler="synchronous")     # the setting is applied when the object is made: one per chunk
        except Exception as exc:
            out.error = "dask-missing"
            return out
    chunk = 0
    while done < runs:
        n = min(chunk_size, runs - done)
        with contextlib.redirect_stdout(io.StringIO()), sched():
            try:
                X, J, T = model.solve_stochast(time_arg() if callable(time_arg) else time_arg, n, exact=True, full_output=True, parallel=parallel)
            except Exception as exc:
                out.error = "%s: %s" % (type(exc).__name__, str(exc)[:300])
                return out
        X = list(X)
        Tl = list(T) if isinstance(T, list) else [T] * n
        kept.append((X, _digest(X), Tl if isinstance(T, list) else None, _digest(Tl) if isinstance(T, list) else None))
        out_X += X
        out_T += Tl
        out_J += list(J)
        done += n
        chunk += 1
        if between is not None and done < runs and chunk % every == 0:
            between(chunk)
        if time.time() - t_start > budget_s and done < runs:
            out.too_slow = True
            return out
    for k, (X, dX, Tl, dT) in enumerate(kept):
        if _digest(X) != dX or (Tl is not None and _digest(Tl) != dT):
            out.overwritten = "chunk %d of %d (paths %d..%d) no longer reads as it did when it was returned" % (k, len(kept), chunk_size * k, chunk_size * k + len(X) - 1)
            break
    out.X, out.T, out.J = out_X, out_T, out_J
    return out


def identical_replicates(X, T, raw):
    """two consecutive replicates that both have events and coincide in every event time (raw output) - probability 0 under the law"""
    if not raw:
        return None
    for i in range(len(T) - 1):
        a, b = np.asarray(T[i], float), np.asarray(T[i + 1], float)
        if len(a) >= 2 and a.shape == b.shape and np.array_equal(a, b):
            return "replicates %d and %d have the same %d event times %s" % (i, i + 1, len(a) - 1, a[:4].tolist())
    return None


def upgrade(case):
    """cases stored before the grids were generalised: horizon_kind grid_array / grid_list / grid_tuple meant the grid [t0] + times"""
    hk = case.get("horizon_kind", "scalar")
    if hk.startswith("grid_"):
        case = dict(case, horizon_kind="grid", grid_shape="from_t0", grid_form=hk.split("_", 1)[1])
        if case.get("kind") == "chain":
            case["times"] = [float(case["t0"])] + [float(t) for t in case["times"]]
        else:
            case["times"] = [float(case["t0"]), float(case["t0"]) + 1.0, float(case["T"])]
    elif case.get("kind") == "sir" and "times" not in case:
        case = dict(case, times=[float(case["T"])])
    return case


def time_arg_of(case):
    """a callable returning a NEW object for the time argument on every call"""
    hk, v = case["horizon_kind"], [float(t) for t in case["times"]]
    t1 = v[-1]
    if hk == "grid":
        return {"array": lambda: np.array(v), "list": lambda: list(v), "tuple": lambda: tuple(v), "array_f32": lambda: np.array(v, dtype=np.float32),
                "array_int": lambda: np.array([int(x) for x in v]), "list_int": lambda: [int(x) for x in v],
                "tuple_int": lambda: tuple(int(x) for x in v)}[case.get("grid_form") or "array"]
    return {"scalar": lambda: t1, "np_f64": lambda: np.float64(t1), "np_f32": lambda: np.float32(t1), "int": lambda: int(t1),
            "list1": lambda: [t1], "tuple1": lambda: (t1,)}[hk]


def build_pdict_around(params, dist):
    """a dict of distributions concentrated around `params` (frozen scipy distributions or (sampler, args) tuples)"""
    import scipy.stats as st
    from pygom import utilR
    d = {}
    for k, v in params.items():
        d[k] = st.gamma(100.0, 0.0, float(v) / 100.0) if dist == "frozen" else (utilR.rgamma, (100.0, 100.0 / float(v)))
    return d


class Configured:
    """the instance under test, taken through its history; .model is what the judged batch runs on"""

    def __init__(self, spec, params, x0, t0, case, tags):
        self.spec, self.params, self.x0, self.t0, self.case, self.tags = spec, dict(params), [int(v) for v in x0], float(t0), case, tags
        self.between = None
        self.handed = []
        self.u = float(case.get("time_unit") or 1.0)        # unit of time of the case: absolute offsets / thresholds below are in unit time
        h = case.get("history")
        first = dict(params) if not h or h["kind"] not in ("params", "stoch_then_numbers", "deepcopy") else dict(h["params_other"])
        x_first = self.x0 if not h or h["kind"] != "iv" else h["x0_other"]
        t_first = self.t0 if not h or h["kind"] != "iv" else self.t0 + 1.0 / self.u
        self.model = pymodel.build(spec, backend="lambda")
        self.model.parameters = {k: float(v) for k, v in first.items()}
        self._set_iv(x_first, t_first, case.get("x0_form") if not h or h["kind"] != "iv" else h.get("x0_form"), case.get("t0_form"))
        if h:
            tags.append("history:" + h["kind"])
            self._history(h)
        tags.append("x0_form:%s" % (case.get("x0_form") or "arr_int")); tags.append("t0_form:%s" % (case.get("t0_form") or "np_f64"))

    def _set_iv(self, x0, t0, x0_form, t0_form, via="values"):
        xa, ta = SC.make_x0(x0, x0_form), SC.make_t0(t0, t0_form)
        if via == "separate":
            self.model.initial_state = xa; self.model.initial_time = ta
        else:
            self.model.initial_values = (xa, ta)
        self.handed.append((xa, copy.deepcopy(xa)))

    def _warm(self, targ, n, exact=True):
        import contextlib, io
        with contextlib.redirect_stdout(io.StringIO()):
            try:
                self.model.solve_stochast(targ() if callable(targ) else targ, n, exact=exact, full_output=True)
            except Exception as exc:      # crashes belong to C04; the judged batch is what this check is about
                self.tags.append("history:warmup-raised:" + type(exc).__name__)

    def _sibling(self, h):
        m = pymodel.build(self.spec, backend="lambda")
        m.parameters = {k: float(v) for k, v in h["params_other"].items()}
        m.initial_values = (np.array(h["x0_other"], float), np.float64(self.t0))
        return m

    def _history(self, h):
        import contextlib, io
        case, k, warm, u = self.case, h["kind"], int(h["warm"]), self.u
        t_far = max(float(case["times"][-1]), self.t0 + 1e-3 / u)
        near = float(t_far) * u < 1e5                      # a horizon of ordinary length (SIR cases run to 1e6 unit times)
        targ = time_arg_of(case)
        np.random.seed(int(h["np_seed"]))
        restore_params = False
        if k == "params":
            self._warm(targ, warm)
            restore_params = True
        elif k == "restore":
            self._warm(targ, warm // 2)
            SC.assign_params(self.model, h["params_other"], "dict")
            self._warm(targ, warm // 2)
            restore_params = True
        elif k == "iv":
            self._warm(lambda: self.t0 + 1.0 / u + (float(t_far) - self.t0 if near else 50.0 / u), warm)
            self._set_iv(self.x0, self.t0, case.get("x0_form"), case.get("t0_form"), via="separate" if h["np_seed"] % 2 else "values")
        elif k == "tau_leftover":
            tot = max(sum(float(v) for v in self.params.values() if v) * max(sum(self.x0), 1), 1e-3)
            self.model.pre_tau = 2.0 / tot
            self.model._epsilon = 0.1
            self._warm(lambda: (self.t0 + 20.0 / tot) if not near else float(t_far), max(20, warm // 4), exact=False)
            self.tags.append("exact_with_leftover_tau_config")
        elif k == "grid":
            span = (float(t_far) - self.t0) if near else 3.0 / u
            # another grid (from t0 / from later / one point) and another horizon than those of the judged batch
            og = [self.t0, self.t0 + 0.3 * span, self.t0 + 0.7 * span, self.t0 + 1.3 * span][(0, 1, 3)[h["np_seed"] % 3]:]
            self._warm(lambda: np.array(og), warm // 2)
            self._warm(lambda: self.t0 + 0.5 * span, warm // 2)
        elif k == "sibling":
            sib = self._sibling(h)
            st = {"n": 0}

            def between(chunk, sib=sib, st=st):
                state = np.random.get_state()          # the sibling draws from the same global stream: put it back, the judged
                with contextlib.redirect_stdout(io.StringIO()):   # batch stays one seeded stream
                    sib.solve_stochast(targ(), 20, exact=True, full_output=True)
                np.random.set_state(state)
                st["n"] += 1
            between(0)
            self.between = between
        elif k == "stoch_then_numbers":
            self.model.parameters = build_pdict_around(h["params_other"], h["dist"])
            self._warm(targ, warm)
            restore_params = True
        elif k == "determ":
            span = (float(t_far) - self.t0) if near else 3.0 / u
            with contextlib.redirect_stdout(io.StringIO()):
                self.model.integrate(np.linspace(self.t0, self.t0 + span, 5)[1:])
                self.model.solve_determ(np.linspace(self.t0, self.t0 + span, 4)[1:])
        elif k == "deepcopy":
            self._warm(targ, warm)
            self.model = copy.deepcopy(self.model)
            restore_params = True
        else:
            raise ValueError("unknown history %r" % k)
        if restore_params:
            self.tags.append("assign:" + SC.assign_params(self.model, self.params, h["assign"]))

    def input_modified(self):
        return any(not SC._same_obj(a, b) for a, b in self.handed)


def batch_problems(out, case, tags, mism, viol, what):
    """True when the batch cannot be judged"""
    if out.error == "dask-missing":
        tags.append("parallel:dask-missing-not-judged")
        return True
    if out.error is not None:
        if case.get("parallel"):
            mism.append({"what": "parallel:raised", "detail": out.error})
            tags.append("parallel:raised")
        else:
            mism.append({"what": "stat:raised", "detail": out.error})
        return True
    if out.too_slow:
        mism.append({"what": "stat:too-slow", "detail": "the runs did not finish within the time budget"})
        return True
    if out.overwritten:
        viol.append({"what": "paths returned by an earlier solve_stochast call were changed by later calls", "signature": "C05:%s:kept-result-overwritten" % what,
                     "detail": out.overwritten})
    return False


def sig_suffix(case):
    h = case.get("history")
    return ((":after-history:" + h["kind"]) if h else "") + (":parallel" if case.get("parallel") else "") + ((":time-unit:" + unit_name(case["time_unit"])) if case.get("time_unit") else "")


def occupancy_reference(fam, params, dt):
    """row `start` of expm(Q dt) for the individual-level generator of one family (40 digits)"""
    import mpmath
    mpmath.mp.dps = 40
    k = len(fam["states"])
    Q = mpmath.zeros(k, k)
    for (i, j, p) in fam["edges"]:
        v = mpmath.mpf(Fraction(float(params[p])).numerator) / mpmath.mpf(Fraction(float(params[p])).denominator)
        Q[i, j] += v
        Q[i, i] -= v
    P = mpmath.expm(Q * mpmath.mpf(Fraction(float(dt)).numerator) / mpmath.mpf(Fraction(float(dt)).denominator))
    row = [P[fam["start"], j] for j in range(k)]
    tot = sum(row)
    return [float(v / tot) for v in row], float(abs(tot - 1))


def rows_at(case, X, T, t0, tags, viol, what, nS):
    """(judged, dup, occ): judged = [(row index, time)] of the distinct requested times >= t0, dup = [(first row, later row)] of
    repeated times, occ[row index] = array runs x states of the state reported for that time.  Scalar horizon: the state is read
    from the raw path (last recorded state at or before the time); grid: row i of the returned array belongs to grid time i."""
    times = [float(t) for t in case["times"]]
    raw = case["horizon_kind"] != "grid"
    judged, dup, seen = [], [], {}
    for ti, t in enumerate(times):
        if t < t0:
            tags.append("requested-time-before-t0:not-judged")     # outside the property (the unchanged tree reports the initial state)
        elif t in seen:
            dup.append((seen[t], ti))
        else:
            seen[t] = ti
            judged.append((ti, t))
    occ = {}
    if raw:
        for ti, t in judged:
            rows = []
            for x, tt in zip(X, T):
                x, tt = np.asarray(x, float), np.asarray(tt, float)
                rows.append(x[max(int(np.searchsorted(tt, t, side="right")) - 1, 0)])
            occ[ti] = np.array(rows).reshape(len(X), nS)
        return judged, dup, occ
    shapes = set(np.asarray(x).shape for x in X)
    if shapes != {(len(times), nS)}:
        viol.append({"what": "a grid of %d output times does not give arrays of %d rows" % (len(times), len(times)), "signature": "C05:%s:grid-shape" % what,
                     "detail": "grid %s (%s): returned shapes %s" % (times, case.get("grid_form"), sorted(shapes)[:3])})
        return None, None, None
    A = np.array([np.asarray(x, float) for x in X])
    for ti in range(len(times)):
        occ[ti] = A[:, ti, :]
    return judged, dup, occ


def cell_class(name, default):
    """the part of the law a failing cell belongs to (goes into the signature)"""
    if name.startswith("first "):
        return "first-step"
    if name.startswith("runs that book event"):
        return "zero-rate-event-booked"
    if "both for t=" in name:
        return "repeated-time-rows-differ"
    return default


def first_step_cells(cells, rates0, J, T, t0, horizon, runs, label):
    """the property's first sentence at the initial state, on the raw output, up to the horizon (a step recorded beyond the horizon
    counts as "no event by the horizon", so a tree that does not record the overshooting step is judged alike): with R = sum r and
    d = horizon - t0, P(no event by the horizon) = exp(-R d), P(first event is e, by the horizon) = r_e / R * (1 - exp(-R d)), and
    the first waiting time falls into the part below d of each octile of Exp(R) with that part's probability; an event with rate
    zero at the initial state is never the first"""
    R = float(sum(rates0))
    d = float(horizon) - float(t0)
    if not (d > 0):
        return
    nE = len(rates0)
    if R <= 0:
        cells.add(label + "first step: runs with an event by the horizon although no event has a positive rate at the initial state",
                  sum(1 for tt in T if len(np.atleast_1d(tt)) > 1 and float(np.atleast_1d(tt)[1]) <= horizon), runs, 0.0)
        return
    first, wait, none = [], [], 0
    for j, tt in zip(J, T):
        tt = np.atleast_1d(np.asarray(tt, float))
        j = np.asarray(j).reshape(-1, nE) if np.asarray(j).size else np.zeros((0, nE))
        if len(tt) < 2 or len(j) < 1 or not (tt[1] <= horizon):
            none += 1
            continue
        w = np.flatnonzero(j[0])
        first.append(int(w[0]) if len(w) == 1 and j[0][w[0]] == 1 else -1)
        wait.append(float(tt[1] - tt[0]))
    F = lambda x: -math.expm1(-R * min(max(x, 0.0), d))            # P(first waiting time <= min(x, d))
    cells.add(label + "first step: runs without an event by the horizon (total rate %r at the initial state, %r to go)" % (R, d), none, runs, math.exp(-R * d))
    first = np.array(first, int)
    cells.add(label + "first step does not book exactly one event", int(np.sum(first < 0)), runs, 0.0)
    for e in range(nE):
        cells.add(label + "first event (by the horizon) is event %d (rate %r of total %r at the initial state)" % (e, float(rates0[e]), R),
                  int(np.sum(first == e)), runs, float(rates0[e]) / R * F(d))
    edges = [0.0] + [-math.log1p(-k / 8.0) / R for k in range(1, 8)] + [float("inf")]
    wt = np.array(wait, float)
    cnt = np.bincount(np.searchsorted(edges[1:-1], wt, side="right"), minlength=8)
    for k in range(8):
        cells.add(label + "first waiting time (by the horizon) in octile %d of Exp(total rate %r)" % (k, R), cnt[k], runs, max(0.0, F(edges[k + 1]) - F(edges[k])))
    cells.add(label + "first waiting time <= 0", int(np.sum(wt <= 0)), runs, 0.0)


def run_chain(case):
    from scipy import stats as st
    case = upgrade(case)
    hk = case["horizon_kind"]
    tags, mism, viol = ["kind:chain", "horizon:" + hk, "families=%d" % len(case["families"])], [], []
    if hk == "grid": tags += ["grid_shape:%s" % case.get("grid_shape"), "grid_form:%s" % case.get("grid_form")]
    if case.get("boundary"): tags += ["boundary", "boundary:%s:%s" % (hk, case.get("grid_shape"))]
    if case.get("parallel"): tags.append("parallel")
    if case.get("time_unit"): tags += ["time-unit-scaled", "time-unit:" + unit_name(case["time_unit"])]
    spec = chain_spec(case["families"])
    t0 = float(case["t0"])
    cfg = Configured(spec, case["params"], case["x0"], t0, case, tags)
    model = cfg.model
    times = [float(t) for t in case["times"]]
    raw = hk != "grid"
    runs = int(case["runs"])
    chunk = int(case.get("chunk") or 500)
    tags.append("iterations-per-call:%s" % ("1" if chunk == 1 else "2..249" if chunk < 250 else ">=250"))
    nS = len(case["x0"])
    events = [(f_i, i, j, p) for f_i, f in enumerate(case["families"]) for (i, j, p) in f["edges"]]
    nE = len(events)
    dead = [e for e, ev in enumerate(events) if float(case["params"][ev[3]]) == 0.0]
    if dead: tags.append("zero-rate-event-declared" + ("-first" if 0 in dead else ""))
    out = simulate(model, time_arg_of(case), runs, case["np_seed"], parallel=bool(case.get("parallel")), between=cfg.between, chunk_size=chunk)
    if cfg.input_modified(): tags.append("input-modified:x0")
    if batch_problems(out, case, tags, mism, viol, "chain"):
        return {"nontrivial": False, "mismatches": mism, "violations": viol, "tags": tags}
    X, T, J = out.X, out.T, out.J
    same_rep = identical_replicates(X, T, raw)
    if same_rep:
        viol.append({"what": "two replicates of one call follow the same path", "signature": "C05:chain:identical-replicates" + sig_suffix(case), "detail": same_rep})
    judged, dup, occ = rows_at(case, X, T, t0, tags, viol, "chain", nS)
    if judged is None:
        return {"nontrivial": False, "mismatches": mism, "violations": viol, "tags": tags}
    if any(t == t0 for _, t in judged): tags.append("judged-at-t0")
    if not raw and judged and judged[0][0] == 0 and judged[0][1] > t0: tags.append("grid-starts-after-t0")
    cells = Cells(case["alpha"])
    for (a, b) in dup:
        tags.append("repeated-grid-time")
        cells.add("runs whose rows %d and %d (both for t=%r) differ" % (a, b, times[a]), int(np.sum(np.any(occ[a] != occ[b], axis=1))), runs, 0.0)
    col = 0
    total_events = 0
    for f in case["families"]:
        k, n = len(f["states"]), int(f["n"])
        src = set(i for (i, j, p) in f["edges"] if float(case["params"][p]) > 0)
        dst = set(j for (i, j, p) in f["edges"] if float(case["params"][p]) > 0)
        for ti, t in judged:
            p, err = occupancy_reference(f, case["params"], t - t0)
            if err > 1e-30:
                mism.append({"what": "reference:expm", "detail": "row sum of expm off by %g" % err})
            o = occ[ti][:, col:col + k]
            if not np.all(np.mod(o, 1) == 0):
                viol.append({"what": "non-integer occupancy", "signature": "C05:chain:non-integer", "detail": str(o[:3].tolist())})
                continue
            bad_tot = np.flatnonzero(o.sum(axis=1) != n)
            # individuals are conserved by every event of the family; a path that lost some has left the chain's state space
            cells.add("family %s t=%r: runs whose family total is not %d" % (f["states"][0], t, n), len(bad_tot), runs, 0.0)
            for c in range(k):
                name = "state %s at t=%r (requested time %d of %d)" % (f["states"][c], t, ti + 1, len(times))
                tot = int(np.clip(o[:, c], 0, None).sum())
                cells.add(name + ": individuals over all runs", tot, runs * n, p[c])
                pm = st.binom.pmf(np.arange(n + 1), n, p[c])
                cnt = np.bincount(np.clip(o[:, c], 0, n).astype(int), minlength=n + 1)
                for v in range(n + 1):
                    cells.add(name + ": runs with exactly %d" % v, cnt[v], runs, pm[v])
                cells.add(name + ": runs with a negative count", int(np.sum(o[:, c] < 0)), runs, 0.0)
        # along one path: a compartment nobody enters only loses individuals, one nobody leaves only gains them
        for (ta, _), (tb, _) in zip(judged, judged[1:]):
            for c in range(k):
                if c not in dst:
                    cells.add("state %s (no way in): runs where it grows between requested times %d and %d" % (f["states"][c], ta + 1, tb + 1),
                              int(np.sum(occ[tb][:, col + c] > occ[ta][:, col + c])), runs, 0.0)
                if c not in src:
                    cells.add("state %s (no way out): runs where it shrinks between requested times %d and %d" % (f["states"][c], ta + 1, tb + 1),
                              int(np.sum(occ[tb][:, col + c] < occ[ta][:, col + c])), runs, 0.0)
        col += k
    # the events booked (full_output): an event whose rate is identically zero is never chosen
    for e in dead:
        booked = sum(1 for j in J if np.asarray(j).size and np.any(np.asarray(j).reshape(-1, nE)[:, e] != 0))
        cells.add("runs that book event %d (%s -> %s with rate parameter 0)" % (e, case["families"][events[e][0]]["states"][events[e][1]],
                                                                              case["families"][events[e][0]]["states"][events[e][2]]), booked, runs, 0.0)
    absorbed = None
    if raw:
        total_events = sum(len(np.atleast_1d(tt)) - 1 for tt in T)
        x0v = [float(v) for v in case["x0"]]
        offs = np.cumsum([0] + [len(f["states"]) for f in case["families"]])
        rates0 = [float(case["params"][p]) * x0v[offs[f_i] + i] for (f_i, i, j, p) in events]
        first_step_cells(cells, rates0, J, T, t0, times[-1], runs, "")
        absorbed = sum(1 for tt in T if float(np.atleast_1d(tt)[-1]) < times[-1]) / float(runs)
        if absorbed > 0.5: tags.append("most-paths-absorbed-before-the-horizon")
    bad = cells.judge()
    if bad:
        b = bad[0]
        cls = cell_class(b[0], "occupancy")
        viol.append({"what": ("occupancy of independent chains at time t is not multinomial(expm(Q t)): %s" if cls == "occupancy" else
                              "the simulated paths do not follow the chain's law: %s") % b[0],
                     "signature": "C05:chain:%s" % cls + sig_suffix(case),
                     "detail": "observed %d of %d, reference probability %.6g, exact acceptance region [%d, %d], z = %.1f; %d of %d cells fail; "
                               "families %s params %s x0 %s (%s) t0 %r requested times %s (%s %s %s) %d iterations per call, history %s, unit of time %s"
                               % (b[1], b[2], b[3], b[4], b[5], b[6], len(bad), len(cells.cells), case["families"], case["params"], case["x0"],
                                  case.get("x0_form"), t0, times, hk, case.get("grid_shape"), case.get("grid_form"), chunk, case.get("history"),
                                  unit_name(case["time_unit"]) if case.get("time_unit") else "1")})
    nontrivial = runs >= (300 if case.get("parallel") else 1000) and any(t > t0 for _, t in judged)
    return {"nontrivial": nontrivial, "mismatches": mism, "violations": viol, "tags": tags,
            "sample": {"kind": "chain", "families": [{"states": f["states"], "edges": [(f["states"][i], f["states"][j], case["params"][p]) for i, j, p in f["edges"]],
                                                      "n": f["n"], "start": f["start"]} for f in case["families"]],
                       "t0": t0, "times": times, "horizon_kind": hk, "grid_shape": case.get("grid_shape"), "grid_form": case.get("grid_form"), "iterations_per_call": chunk,
                       "runs": runs, "cells": len(cells.cells), "events_simulated": total_events, "share_absorbed_before_horizon": absorbed,
                       "history": (case.get("history") or {}).get("kind"), "x0_form": case.get("x0_form"), "parallel": bool(case.get("parallel"))}}


def final_size_python(s0, i0, beta, gamma, pop):
    """exact final-size pmf by recursion over the embedded jump chain (Fractions) - independent of Lean"""
    import sys
    sys.setrecursionlimit(10000)
    memo = {}

    def f(s, i):
        if i == 0:
            return {s: Fraction(1)}
        if (s, i) in memo:
            return memo[(s, i)]
        ri = beta * s * i / pop
        rr = gamma * i
        out = {}
        for pr, nxt in ((ri / (ri + rr), (s - 1, i + 1)), (rr / (ri + rr), (s, i - 1))):
            if pr == 0:
                continue
            for kk, vv in f(*nxt).items():
                out[kk] = out.get(kk, 0) + pr * vv
        memo[(s, i)] = out
        return out
    d = f(s0, i0)
    return [d.get(s0 - z, Fraction(0)) for z in range(s0 + 1)]


def run_sir(case):
    case = upgrade(case)
    hk = case["horizon_kind"]
    tags, mism, viol = ["kind:sir", "sir:" + case["rate_kind"], "horizon:" + hk], [], []
    if hk == "grid": tags += ["grid_shape:%s" % case.get("grid_shape"), "grid_form:%s" % case.get("grid_form")]
    s0, i0, r0 = int(case["s0"]), int(case["i0"]), int(case["r0"])
    beta, gamma, pop = Fraction(float(case["beta"])), Fraction(float(case["gamma"])), Fraction(float(case["pop"]))
    lean = leanio.driver().call({"op": "finalsize", "s0": s0, "i0": i0, "beta": SC.q(beta), "gamma": SC.q(gamma), "pop": SC.q(pop)})
    pmf_lean = [Fraction(v) for v in lean["pmf"]]
    pmf_py = final_size_python(s0, i0, beta, gamma, pop)
    if pmf_lean != pmf_py or Fraction(lean["total"]) != 1:
        mism.append({"what": "finalsize:pmf", "detail": "lean %s python %s" % (lean["pmf"][:6], [str(v) for v in pmf_py[:6]])})
    pmf = [float(v) for v in pmf_py]
    if case.get("parallel"): tags.append("parallel")
    if case.get("time_unit"): tags += ["time-unit-scaled", "time-unit:" + unit_name(case["time_unit"])]
    t0 = float(case["t0"])
    cfg = Configured(sir_spec(case["rate_kind"]), {"beta": float(case["beta"]), "gamma": float(case["gamma"]), "N": float(case["pop"])},
                     [s0, i0, r0], t0, case, tags)
    model = cfg.model
    runs = int(case["runs"])
    raw = hk != "grid"
    times = [float(t) for t in case["times"]]
    chunk = int(case.get("chunk") or 500)
    tags.append("iterations-per-call:%s" % ("1" if chunk == 1 else "2..249" if chunk < 250 else ">=250"))
    out = simulate(model, time_arg_of(case), runs, case["np_seed"], parallel=bool(case.get("parallel")), between=cfg.between, chunk_size=chunk)
    if cfg.input_modified(): tags.append("input-modified:x0")
    if batch_problems(out, case, tags, mism, viol, "sir"):
        return {"nontrivial": False, "mismatches": mism, "violations": viol, "tags": tags}
    X, T, J = out.X, out.T, out.J
    same_rep = identical_replicates(X, T, raw)
    if same_rep:
        viol.append({"what": "two replicates of one call follow the same path", "signature": "C05:sir:identical-replicates" + sig_suffix(case), "detail": same_rep})
    judged, dup, occ = rows_at(case, X, T, t0, tags, viol, "sir", 3)
    if judged is None:
        return {"nontrivial": False, "mismatches": mism, "violations": viol, "tags": tags}
    if not raw and judged and judged[0][0] == 0 and judged[0][1] > t0: tags.append("grid-starts-after-t0")
    fin = occ[judged[-1][0]]                        # the state reported for the last requested time (far beyond extinction)
    alive = fin[:, 1] != 0
    off = (fin.sum(axis=1) != s0 + i0 + r0) | np.any(np.mod(fin, 1) != 0, axis=1)
    z = np.clip(s0 - fin[:, 0], 0, s0).astype(int)
    ok = ~alive & ~off & (fin[:, 0] >= 0) & (fin[:, 0] <= s0)
    cells = Cells(case["alpha"])
    cells.add("runs that stopped with infectives left (I != 0 at the end)", int(alive.sum()), runs, 0.0)
    cells.add("runs whose final state left the state space (total or sign)", int((off | (fin[:, 0] < 0) | (fin[:, 0] > s0)).sum()), runs, 0.0)
    cnt = np.bincount(z[ok], minlength=s0 + 1)
    cum = 0.0
    for v in range(s0 + 1):
        cells.add("final size = %d" % v, cnt[v], runs, pmf[v])
        cum += pmf[v]
        if v < s0:
            cells.add("final size <= %d" % v, int(cnt[:v + 1].sum()), runs, min(1.0, cum))
    # what every path satisfies at every requested time (no closed-form law is used at the intermediate times)
    x0v = np.array([s0, i0, r0], float)
    for (a, b) in dup:
        tags.append("repeated-grid-time")
        cells.add("runs whose rows %d and %d (both for t=%r) differ" % (a, b, times[a]), int(np.sum(np.any(occ[a] != occ[b], axis=1))), runs, 0.0)
    for ti, t in judged:
        o = occ[ti]
        if t == t0:
            tags.append("judged-at-t0")
            cells.add("requested time %d = t0: runs whose reported state is not the initial state" % (ti + 1), int(np.sum(np.any(o != x0v, axis=1))), runs, 0.0)
        elif (t - t0) * float(case.get("time_unit") or 1.0) < 1e3:
            # every event changes the state and no state is visited twice: the state at t is still the initial one iff no event happened
            cells.add("requested time %d (t=%r): runs still in the initial state (no event yet: exp(-total rate * (t - t0)))" % (ti + 1, t),
                      int(np.sum(np.all(o == x0v, axis=1))), runs, math.exp(-float(beta * s0 * i0 / pop + gamma * i0) * (t - t0)))
        cells.add("requested time %d (t=%r): runs off the state space (total, sign, integrality)" % (ti + 1, t),
                  int(np.sum((o.sum(axis=1) != s0 + i0 + r0) | np.any(o < 0, axis=1) | np.any(np.mod(o, 1) != 0, axis=1))), runs, 0.0)
    for (ta, _), (tb, _) in zip(judged, judged[1:]):
        cells.add("runs where S grows or R shrinks between requested times %d and %d" % (ta + 1, tb + 1),
                  int(np.sum((occ[tb][:, 0] > occ[ta][:, 0]) | (occ[tb][:, 2] < occ[ta][:, 2]))), runs, 0.0)
    if raw:
        rates0 = [float(beta * s0 * i0 / pop), float(gamma * i0)]
        first_step_cells(cells, rates0, J, T, t0, times[-1], runs, "")
    bad = cells.judge()
    if bad:
        b = bad[0]
        what = cell_class(b[0], "final-size" if ("final" in b[0] or "infectives" in b[0]) else "path-invariant")
        viol.append({"what": ("SIR final size does not follow the embedded jump chain's law: %s" if what == "final-size" else
                              "the simulated SIR paths do not follow the chain's law: %s") % b[0], "signature": "C05:sir:%s" % what + sig_suffix(case),
                     "detail": "observed %d of %d, exact probability %.6g, exact acceptance region [%d, %d], z = %.1f; %d of %d cells fail; "
                               "S0=%d I0=%d R0=%d beta=%r gamma=%r N=%r (%s) x0 as %s, requested times %s (%s %s %s), %d iterations per call, history %s, unit of time %s"
                               % (b[1], b[2], b[3], b[4], b[5], b[6], len(bad), len(cells.cells), s0, i0, r0, case["beta"], case["gamma"], case["pop"], case["rate_kind"],
                                  case.get("x0_form"), times, hk, case.get("grid_shape"), case.get("grid_form"), chunk, case.get("history"),
                                  unit_name(case["time_unit"]) if case.get("time_unit") else "1")})
    return {"nontrivial": runs >= (300 if case.get("parallel") else 1000), "mismatches": mism, "violations": viol, "tags": tags,
            "sample": {"kind": "sir", "s0": s0, "i0": i0, "beta": case["beta"], "gamma": case["gamma"], "pop": case["pop"], "runs": runs,
                       "times": times, "horizon_kind": hk, "grid_shape": case.get("grid_shape"), "grid_form": case.get("grid_form"), "iterations_per_call": chunk,
                       "cells": len(cells.cells), "mean_final_size": float(z[ok].mean()) if ok.any() else None,
                       "exact_mean": float(sum(v * p for v, p in enumerate(pmf)))}}


def run_case(case):
    import sys
    if hasattr(sys, "set_int_max_str_digits"):
        sys.set_int_max_str_digits(0)          # exact pmf entries can have thousands of digits
    k = case.get("kind")
    if k == "identity":
        return run_identity(case)
    if k == "replay":
        return run_replay(case)
    if k == "chain":
        return run_chain(case)
    if k == "sir":
        return run_sir(case)
    raise ValueError("unknown case kind %r" % k)
